"""C09 — cmp is a consistent total order and the predicates derive from it (engine cmp)."""
import struct
from ..runner import Spec, Case
from .. import core

I64_MIN, I64_MAX = -(1 << 63), (1 << 63) - 1

def int_boundaries():
    s = set()
    for e in (0, 1, 7, 8, 15, 16, 30, 31, 32, 33, 52, 53, 62, 63):
        for sg in (1, -1):
            for d in (-2, -1, 0, 1, 2):
                v = sg * (1 << e) + d
                if I64_MIN <= v <= I64_MAX: s.add(v)
    s.update([0, I64_MIN, I64_MAX, I64_MIN + 1, I64_MAX - 1, 3000000000, -3000000000, 1 << 40, -(1 << 40)])
    return sorted(s)

def fbits(x): return struct.unpack('<Q', struct.pack('<d', x))[0]

def float_boundaries():
    pos = [0x0000000000000000, 0x0000000000000001, 0x0000000000000002, 0x000fffffffffffff, 0x0010000000000000,
           0x0010000000000001, 0x001fffffffffffff, 0x3fefffffffffffff, 0x3ff0000000000000, 0x3ff0000000000001,
           0x4000000000000000, 0x433fffffffffffff, 0x4340000000000000, 0x4340000000000001, 0x43e0000000000000,
           0x7fe0000000000000, 0x7fefffffffffffff, 0x7ff0000000000000, fbits(0.1), fbits(0.3), fbits(1e-310), fbits(1e308),
           fbits(4294967296.0), fbits(2147483648.0), fbits(0.5), fbits(3.0)]
    return sorted(set(pos + [b | (1 << 63) for b in pos]))

def rand_float_bits(rng):
    r = rng.random()
    if r < 0.25:   # denormals and tiny
        b = rng.randrange(0, 1 << 53)
    elif r < 0.5:  # near the top
        b = rng.randrange(0x7fd0000000000000, 0x7ff0000000000001)
    elif r < 0.75: # same exponent, close mantissas
        b = 0x3ff0000000000000 + rng.randrange(0, 16)
    else:
        b = rng.randrange(0, 0x7ff0000000000001)
    if rng.random() < 0.5: b |= 1 << 63
    return b

def rand_int(rng, B):
    r = rng.random()
    if r < 0.35: return rng.choice(B)
    if r < 0.55: return max(I64_MIN, min(I64_MAX, rng.choice(B) + rng.randrange(-3, 4)))
    if r < 0.75: return rng.randrange(I64_MIN, I64_MAX + 1)
    if r < 0.9: return rng.randrange(-(1 << 33), 1 << 33)
    return rng.randrange(-5, 6)

STR_B = [b'', b'a', b'ab', b'abc', b'abd', b'ab\xff', b'ab\x80', b'ab\x7f', b'ab\x01', b'\xff', b'\x80', b'\x7f', b'\x01', b'b',
         b'B', b'aa', b'a\xff\xff', b'\xff\xff', b'\xfe\xff', b'\xc3\xa9', b'e', b'z', b'Hello', b'Hello World', b'Hellp', b'Hell']

def rand_str(rng):
    r = rng.random()
    if r < 0.3: return rng.choice(STR_B)
    if r < 0.6:
        base = rng.choice(STR_B)
        return base + bytes(rng.choice([1, 0x7f, 0x80, 0xff, 0x61]) for _ in range(rng.randrange(0, 3)))
    n = rng.randrange(0, 10)
    return bytes(rng.choice([1, 0x41, 0x61, 0x62, 0x7f, 0x80, 0xfe, 0xff, rng.randrange(1, 256)]) for _ in range(n))

TYPE_NAMES = ["Int", "Float", "String", "Array", "List", "Tuple", "Tree", "Table", "Type", "Ref", "Box", "Range", "Slice", "Zip",
   "Filter", "Map", "File", "Mutex", "Thread", "Process", "Function", "Cmp", "Hash", "Iter", "Len", "Push", "Get", "Mark",
   "New", "Copy", "Assign", "Show", "Size", "Sort", "Start", "Swap", "C_Int", "C_Str", "C_Float", "Call", "Cast",
   "Concat", "Current", "Doc", "Format", "Help", "Lock", "Pointer", "Resize", "Alloc", "TypeError",
   "ValueError", "KeyError", "IOError", "ClassError", "IndexOutOfBoundsError", "OutOfMemoryError", "FormatError",
   "BusyError", "ResourceError", "GC", "Exception"]

def ti(v): return f'i{v}'
def tf(b): return f'f{b:016x}'
def ts(b): return 's' + b.hex()
def tt(n): return 't' + n

def rand_scalar(rng, kind, B):
    if kind == 'i': return ti(rand_int(rng, B))
    if kind == 'f': return tf(rng.choice(FLT_B) if rng.random() < 0.4 else rand_float_bits(rng))
    if kind == 's': return ts(rand_str(rng))
    return tt(rng.choice(TYPE_NAMES))

FLT_B = float_boundaries()

def seq_term(kind, elems):
    return f'{kind}{len(elems)}' + ''.join(' ' + e for e in elems)

def tree_term(entries):
    return f'R{len(entries)}' + ''.join(f' {k} {v}' for k, v in entries)

def rand_elems(rng, ek, n, B, depth=0):
    """n element terms of element kind ek in 'i','f','s' or ('A'|'L', inner kind)"""
    if isinstance(ek, tuple):
        return [seq_term(ek[0], rand_elems(rng, ek[1], rng.randrange(0, 4), B)) for _ in range(n)]
    small = rng.random() < 0.6
    out = []
    if ek in ('p1', 'p2', 'p3'):
        for _ in range(n):
            tid, b = rand_plain(rng, int(ek[1]))
            if small: b = bytes(rng.choice([0, 1, 0xff]) if j in (0, len(b) - 1) else 0 for j in range(len(b)))
            out.append(f'p{tid}:{b.hex()}')
        return out
    for _ in range(n):
        if small and ek == 'i': out.append(ti(rng.choice([0, 1, 2, -1, 1 << 32, I64_MIN, I64_MAX])))
        elif small and ek == 's': out.append(ts(rng.choice([b'', b'a', b'ab', b'a\xff', b'b'])))
        elif small and ek == 'f': out.append(tf(rng.choice([0, 1 << 63, 1, 0x3ff0000000000000, 0x7ff0000000000000, 0xfff0000000000000])))
        else: out.append(rand_scalar(rng, ek, B))
    return out

def variant(rng, elems, ek, B):
    """a sequence related to `elems`: equal, a prefix, an extension, one element changed"""
    r = rng.random(); e = list(elems)
    if r < 0.25: return e
    if r < 0.45: return e[:rng.randrange(0, len(e) + 1)]
    if r < 0.65: return e + rand_elems(rng, ek, rng.randrange(1, 3), B)
    if e:
        i = rng.randrange(len(e)); e[i] = rand_elems(rng, ek, 1, B)[0]
        if rng.random() < 0.3: e = e[:i + 1]
    return e

def rand_seq_pair(rng, B, n=2):
    r = rng.random()
    if r < 0.62: ek = rng.choice('ifs')
    elif r < 0.7: ek = rng.choice(['p1', 'p2', 'p3'])      # plain structs of one type (non-zero size): memcmp per element
    else: ek = (rng.choice('AL'), rng.choice('ifs'))
    base = rand_elems(rng, ek, rng.randrange(0, 6), B)
    out = []
    for _ in range(n):
        out.append(seq_term(rng.choice('ALT'), variant(rng, base, ek, B)))
    return out

def rand_tuple_pair(rng, B, n=2):
    """heterogeneous Tuples whose positions agree in kind"""
    kinds = [rng.choice(['i', 'f', 's', 'A', 'T', 'R', 't', 'p']) for _ in range(rng.randrange(0, 5))]
    ptid = rng.choice([1, 2, 3])
    tnames = rng.sample(TYPE_NAMES, 12)      # a Type is ONE object: within one Tuple each name at most once (else: the same object twice)
    def one(k, j=0):
        if k == 't': return tt(tnames[2 * j + rng.randrange(2)])
        if k == 'p': tid, b = rand_plain(rng, ptid); return f'p{tid}:{b.hex()}'
        if k in 'ifs': return rand_scalar(rng, k, B)
        if k == 'A': return rand_seq_pair(rng, B, 1)[0]
        if k == 'T': return seq_term('T', [rand_scalar(rng, rng.choice('is'), B) for _ in range(rng.randrange(0, 3))])
        return rand_tree_pair(rng, B, 1)[0]
    base = None
    out = []
    for _ in range(n):
        if base is None or rng.random() < 0.5:
            # same kinds position by position; nested containers are regenerated with the same element kind only when scalar
            cur = []
            for j, k in enumerate(kinds):
                if base is not None and rng.random() < 0.6: cur.append(base[j])
                elif k in 'ifstp': cur.append(one(k, j))
                elif base is not None: cur.append(base[j])
                else: cur.append(one(k, j))
            if base is None: base = cur
        else:
            cur = list(base)
        cut = rng.random()
        if cut < 0.2: cur = cur[:rng.randrange(0, len(cur) + 1)]
        out.append(seq_term('T', cur))
    return out

def rand_tree_pair(rng, B, n=2):
    kk, vk = rng.choice('ifs'), rng.choice('ifs')
    m = rng.randrange(0, 5)
    keys = rand_elems(rng, kk, m, B); vals = rand_elems(rng, vk, m, B)
    base = list(zip(keys, vals))
    out = []
    for _ in range(n):
        e = list(base); r = rng.random()
        if r < 0.25: pass
        elif r < 0.45: rng.shuffle(e)                         # same map, other insertion order
        elif r < 0.6 and e: i = rng.randrange(len(e)); e[i] = (e[i][0], rand_elems(rng, vk, 1, B)[0])     # value differs
        elif r < 0.75 and e: i = rng.randrange(len(e)); e[i] = (rand_elems(rng, kk, 1, B)[0], e[i][1])   # key differs
        elif r < 0.85 and e: e = e[:rng.randrange(0, len(e))]
        else: e = e + list(zip(rand_elems(rng, kk, 1, B), rand_elems(rng, vk, 1, B)))
        if rng.random() < 0.15 and e: e = e + [(e[0][0], rand_elems(rng, vk, 1, B)[0])]                  # the same key set twice
        out.append(tree_term(e))
    return out

def rand_cont_tuple_pair(rng, B, n=2):
    """Arrays / Lists (and Tuples) whose ELEMENTS are Tuples, Trees whose VALUES are Tuples: the container's copy of a Tuple
    references the objects of its source.  All element Tuples have the same kinds slot by slot (any prefix); no Tuple holds an
    object twice; the second operand may reference objects of the first (each at most once per Tuple)."""
    kinds = [rng.choice('iifs') for _ in range(rng.randrange(0, 4))]
    def slot(k): return small_elem(rng, k) if rng.random() < 0.6 else rand_scalar(rng, k, B)
    def new_tuple(): return [slot(k) for k in kinds[:(len(kinds) if rng.random() < 0.75 else rng.randrange(0, len(kinds) + 1))]]
    base = [new_tuple() for _ in range(rng.randrange(0, 4))]
    tree = rng.random() < 0.3
    keys = rng.sample(SMALL_I + [3, 4, 5], len(base)) if tree else None
    names = Names(); named = {}          # (tuple index, slot index) -> name, for objects of the first operand
    out = []
    for op in range(n):
        e = [list(t) for t in base]; ks = list(keys) if tree else None
        r = rng.random()
        if r < 0.25: pass
        elif r < 0.4 and e:
            cut = rng.randrange(0, len(e)); e = e[:cut]
            if tree: ks = ks[:cut]
        elif r < 0.55:
            e.append(new_tuple())
            if tree: ks.append(rng.choice([6, 7, -2]))
        elif e:
            i = rng.randrange(len(e)); q = rng.random()
            if q < 0.5 and e[i]: j = rng.randrange(len(e[i])); e[i][j] = slot(kinds[j])
            elif q < 0.75: e[i] = e[i][:rng.randrange(0, len(e[i]) + 1)]
            else: e[i] = new_tuple()
        terms = []
        for i, t in enumerate(e):
            sl = []
            for j, x in enumerate(t):
                if op == 0 and i < len(base) and names.n < 40 and rng.random() < 0.4:
                    named[(i, j)] = (names.new(), x); sl.append(f'&{named[(i, j)][0]} {x}')
                elif op > 0 and (i, j) in named and named[(i, j)][1] == x and rng.random() < 0.6:
                    sl.append(f'*{named[(i, j)][0]}')          # the object of the first operand, once in this Tuple
                else: sl.append(x)
            terms.append(seq_term('T', sl))
        if tree:
            if rng.random() < 0.3:
                z = list(zip(ks, terms)); rng.shuffle(z); ks = [a for a, _ in z]; terms = [b for _, b in z]
            out.append(tree_term([(ti(k), t) for k, t in zip(ks, terms)]))
        else: out.append(seq_term(rng.choice('AALLT'), terms))
    return out

def rand_plain(rng, tid=None):
    tid = rng.choice([1, 1, 2, 3, 3, 0]) if tid is None else tid
    n = {0: 0, 1: 4, 2: 4, 3: 16}[tid]
    r = rng.random()
    if r < 0.5: b = bytes(rng.choice([0, 1, 0x7f, 0x80, 0xff]) for _ in range(n))
    else: b = bytes(rng.randrange(256) for _ in range(n))
    return tid, b

# ------------------------------------------------------------------------------------------------ aliasing
# `&k <term>` names the object built from <term>, `*k` is that object again.  A Tuple that references one object from two
# slots is generated as the LEFT operand of `lcmp` only (right operand: known finding KF-C09-tuple-dup-obj).
SMALL_I = [0, 1, 2, -1, 1 << 32, I64_MIN, I64_MAX]
SMALL_S = [b'', b'a', b'ab', b'a\xff', b'b']
SMALL_F = [0, 1 << 63, 1, 0x3ff0000000000000, 0x4000000000000000, 0x7ff0000000000000, 0xfff0000000000000]

def small_elem(rng, ek):
    """one element term of kind ek: scalars from small pools (so that equal values in different objects are common)"""
    if ek == 'i': return ti(rng.choice(SMALL_I))
    if ek == 's': return ts(rng.choice(SMALL_S))
    if ek == 'f': return tf(rng.choice(SMALL_F))
    if ek in ('A', 'L'): return seq_term(ek, [ti(rng.choice([0, 1, 2])) for _ in range(rng.randrange(0, 3))])
    if ek == 'T': return seq_term('T', [ti(rng.choice([0, 1, 2])) for _ in range(rng.randrange(0, 3))])
    if ek == 'R': return tree_term([(ti(k), ts(rng.choice(SMALL_S))) for k in rng.sample([0, 1, 2], rng.randrange(0, 3))])
    raise ValueError(ek)

class Names:
    """object names of one op line"""
    def __init__(self): self.n = 0
    def new(self):
        self.n += 1
        if self.n > 63: raise ValueError('too many names on one line')
        return self.n

def shared_tuple(rng, names, ek, n, inner_dup=False):
    """a Tuple of n slots over fewer than n objects (so at least one object sits in two slots)
    -> (term, content terms slot by slot, object name slot by slot, names of slots whose object itself holds such a Tuple)"""
    nobj = rng.randrange(1, n)
    objs = []; inner = set()
    for j in range(nobj):
        if ek == 'T' and inner_dup and rng.random() < 0.4:
            t, c, _, _ = shared_tuple(rng, names, 'i', rng.randrange(2, 4))
            objs.append((t, seq_term('T', c))); inner.add(j)
        else:
            e = small_elem(rng, ek); objs.append((e, e))
    assign = list(range(nobj)) + [rng.randrange(nobj) for _ in range(n - nobj)]
    r = rng.random()
    if r < 0.5: rng.shuffle(assign)                     # anywhere
    elif r < 0.75: assign.sort()                        # adjacent repeats
    name = {}; slots = []; content = []; who = []
    for j in assign:
        if j in name: slots.append(f'*{name[j]}')
        else:
            name[j] = names.new(); slots.append(f'&{name[j]} {objs[j][0]}')
        content.append(objs[j][1]); who.append(name[j])
    return seq_term('T', slots), content, who, {name[j] for j in inner if j in name}

def alias_left_case(rng):
    """lcmp <Tuple with a repeated object> <Tuple / Array / List without one>: equal, shorter, longer, differing before /
    at / after the repeated slot; the right operand may reference objects of the left one (each at most once)"""
    names = Names()
    ek = rng.choice(['i', 'i', 'i', 's', 'f', 'A', 'L', 'T', 'T', 'R'])
    n = rng.randrange(2, 7)
    left, content, who, tainted = shared_tuple(rng, names, ek, n, inner_dup=True)
    first_rep = next(i for i in range(n) if who[i] in who[:i])          # the first slot that repeats an earlier object
    right = list(content); r = rng.random()
    if r < 0.22: pass                                                    # equal content
    elif r < 0.40: right = right[:rng.randrange(0, n)]                   # shorter
    elif r < 0.58: right = right + [small_elem(rng, ek) for _ in range(rng.randrange(1, 3))]   # longer
    else:
        q = rng.random()
        if q < 0.6 and first_rep + 1 < n: i = rng.randrange(first_rep + 1, n)    # differs after the repeated slot
        elif q < 0.8: i = first_rep
        else: i = rng.randrange(0, n)
        right[i] = small_elem(rng, ek)
        if rng.random() < 0.25: right = right[:i + 1]
        elif rng.random() < 0.2: right = right + [small_elem(rng, ek)]
    rk = 'T' if ek in ('T', 'R') else rng.choice('TAL')
    if rk == 'T' and rng.random() < 0.4:
        used = set()
        for i in range(min(len(right), n)):
            if right[i] == content[i] and who[i] not in used and who[i] not in tainted and rng.random() < 0.5:
                right[i] = f'*{who[i]}'; used.add(who[i])               # the same object, once, in the right operand too
    return f'lcmp {left} {seq_term(rk, right)}'

def same_value(t1, t2):
    """do two element terms of one kind denote equal values? (terms are canonical except for the two zeros of Float)"""
    if t1 == t2: return True
    zeros = ('f0000000000000000', 'f8000000000000000')
    return t1 in zeros and t2 in zeros

def alias_right_clean_case(rng):
    """lcmp <fresh sequence> <Tuple with a repeated object>, decided BEFORE the walk along the right operand leaves the second
    occurrence (`Obj.walkClean`): the left operand is a prefix of the content that ends at or before the first repeated slot
    p (or right after it, when the right operand has further slots), or differs from the content at a position <= p.
    Optionally one level down: both operands wrapped in Arrays / Lists / Tree values, after equal or before differing siblings."""
    names = Names()
    ek = rng.choice(['i', 'i', 'i', 's', 'f', 'A', 'L', 'T'])
    n = rng.randrange(2, 7)
    right, content, who, _ = shared_tuple(rng, names, ek, n)
    p = next(i for i in range(n) if who[i] in who[:i])                  # the first slot that repeats an earlier object
    r = rng.random()
    if r < 0.35: left = content[:rng.randrange(0, p + 1)]                # ends before slot p is compared / at slot p
    elif r < 0.5 and p + 1 < n: left = content[:p + 1]                   # ends right after the step from slot p; obj goes on
    else:
        i = rng.randrange(0, p + 1)
        for _ in range(20):
            e = small_elem(rng, ek)
            if not same_value(e, content[i]): break
        else: return f'lcmp {seq_term("T", [])} {right}'
        left = content[:i] + [e] + content[i + 1:]
        q = rng.random()
        if q < 0.3: left = left[:i + 1]
        elif q < 0.5: left = left + [small_elem(rng, ek)]
    lk = 'T' if ek == 'T' else rng.choice('TTAL')
    lt = seq_term(lk, left)
    if rng.random() < 0.3:
        sk = 'i'
        sib = [seq_term('T', [small_elem(rng, sk) for _ in range(rng.randrange(0, 3))]) for _ in range(rng.randrange(0, 3))]
        pos = rng.randrange(0, len(sib) + 1)
        if lk != 'T': lt = seq_term('T', left)                           # element type Tuple on both sides
        if rng.random() < 0.7:
            return f'lcmp {seq_term(rng.choice("ALT"), sib[:pos] + [lt] + sib[pos:])} {seq_term(rng.choice("AL"), sib[:pos] + [right] + sib[pos:])}'
        keys = rng.sample([0, 1, 2, 3, 1 << 32], len(sib) + 1)
        return (f'lcmp {tree_term(list(zip(map(ti, keys), sib[:pos] + [lt] + sib[pos:])))} '
                f'{tree_term(list(zip(map(ti, keys), sib[:pos] + [right] + sib[pos:])))}')
    return f'lcmp {lt} {right}'

def alias_nested_case(rng):
    """the Tuple with a repeated object one level down in the left operand; or the same inner Tuple in two slots"""
    names = Names()
    inner, content, _, _ = shared_tuple(rng, names, rng.choice('iis'), rng.randrange(2, 5))
    tail = [small_elem(rng, 'i') for _ in range(rng.randrange(0, 3))]
    rin = list(content)
    if rng.random() < 0.5 and rin: rin[rng.randrange(len(rin))] = small_elem(rng, 'i' if content[0][0] == 'i' else 's')
    rtail = list(tail)
    if rng.random() < 0.3 and rtail: rtail[-1] = small_elem(rng, 'i')
    if rng.random() < 0.45:
        # the Tuple with a repeated object as an ELEMENT of an Array / List or a VALUE of a Tree in the LEFT operand: the
        # container's copy of it (Tuple_Assign copies the item pointers) references the object twice as well
        ek = 'i' if content[0][0] == 'i' else 's'
        more = [seq_term('T', [small_elem(rng, ek) for _ in range(rng.randrange(0, 3))]) for _ in range(rng.randrange(0, 3))]
        rmore = list(more)
        if rng.random() < 0.3 and rmore: rmore[-1] = seq_term('T', [small_elem(rng, ek)])
        pos = rng.randrange(0, len(more) + 1)
        if rng.random() < 0.7:
            left = seq_term(rng.choice('AL'), more[:pos] + [inner] + more[pos:])
            right = seq_term(rng.choice('ALT'), rmore[:pos] + [seq_term('T', rin)] + rmore[pos:])
        else:
            keys = rng.sample([0, 1, 2, 3, 1 << 32], len(more) + 1)
            left = tree_term(list(zip(map(ti, keys), more[:pos] + [inner] + more[pos:])))
            right = tree_term(list(zip(map(ti, keys), rmore[:pos] + [seq_term('T', rin)] + rmore[pos:])))
        return f'lcmp {left} {right}'
    if rng.random() < 0.5:
        left = seq_term('T', [inner] + tail); right = seq_term('T', [seq_term(rng.choice('TAL'), rin)] + rtail)
    else:
        # the outer Tuple holds the inner one twice: every element of both operands is a sequence (an identity walk may
        # bring any of them against any other)
        k = names.new()
        tail = [seq_term('T', [t]) for t in tail]; rtail = [seq_term(rng.choice('TAL'), [t]) for t in rtail]
        left = seq_term('T', [f'&{k} {inner}', f'*{k}'] + tail)
        right = seq_term('T', [seq_term(rng.choice('TAL'), list(content)), seq_term(rng.choice('TAL'), rin)] + rtail)
    return f'lcmp {left} {right}'

def alias_self_case(rng, B):
    """cmp(x, x) for every kind; x never holds a Tuple with a repeated object"""
    r = rng.random()
    if r < 0.3: x = rand_scalar(rng, rng.choice('ifst'), B)
    elif r < 0.4: tid, b = rand_plain(rng); return f'cmp &1 p{tid}:{b.hex()} *1'
    elif r < 0.6: x = rand_seq_pair(rng, B, 1)[0]
    elif r < 0.8: x = rand_tuple_pair(rng, B, 1)[0]
    else: x = rand_tree_pair(rng, B, 1)[0]
    if rng.random() < 0.2: return f'tri &1 {x} *1 *1'
    return f'cmp &1 {x} *1'

def alias_between_case(rng):
    """two (or three) Tuples / Arrays / Lists built over a common pool of objects, none holding an object twice"""
    names = Names()
    ek = rng.choice(['i', 'i', 's', 'f', 'A', 'T'])
    pool = [(names.new(), small_elem(rng, ek)) for _ in range(rng.randrange(1, 5))]
    defined = set()
    def operand():
        k = 'T' if ek == 'T' else rng.choice('TTAL')
        n = rng.randrange(0, 5); used = set(); out = []
        for _ in range(n):
            nm, term = rng.choice(pool)
            if rng.random() < 0.7 and (k != 'T' or nm not in used):
                used.add(nm)
                if nm in defined: out.append(f'*{nm}')
                else: defined.add(nm); out.append(f'&{nm} {term}')
            else: out.append(small_elem(rng, ek))
        return seq_term(k, out)
    if rng.random() < 0.7: return f'cmp {operand()} {operand()}'
    return f'tri {operand()} {operand()} {operand()}'

def alias_lines(rng, B, n):
    out = []
    for _ in range(n):
        r = rng.random()
        if r < 0.45: out.append(alias_left_case(rng))
        elif r < 0.60: out.append(alias_right_clean_case(rng))
        elif r < 0.74: out.append(alias_nested_case(rng))
        elif r < 0.87: out.append(alias_between_case(rng))
        else: out.append(alias_self_case(rng, B))
    return [with_class(rng, l) for l in out]

def with_class(rng, line):
    """the allocation class of the operand objects: `cmp` = new_raw, `cmp.n` = new_root (collector-managed), `cmp.s` = stack class"""
    r = rng.random()
    if r < 0.72: return line
    op, rest = line.split(' ', 1)
    if op not in ('cmp', 'lcmp', 'tri'): return line
    return f'{op}.{"n" if r < 0.86 else "s"} {rest}'

def chunks(prefix, lines, size):
    return [Case(f'{prefix}{i // size}', lines[i:i + size]) for i in range(0, len(lines), size)]

class C09(Spec):
    id = 'C09'; engine = 'cmp'; harness = 'h_cmp'; driver = 'drv_cmp'
    generators = ('Cmp', 'CmpLoops')
    harness_timeout = 600
    technique = ('Lean 4 proof: Int_Cmp / Float_Cmp / eq..le translated from the C source on every run (C-expression to BitVec translator); String_Cmp / Type_Cmp / cmp of Cmp.c translated by the same statement grammar over objects (programs over abstract strcmp / memcmp / instance / type_of / size), theorems for every libc meeting ISO C\'s sign specification; '
                 'theorems over all 2^128 pairs via toInt+omega; lexicographic lifting of any lawful comparison by induction; '
                 'object graphs with identity for Tuples (one object in several slots / in both operands / as both operands) under the traversal discipline '
                 'read off the loop texts on every run; differential check of the model against the real cmp on boundary grids, random pairs and triples, '
                 'aliasing corpora, plus a direct content-based reference order in C (forked child + watchdog for calls that may not return)')
    level_text = ('Theorems (Lean 4, no sorry): C09_int — the sign of Int_Cmp as TRANSLATED from src/Num.c on every run equals the order of the two 64-bit integers for all '
                  '2^128 pairs (toInt + omega), hence C09_int_lawful: antisymmetric, transitive, reflexive, 0 only for equal values; C09_bytes — strcmp/memcmp sign is the '
                  'lexicographic order of unsigned bytes, lawful and strict; C09_lex / C09_lex_eq / C09_lex_shape / C09_tree — any lawful element comparison lifts to '
                  'Array/List/Tuple and to Tree entries (key then value), 0 exactly on elementwise-equal sequences, independent of container kind (C09_lex_content); '
                  'C09_string_cmp_source / C09_type_cmp_source — String_Cmp / Type_Cmp as TRANSLATED from src/String.c / src/Type.c on every run (programs over an abstract strcmp) are, for EVERY libc whose strcmp meets ISO C 7.24.4 (sign of the first differing pair of unsigned bytes, any magnitude: StrcmpSpec, met by the -1/0/1 libc and by the byte-difference libc), a lawful strict order on NUL-free strings, negative exactly for a < b bytewise, 0 only for equal strings; Type_Cmp casts obj to Type first; C09_signed_char_strcmp_refuted — a strcmp reading char as signed violates the spec and puts 0xff below 0x01; '
                  'C09_cmp_dispatch_source — `cmp` of src/Cmp.c as TRANSLATED (program over instance / type_of / size / memcmp), for any object system: instance call, else memcmp over size(type_of(self)) for two objects of one type of non-zero size with the operands in order, else TypeError; C09_default_cmp_source — on the value universe that program with a plain struct as self IS cmpTop (byte-wise order under any memcmp meeting ISO C: MemcmpSpec), every other self goes to its instance; '
                  'C09_preds — eq neq gt lt ge le as TRANSLATED from src/Cmp.c are exactly =0 ≠0 >0 <0 ≥0 ≤0 of cmp, for every comparison function; '
                  'C09_float_bits_order — the VALUE of a binary64 bit pattern by the IEEE formula over (sign, exponent, mantissa) orders all 2^128 pairs exactly as the sign-magnitude reading of the bits, equal values = same pattern or both zeros; '
                  'C09_float_difference_sign — under any rounding that is monotone, NaN-free and exact on 0 and ±2^-1074 the rounded exact difference of two doubles has the sign of the exact difference and is 0 only for equal values; '
                  'C09_float — Float_Cmp as TRANSLATED, run on IEEE subtraction (exact difference rounded; inf-inf = NaN) is the numeric order of all non-NaN doubles (signed zeros equal, denormals distinct, infinities extreme and equal to themselves), lawful, 0 exactly on equal values; '
                  'hypothesis Rounding met by roundTowardZero (rounding_trunc) and by the sign-only rounding the driver runs; C09_float_under_SubSign_partial — the same for abstract operations under SubSign (kept conditional; C09_float_machine_statement is the unproved statement about the hardware); '
                  'C09_val / C09_val_float_free / C09_val_tuple — cmp on every well-kinded nested value (any depth; Kind.cons / Kind.tup = a kind per slot: heterogeneous Tuples) is a lawful order, 0 exactly on equal content, unconditionally when no Float occurs; '
                  'C09_tree_order / C09_tree_finds_every_key — a Tree built under a lawful cmp iterates strictly descending and holds every key set; '
                  'C09_int_truncating_refuted — the pre-fix subtract-and-truncate Int_Cmp returns 0 on (0, 2^32) and is not antisymmetric; C09_loops_as_modelled — the C loop '
                  'and iterator-step texts equal the texts the model mirrors; C09_discipline_as_modelled — Array_Cmp/List_Cmp advance along self through their iterators, Tuple_Cmp by slot index '
                  '(read off the source on every run). ALIASING (objects with identity, objCmpF): C09_tuple_walk_content_partial — under the source discipline cmp(self, obj) ends within '
                  'size(self) steps and equals the comparison of the CONTENTS for every self (any object in any number of Tuple slots at any depth, shared with obj, or self = obj), '
                  'provided the walk is CLEAN (Obj.walkClean ops self, decidable: the walk never steps from a slot of a Tuple inside obj — also inside an element of an Array / List or a value of a Tree, Obj.cont / Obj.tree — whose object already sits in an earlier slot, except for the step after which self has ended and obj has not; '
                  'the comparisons decided before that are proved although obj holds an object twice: C09_walk_clean_beyond_nodup with the audit\'s C outputs); C09_walk_clean_of_nodup / C09_tuple_walk_content_nodup — the earlier hypothesis `no Tuple inside obj holds an object twice` is a special case; '
                  'C09_obj — hence a lawful order, 0 exactly on equal content, on objects without a repeated object; C09_obj_pair_clean — antisymmetry and 0 iff equal content for any two objects that are clean against each other; '
                  'C09_tuple_walk_content_refuted — known finding KF-C09-tuple-dup-obj: a Tuple holding an object twice as the RIGHT operand is walked by identity (Tuple_Iter_Next): '
                  'cmp(x,x)=1, cmp(x,arr)=0 but cmp(arr,x)=1; the same through new(Array, Tuple, x), new(List, Tuple, x), new(Tree, Int, Tuple, k, x); C09_tuple_identity_walk_refuted — the variant of Tuple_Cmp that walks self through Tuple_Iter_Next is not an order: '
                  '-1 against an Array of equal content, +1 against a longer List, and cmp(x,x) has no value for any fuel (never terminates). '
                  'The model is tied to the real functions by running boundary grids, random pairs/triples and the aliasing corpora on both, '
                  'and the real results are checked against an independent content-based reference order in C.')
    level_note = ('Float: proved for IEEE-754 subtraction as the standard defines it on bit patterns (decode by the formula, exact difference, any monotone NaN-free rounding that keeps 0 and ±2^-1074); '
                  'that the HARDWARE subtracts like that (x86-64 SSE, no flush-to-zero) is trusted and tested on the grid (denormals, signed zeros, infinities, extremes, random bits): the driver runs the bit-level model, the harness the machine. '
                  'Trusted: Lean kernel; the C-expression translator translate/g_cmp.py (machine integer semantics of `-`, casts, signed `<`); '
                  'libc strcmp/memcmp return the sign of the first differing unsigned byte (C standard; now an explicit hypothesis StrcmpSpec / MemcmpSpec of the theorems about the translated String_Cmp / Type_Cmp / cmp; that the libc in use meets it is tested); harness/driver comparison is testing. '
                  'Partial for aliasing: proved for every self and every obj on which the walk never leaves a repeated slot of a Tuple in obj (walkClean: exactly where Tuple_Iter_Next cannot misplace the cursor, plus the harmless last step); the rest is the known finding (refuted theorem). '
                  'Not covered: comparisons between values of different kinds (Int with Float, …: c_int/c_float conversions), NaN, Table_Cmp (C10), '
                  'Thread/Range/Slice/Ref/Box/File comparisons, strings with embedded NUL.')
    rule = ('ops: `cmp A B` (sign both ways + six predicates), `tri A B C` (six signs), `keys …` (Tree + Table keyed on the values), `sort …`. '
            'Suffix `.n` / `.s` on cmp / lcmp / tri = allocation class of the operand objects in the harness (new_root = collector-managed; stack class = headers of $I / $S / $F / tuple(…) objects; default new_raw). '
            'Array / List elements and Tree values may be Tuples (element type Tuple: the copy references the source\'s objects), heterogeneous slot by slot, shared between the operands; Array / List elements may be plain structs of one type of non-zero size; Tuple slots may be plain structs and Type objects (one object per Type: distinct names within a generated Tuple). '
            'A repeated object in the LEFT operand anywhere; in the RIGHT operand where the walk is clean (decided at or before the first repeated slot, or self ends right after it). '
            'Values: full boundary grids for Int (±2^e±{0,1,2}, e up to 63), Float bits (signed zeros, denormals, 1±ulp, 2^53 neighbours, DBL_MAX, infinities), '
            'strings (prefixes, bytes 0x01/0x7f/0x80/0xff), all built-in type names, plain structs of 0/4/16 bytes (two distinct 4-byte types); '
            'random pairs and triples biased to boundaries and to related values; Array/List/Tuple of scalars and of containers with related contents '
            '(equal, prefix, extension, one element changed) in every combination of container kinds; Trees with permuted insertion order, changed key / value, '
            'repeated key. Aliasing (`&k term` names an object, `*k` is that object again; `lcmp A B` = one direction): a Tuple over fewer objects than slots '
            '(adjacent / scattered / triple repeats, scalars, Arrays, Lists, Trees and Tuples — themselves with repeats — as the shared object) as the LEFT operand against '
            'Tuple/Array/List of equal content, shorter, longer, differing before / at / after the repeated slot, optionally referencing the left operand\'s objects; '
            'the repeat one level down and the same inner Tuple in two slots; operands built over a common pool of objects; cmp(x, x) and tri(x, x, x) for every kind; '
            'long (300/1500) Tuples over three objects. Comparisons whose operands hold a Tuple with a repeated object, and all comparisons after a first oracle failure, '
            'run in a forked child with 300 ms of CPU time per call (`H` when it is used up); the rest under a CPU-time watchdog (sig=cmp-hang). '
            'Driver `S` lines: every top-level comparison of two Strings, two Types or with a plain struct as self is also run through the TRANSLATED String_Cmp / Type_Cmp / cmp programs and must agree with the hand model (statistics src_string / src_type / src_memcmp / src_typeerror = arms reached). '
            'non-trivial = the observation shows a non-zero sign, an exception, or a keys/sort op over at least 2 values; distinct = distinct op text.')
    trusted_base = ('translate/g_cmp.py (C expression fragment -> BitVec 64/32 semantics; regex extraction of function bodies; by-index / by-iterator read off the loop text)',
                    'harness/h_cmp.c + lean/Driver/Cmp.lean (correspondence is testing)',
                    'libc strcmp/memcmp sign convention; the hardware implements IEEE-754 binary64 subtraction and < (correctly rounded in some rounding direction, gradual underflow) — tested')
    assumptions = ('both operands of one kind at every level (Int/Int, Float/Float, String/String, Type/Type, sequence/sequence, Tree/Tree, plain struct/plain struct)',
                   'no NaN; strings without embedded NUL; Array/List elements of one element type (scalars, Arrays, Lists, Tuples, one plain struct type of non-zero size); Tree keys scalar, values scalar or Tuples; no size-0 struct and no two different struct types inside one comparison of containers (the loop\'s cmp raises TypeError)',
                   'a Tuple that references one object from two slots is generated inside the LEFT operand anywhere (at top level, as a slot of a Tuple, as an element of an Array / List, as a value of a Tree) and inside the RIGHT operand only where the walk is clean '
                   '(the comparison is decided before the walk leaves the second occurrence): beyond that the right operand is walked by identity (known finding KF-C09-tuple-dup-obj, root cause F13; witness corpus/kf_c09_tuple_dup.ops, model agrees line by line); '
                   'the harness computes the territory itself (walk_clean) and labels only failures inside it as the known finding; the same Type twice in a generated Tuple is avoided (one object per Type)',
                   'where a Tuple holds an object twice, all elements of the two sequences compared are of one kind (an identity walk may bring any of them against any other); no object contains itself',
                   'x86-64 SSE double arithmetic (no x87 excess precision, no flush-to-zero)')

    def cases(self, rng, tier, boost=1):
        """boost > 1 = the intensified search of rule 6 (a tie broke, no failing input yet): the deterministic grids, the long
        sequences and the ill-formed ops are unchanged in kind and are not repeated; scalars get fresh seeds at half the
        base volume; the volume goes to containers and, first of all, to aliasing — the three rounds together cost about 3x one run."""
        quick = tier == 'quick'
        intens = boost > 1
        B = int_boundaries()
        cs = []
        # ---- aliasing first: one object in several Tuple slots (left operand), in both operands, as both operands
        n_al = 2400 if quick else 40000           # (forked comparisons: the same volume per round, fresh seeds)
        cs += chunks('alias', alias_lines(rng, B, n_al), 300)
        if not intens:
            # ---- full boundary grids
            lines = [f'cmp {ti(a)} {ti(b)}' for a in B for b in B]
            cs += chunks('grid_int', lines, 4000)
            lines = [f'cmp {tf(a)} {tf(b)}' for a in FLT_B for b in FLT_B]
            cs += chunks('grid_flt', lines, 4000)
            lines = [f'cmp {ts(a)} {ts(b)}' for a in STR_B for b in STR_B]
            lines += [f'cmp {tt(a)} {tt(b)}' for a in TYPE_NAMES for b in TYPE_NAMES]
            cs += chunks('grid_str_type', lines, 4000)
        cboost = boost                            # containers
        boost = 1 if intens else boost            # scalars, keys, sort: fresh seeds, half the base volume
        half = 2 if intens else 1
        # boundary triples (sampled) -----------------------------------------------------------------------------------
        n_tri = (8000 if quick else 200000) * boost // half
        lines = []
        for _ in range(n_tri):
            k = rng.choice('iiifffsst')
            if k == 'i': vals = [ti(rng.choice(B)) for _ in range(3)]
            elif k == 'f': vals = [tf(rng.choice(FLT_B)) for _ in range(3)]
            elif k == 's': vals = [ts(rng.choice(STR_B)) for _ in range(3)]
            else: vals = [tt(rng.choice(TYPE_NAMES)) for _ in range(3)]
            lines.append('tri ' + ' '.join(vals))
        cs += chunks('tri_boundary', lines, 3000)
        # ---- random scalar pairs and triples
        n_pairs = (100000 if quick else 2500000) * boost // half
        lines = []
        for _ in range(n_pairs):
            k = rng.choice('iiiifffsst')
            a = rand_scalar(rng, k, B)
            r = rng.random()
            if r < 0.1: b = a
            elif k == 'i' and r < 0.4:
                # differences that do not fit 32 / 64 bits, or are multiples of 2^32
                av = int(a[1:]); d = rng.choice([1 << 32, -(1 << 32), 1 << 31, (1 << 63) - 1, -(1 << 63), (1 << 32) * rng.randrange(1, 1 << 20), 1 << 33])
                b = ti(max(I64_MIN, min(I64_MAX, av + d)))
            elif k == 's' and r < 0.4:
                ab = bytes.fromhex(a[1:]); b = ts(ab + bytes([rng.choice([1, 0x7f, 0x80, 0xff])]) if rng.random() < 0.5 else ab[:-1])
            elif k == 'f' and r < 0.4:
                ab = int(a[1:], 16); mag = ab & ((1 << 63) - 1)
                mag2 = max(0, min(0x7ff0000000000000, mag + rng.choice([-1, 1, 2, -2, 1 << 52])))
                b = tf(mag2 | (ab & (1 << 63)) if rng.random() < 0.7 else mag2 | ((ab ^ (1 << 63)) & (1 << 63)))
            else: b = rand_scalar(rng, k, B)
            lines.append(f'cmp {a} {b}')
        cs += chunks('rand_pairs', lines, 5000)
        n_tr = (30000 if quick else 800000) * boost // half
        lines = []
        for _ in range(n_tr):
            k = rng.choice('iiifffsst')
            vals = [rand_scalar(rng, k, B) for _ in range(3)]
            if rng.random() < 0.3: vals[rng.randrange(3)] = vals[rng.randrange(3)]
            lines.append('tri ' + ' '.join(vals))
        cs += chunks('rand_tri', lines, 4000)
        # ---- containers
        n_c = (40000 if quick else 800000) * ((1 if cboost <= 4 else 2) if intens else boost)
        lines = []
        for _ in range(n_c):
            r = rng.random()
            if r < 0.45:
                if rng.random() < 0.7: a, b = rand_seq_pair(rng, B); lines.append(f'cmp {a} {b}')
                else: a, b, c = rand_seq_pair(rng, B, 3); lines.append(f'tri {a} {b} {c}')
            elif r < 0.62:
                if rng.random() < 0.7: a, b = rand_tuple_pair(rng, B); lines.append(f'cmp {a} {b}')
                else: a, b, c = rand_tuple_pair(rng, B, 3); lines.append(f'tri {a} {b} {c}')
            elif r < 0.70:
                if rng.random() < 0.7: a, b = rand_cont_tuple_pair(rng, B); lines.append(f'cmp {a} {b}')
                else: a, b, c = rand_cont_tuple_pair(rng, B, 3); lines.append(f'tri {a} {b} {c}')
            elif r < 0.9:
                if rng.random() < 0.7: a, b = rand_tree_pair(rng, B); lines.append(f'cmp {a} {b}')
                else: a, b, c = rand_tree_pair(rng, B, 3); lines.append(f'tri {a} {b} {c}')
            else:
                ta, ba = rand_plain(rng)
                if rng.random() < 0.75:
                    tb, bb = rand_plain(rng, ta)
                    if rng.random() < 0.5 and ba:
                        i = rng.randrange(len(ba)); bb = ba[:i] + bytes([rng.choice([0, 1, 0x7f, 0x80, 0xff])]) + ba[i + 1:]
                else: tb, bb = rand_plain(rng)
                lines.append(f'cmp p{ta}:{ba.hex()} p{tb}:{bb.hex()}')
        cs += chunks('containers', [with_class(rng, l) for l in lines], 3000)
        # ---- Tree / Table keyed on boundary values, sort
        n_k = (1500 if quick else 30000) * boost // half
        lines = []
        # every boundary key in one Tree/Table
        lines.append('keys ' + ' '.join(ti(v) for v in B))
        lines.append('keys ' + ' '.join(tf(v) for v in FLT_B))
        lines.append('keys ' + ' '.join(ts(v) for v in STR_B))
        lines.append('sort ' + ' '.join(ti(v) for v in reversed(B)))
        lines.append('sort ' + ' '.join(tf(v) for v in reversed(FLT_B)))
        lines.append('sort ' + ' '.join(ts(v) for v in reversed(STR_B)))
        for _ in range(n_k):
            k = rng.choice('iiffs')
            n = rng.randrange(1, 40 if quick else 120)
            if k == 'i':
                pool = rng.sample(B, min(len(B), rng.randrange(2, 30)))
                vals = [ti(rng.choice(pool) if rng.random() < 0.7 else rand_int(rng, B)) for _ in range(n)]
            elif k == 'f':
                pool = rng.sample(FLT_B, rng.randrange(2, 30))
                vals = [tf(rng.choice(pool) if rng.random() < 0.7 else rand_float_bits(rng)) for _ in range(n)]
            else:
                vals = [ts(rand_str(rng)) for _ in range(n)]
            lines.append(('keys ' if rng.random() < 0.6 else 'sort ') + ' '.join(vals))
        cs += chunks('keys_sort', lines, 400)
        if intens: return cs
        # ---- long sequences / strings that differ only at the very end (or are proper prefixes), every container combination
        lines = []
        for n in ([300, 1500] if quick else [300, 1500, 4000]):
            base = [ti(rng.choice(B)) for _ in range(n)]
            for ka in 'ALT':
                for kb in 'ALT':
                    var = list(base); r = rng.random()
                    if r < 0.4: var[-1] = ti(rng.choice(B))
                    elif r < 0.7: var = var[:-1]
                    lines.append(f'cmp {seq_term(ka, base)} {seq_term(kb, var)}')
            # a long Tuple over three objects (left operand) against the same content in fresh objects
            objs = [ti(rng.choice(B)) for _ in range(3)]; pat = [rng.randrange(3) for _ in range(n)]
            seen = set(); slots = []
            for j in pat:
                slots.append(f'*{j + 1}' if j in seen else f'&{j + 1} {objs[j]}'); seen.add(j)
            cont = [objs[j] for j in pat]
            for kb in 'ALT':
                var = list(cont); r = rng.random()
                if r < 0.4: var[-1] = ti(rng.choice(B))
                elif r < 0.7: var = var[:-1]
                lines.append(f'lcmp {seq_term("T", slots)} {seq_term(kb, var)}')
            s1 = bytes(rng.choice([0x61, 0xff, 0x80]) for _ in range(n)); s2 = s1[:-1] + bytes([rng.choice([1, 0x7f, 0xff])])
            lines += [f'cmp {ts(s1)} {ts(s2)}', f'cmp {ts(s1)} {ts(s1[:-1])}', f'cmp {ts(s1)} {ts(s1)}']
        cs += chunks('long', lines, 15)
        # ---- a few ill-formed ops (both sides must refuse them identically)
        bad = ['cmp i1', 'cmp i1 s61', 'cmp f7ff8000000000000 f0000000000000000', 'cmp i9223372036854775808 i0', 'cmp s6100 s61',
               'cmp A2 i1 s61 A0', 'cmp A1 i1 R0', 'cmp tNoSuchType tInt', 'tri i1 i2', 'keys i1 s61', 'sort', 'cmp T1 p1:00000000 T0',
               'cmp R1 A0 i1 R0', 'cmp p1:000000 p1:00000000', 'cmp p4: p4:', 'frob i1 i2', 'cmp i-9223372036854775809 i0', 'cmp A1 i1 A1 s61',
               'cmp L1 tInt L0', 'cmp i+1 i1', 'cmp i i1', 'cmp A01 i1 A1 i1', 'cmp A i1', 'cmp A00000000000000000001 i1 A1 i1',
               'cmp R2 i1 i1 s61 i2 R0', 'cmp R1 i1 A0 R0', 'cmp A1_0 i1 A0', 'cmp A4097 A0', 'cmp fFFF0000000000000 f0000000000000000', 'lcmp T0 T2 tInt tInt',
               'keys f7ff8000000000001', 'cmp s6 s61', 'cmp p1:0102030 p1:01020304',
               'cmp *1 i1', 'cmp &1 i1 &1 i2', 'cmp &1 T1 *1 i1', 'cmp &64 i1 *64', 'cmp &1 i1', 'cmp & i1 i2', 'lcmp i1', 'lcmp T1 *1 &1 i1',
               'cmp &001 i1 *1', 'cmp &1 i1 *01', 'keys.n i1 i2', 'cmp.x i1 i2', 'cmp. i1 i2', 'cmp.ns i1 i2', 'cmp A1 p0: A1 p0:', 'cmp T1 p1:00000000 T1 p2:00000000', 'cmp A2 p1:00000000 p2:00000000 A0', 'lcmp &1 T2 &1 i1 i2 i3', 'cmp &-1 i1 i2', 'tri &1 i1 *1', 'cmp &1 A1 *1 *1']
        cs.append(Case('illformed', bad))
        return cs

    def nontrivial_items(self, case, c_out, m_out):
        ops = [l for l in case.lines if l and not l.lstrip().startswith('#') and l.strip()]
        obs = core.lines_with('O ', c_out)
        out = set()
        for op, o in zip(ops, obs):
            if o.startswith('O cmp s=') and not o.startswith('O cmp s=0'): out.add(hash(op))
            elif o.startswith('O lcmp s=') and not o.startswith('O lcmp s=0'): out.add(hash(op))
            elif o.startswith('O cmp exc=') or o.startswith('O lcmp exc='): out.add(hash(op))
            elif o.startswith('O tri') and ('=1' in o or '=-1' in o): out.add(hash(op))
            elif (o.startswith('O keys n=') or o.startswith('O sort ')) and op.count(' ') >= 2: out.add(hash(op))
        return out

    def stats(self, case, c_out, m_out, acc):
        ops = [l for l in case.lines if l and not l.lstrip().startswith('#') and l.strip()]
        obs = core.lines_with('O ', c_out)
        for op, o in zip(ops, obs):
            w = op.split(' ')
            key = w[0].split('.')[0] + '_' + (w[1][0] if len(w) > 1 and w[1] else '?')
            if '.' in w[0]: acc['class_' + w[0].split('.')[1]] = acc.get('class_' + w[0].split('.')[1], 0) + 1
            if '*' in op: acc['ops_with_shared_object'] = acc.get('ops_with_shared_object', 0) + 1
            acc[key] = acc.get(key, 0) + 1
            if o.startswith('O cmp s='):
                s = o.split('s=')[1].split()[0]; acc['sign_' + s] = acc.get('sign_' + s, 0) + 1
            elif o.startswith('O cmp exc='): acc['raised'] = acc.get('raised', 0) + 1
            elif o == 'O bad-op': acc['bad_op'] = acc.get('bad_op', 0) + 1
        for l in core.lines_with('S cmp via=', m_out):      # arms of the translated programs the driver went through
            k = 'src_' + l.split('via=')[1].split()[0]; acc[k] = acc.get(k, 0) + 1
        for l in core.lines_with('I ', c_out):
            for kv in l[2:].split():
                if '=' in kv:
                    k, v = kv.split('=', 1)
                    if v.isdigit() and k in ('cmp_calls', 'aliased', 'forked', 'hangs', 'known'): acc[k] = acc.get(k, 0) + int(v)

    def model_selfcheck(self, case, m_out):
        ls = m_out.split('\n')
        for l in ls:
            # the programs translated from String_Cmp / Type_Cmp / `cmp` of Cmp.c against the hand model (Driver `secondOpinion`)
            if l.startswith('S cmp ') and not l.endswith(' ok=1'): return f'translated source program vs hand model: `{l}`'
        for i in range(len(ls) - 1):
            if ls[i].startswith('O cmp s=') and ls[i + 1].startswith('R cmp '):
                o = ls[i][2:].split(); r = ls[i + 1][2:].split()
                if o[1:3] != r[1:3]: return f'model `{ls[i]}` vs reference order `{ls[i + 1]}`'
            if ls[i].startswith('O lcmp s=') and ls[i + 1].startswith('R lcmp '):
                if ls[i][2:].split()[1] != ls[i + 1][2:].split()[1]: return f'model `{ls[i]}` vs reference order `{ls[i + 1]}`'
            if ls[i].startswith('O tri ab=') and ls[i + 1].startswith('R tri '):
                if ls[i][2:] != ls[i + 1][2:]: return f'model `{ls[i]}` vs reference order `{ls[i + 1]}`'
        return None

SPEC = C09()
