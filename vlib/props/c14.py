"""C14 — print formatting equals C formatting, on every sink, with exact positions (engine fmt)."""
import ctypes, struct, itertools, locale
from ..runner import Spec, Case
from .. import core

_libc = ctypes.CDLL(None)
_buf = ctypes.create_string_buffer(1 << 16)

def libc_print(frag, kind, value):
    """what libc prints for one format_to call, given exactly what print_to_with passes through the varargs
    (an int64_t for every integer conversion and %c, a double, a char*); None when libc REJECTS the call (negative result).
    The harness never calls setlocale, so it runs in the "C" locale; Python does call it at start-up, hence the switch for %lc."""
    wide = frag.endswith(b'lc')
    if wide:
        saved = locale.setlocale(locale.LC_CTYPE); locale.setlocale(locale.LC_CTYPE, 'C')
    try:
        if kind == 'i': n = _libc.snprintf(_buf, len(_buf), frag, ctypes.c_int64(value))
        elif kind == 'd': n = _libc.snprintf(_buf, len(_buf), frag, ctypes.c_double(struct.unpack('<d', struct.pack('<Q', value))[0]))
        elif kind == 's': n = _libc.snprintf(_buf, len(_buf), frag, ctypes.c_char_p(value))
        else: raise ValueError(kind)
    finally:
        if wide: locale.setlocale(locale.LC_CTYPE, saved)
    if n < 0: return None
    if n >= len(_buf): raise ValueError(f'output of {frag!r} too long for the generator')
    return _buf.raw[:n]

def hx(b): return b.hex() if b else '-'

INT_CONV = 'diuoxX'; FLT_CONV = 'fFeEgGaA'
INT_LENS = ['', 'hh', 'h', 'l', 'll', 'j', 'z', 't']; FLT_LENS = ['', 'l']
FLAGS = '-+ #0'

def need_of(conv):
    if conv in INT_CONV or conv == 'c': return 'i'
    if conv in FLT_CONV: return 'f'
    if conv == 's': return 's'
    return '*'

# ---- values ------------------------------------------------------------------------------------------------------
INT_EDGES = [0, 1, -1, 7, -7, 42, 127, 128, -128, -129, 255, 256, 32767, 32768, -32768, -32769, 65535, 65536,
             2**31 - 1, 2**31, -2**31, -2**31 - 1, 2**32 - 1, 2**32, 2**32 + 5, -2**32, 2**63 - 1, -2**63, -2**63 + 1, 10**18, -10**18]
FLT_EDGES = [0.0, -0.0, 1.0, -1.0, 0.5, 1.5, 2.5, 0.1, 1e-5, 9.999995, 123456.789, 1e15, 1e16, 1e22, 1e100, 1.7976931348623157e308,
             5e-324, 2.2250738585072014e-308, float('inf'), float('-inf'), float('nan'), 3.141592653589793, -2.718281828459045, 1e-7, 99999.5, 0.000123456]

def bits_of(d): return struct.unpack('<Q', struct.pack('<d', d))[0]

def gen_int(rng):
    r = rng.random()
    if r < 0.35: return rng.choice(INT_EDGES)
    if r < 0.55: return rng.randrange(-1000, 1000)
    if r < 0.75: return rng.randrange(-2**31, 2**31)
    return rng.randrange(-2**63, 2**63)

def gen_flt_bits(rng, tame=False):
    r = rng.random()
    if r < 0.4: return bits_of(rng.choice(FLT_EDGES[:16] if tame else FLT_EDGES))
    if r < 0.7: return bits_of(round(rng.uniform(-1000, 1000), rng.randrange(0, 6)))
    if r < 0.85 or tame: return bits_of(rng.uniform(-1e6, 1e6))
    return rng.getrandbits(64)

def gen_bytes(rng, lo=0, hi=12, no_pct=False):
    n = rng.randrange(lo, hi + 1)
    out = bytearray()
    for _ in range(n):
        r = rng.random()
        if r < 0.6: b = rng.randrange(32, 127)
        elif r < 0.8: b = rng.randrange(128, 256)
        else: b = rng.randrange(1, 32)
        if no_pct and b == 0x25: b = 0x26
        out.append(b)
    return bytes(out)

# ---- arguments: ('i', v) ('f', bits) ('s', bytes) ('A'|'U'|'L', [args]) ... ('Y', type name) ------------------------
def gen_scalar(rng, kind=None):
    kind = kind or rng.choice('ifs')
    if kind == 'i': return ('i', gen_int(rng))
    if kind == 'f': return ('f', gen_flt_bits(rng, tame=True))
    return ('s', gen_bytes(rng, 0, 10))

# keys that collide in small tables (Table_Primes 5, 11, 23, 53: residues repeat), negative keys (hash = (uint64_t)k), duplicates
KEY_POOL = [0, 1, 2, 3, 4, 5, 6, 10, 11, 12, 16, 22, 23, 24, 27, 46, 53, 55, 106, 115, 253, 1265, -1, -2, -5, -11, -23, 2**31, 2**32 + 1, -2**63, 2**63 - 1]

TYPE_NAMES = [b'Int', b'Float', b'String', b'Array', b'List', b'Tuple', b'Table', b'Tree', b'File', b'Range', b'Slice', b'Box', b'Ref', b'Type']

def gen_pairs(rng):
    n = rng.choice([0, 0, 1, 1, 2, 3, 4, 5, 6, 8, 12])
    vk = rng.choice('ifs')
    out = []
    for _ in range(n):
        key = rng.choice(KEY_POOL) if rng.random() < 0.7 else rng.randrange(-50, 50)
        out.append((('i', key), gen_scalar(rng, vk)))
    return out

def range_values(a, b, c):
    """the values Range iteration yields (Range_Iter_Init / Range_Iter_Next)"""
    out = []
    if c > 0:
        v = a
        while v < b: out.append(v); v += c
    elif c < 0:
        v = b - 1
        while v >= a: out.append(v); v += c
    return out

def gen_range(rng):
    a = rng.randrange(-6, 7); n = rng.randrange(0, 9); c = rng.choice([1, 1, 2, 3, -1, -2, -3, 0, 5])
    b = a + rng.randrange(-2, 3) + (n * abs(c) if c else n)
    if rng.random() < 0.1: a, b = 2**31 - 3, 2**31 + 2          # values beyond 32 bits (the OLD Range_Show, "%i", truncated them: fix 78c2117)
    return ('G', (a, b, c))

def gen_obj(rng, depth=2, wide=True):
    r = rng.random()
    if depth <= 0 or r < 0.30: return gen_scalar(rng)
    if r < 0.40:
        k = rng.choice('ifs'); return ('A', [gen_scalar(rng, k) for _ in range(rng.randrange(0, 5))])
    if r < 0.48:
        k = rng.choice('ifs'); return ('L', [gen_scalar(rng, k) for _ in range(rng.randrange(0, 5))])
    if r < 0.58 or not wide: return ('U', [gen_obj(rng, depth - 1) for _ in range(rng.randrange(0, 4))])
    if r < 0.68: return ('H', gen_pairs(rng))
    if r < 0.76: return ('R', gen_pairs(rng))
    if r < 0.82: return gen_range(rng)
    if r < 0.87:
        k = rng.choice('ifs'); return ('C', [gen_scalar(rng, k) for _ in range(rng.randrange(0, 5))])
    if r < 0.93: return ('X', gen_obj(rng, depth - 1) if rng.random() < 0.8 else None)
    if r < 0.95: return ('N', None)
    if r < 0.975: return ('Y', rng.choice(TYPE_NAMES))          # a Type object: Type_Show prints its name and returns the new position (fix 0046a69)
    return ('O', rng.choice([b'File', b'Ref', b'NoShow']))

def gen_type_obj(rng):
    """a Type object, bare or inside Tuples / Boxes (first, in the middle, last), so that text follows it at a position > 0"""
    y = ('Y', rng.choice(TYPE_NAMES))
    r = rng.random()
    if r < 0.4: return y
    if r < 0.55: return ('X', y)
    items = [gen_obj(rng, 1) for _ in range(rng.randrange(0, 3))]
    items.insert(rng.randrange(0, len(items) + 1), y)
    if rng.random() < 0.3: items.insert(rng.randrange(0, len(items) + 1), ('X', ('Y', rng.choice(TYPE_NAMES))))
    u = ('U', items)
    return u if r < 0.9 else ('X', u)

def arg_tokens(a):
    k, v = a
    if k == 'i': return ['i', str(v)]
    if k == 'f': return ['f', '%016x' % v]
    if k == 's': return ['s', hx(v)]
    if k in 'NZ': return [k, '0']
    if k in 'OY': return [k, hx(v)]
    if k == 'X': return ['X', '0'] if v is None else ['X', '1'] + arg_tokens(v)
    if k == 'G': return ['G', '3', 'i', str(v[0]), 'i', str(v[1]), 'i', str(v[2])]
    if k in 'HR':
        out = [k, str(len(v))]
        for kk, vv in v: out += arg_tokens(kk) + arg_tokens(vv)
        return out
    out = [k, str(len(v))]
    for c in v: out += arg_tokens(c)
    return out

def show_calls(a, acc):
    """the (fragment, kind, value) calls of show that need a table entry (literals, %p, %s of a type name and plain %c are built into the driver)"""
    k, v = a
    if k == 'i': acc.append((b'%li', 'i', v))
    elif k == 'f': acc.append((b'%f', 'd', v))
    elif k in 'AULC':
        for c in v: show_calls(c, acc)
    elif k in 'HR':
        for kk, vv in v: show_calls(kk, acc); show_calls(vv, acc)
    elif k == 'G':
        for x in range_values(*v): acc.append((b'%li', 'i', x))          # Range_Show prints each value like Int_Show (fix 78c2117)
    elif k == 'X' and v is not None: show_calls(v, acc)
    elif k in 'OY': acc.append((b'%s', 's', v))          # show_to's default arm prints the type's name with %s; so does Type_Show

# ---- formats: list of segments ('lit', bytes) | ('pct',) | ('spec', body str, conv char) -----------------------------
def gen_spec(rng, conv=None, rich=True):
    conv = conv or rng.choice('ddiuoxXxccssffFeEgGaAp$$$')
    flags = ''.join(rng.choice(FLAGS) for _ in range(rng.choice([0, 0, 0, 1, 1, 2, 3]))) if rich else ''
    width = rng.choice(['', '', '', str(rng.randrange(1, 24)), str(rng.randrange(1, 9)), str(rng.randrange(20, 70))]) if rich else ''
    prec = rng.choice(['', '', '', '.', '.0', '.' + str(rng.randrange(1, 12)), '.' + str(rng.randrange(10, 40))]) if rich else ''
    lm = rng.choice(INT_LENS) if conv in INT_CONV else rng.choice(FLT_LENS) if conv in FLT_CONV else ''
    if conv == '$' and rng.random() < 0.8: flags = width = prec = ''
    return ('spec', flags + width + prec + lm, conv)

def gen_arg_for(rng, conv):
    n = need_of(conv)
    if conv == 'c':
        v = gen_int(rng)
        if v % 256 == 0 and rng.random() < 0.9: v += rng.randrange(1, 256)
        return ('i', v)
    if n == 'i': return ('i', gen_int(rng))
    if n == 'f': return ('f', gen_flt_bits(rng))
    if n == 's': return ('s', gen_bytes(rng, 0, 14)) if rng.random() < 0.95 else ('Y', rng.choice(TYPE_NAMES))   # c_str of a Type object = its name
    if conv == 'p': return gen_scalar(rng) if rng.random() < 0.8 else rng.choice([('N', None), ('O', b'File'), ('X', None), ('Y', b'Int')])
    return gen_obj(rng, 2)

def merge_lits(segs):
    out = []
    for s in segs:
        if s[0] == 'lit' and not s[1]: continue
        if s[0] == 'lit' and out and out[-1][0] == 'lit': out[-1] = ('lit', out[-1][1] + s[1])
        else: out.append(s)
    return out

def render(segs):
    b = b''
    for s in segs:
        if s[0] == 'lit': b += s[1]
        elif s[0] == 'pct': b += b'%%'
        else: b += b'%' + s[1].encode() + s[2].encode()
    return b

def make_op(segs, args, old=b'', start=0, letter='P'):
    """op line for a segment list and an argument list (arguments may be too few / too many / of the wrong type)"""
    segs = merge_lits(segs)
    fmt = render(segs)
    table = {}
    k = 0
    for s in segs:
        if s[0] != 'spec': continue
        if k >= len(args): break
        a = args[k]; k += 1
        frag = b'%' + s[1].encode() + s[2].encode(); conv = s[2]; need = need_of(conv)
        if need != '*' and need != a[0] and not (need == 's' and a[0] == 'Y'): break
        calls = []
        if conv == '$': show_calls(a, calls)
        elif conv == 'p': pass
        elif need == 'i':
            if frag != b'%c': calls.append((frag, 'i', a[1]))
        elif need == 'f': calls.append((frag, 'd', a[1]))
        else: calls.append((frag, 's', a[1]))          # a String's bytes, or a Type object's name
        rejected = False
        for f, kind, v in calls:
            tok = ('i%d' % v) if kind == 'i' else ('d%016x' % v) if kind == 'd' else 's' + hx(v)
            if (f, tok) not in table: table[(f, tok)] = libc_print(f, kind, v)
            if table[(f, tok)] is None: rejected = True
        if rejected: break          # print_to_with raises FormatError here: nothing after it is called
    toks = [letter, str(start), hx(old), hx(fmt), str(len(args))]
    for a in args: toks += arg_tokens(a)
    toks += ['T', str(len(table))]
    for (f, tok), out in table.items(): toks += [hx(f), tok, '!' if out is None else hx(out)]
    return ' '.join(toks)

def make_M(fmt, args, old=b'', start=0):
    toks = ['M', str(start), hx(old), hx(fmt), str(len(args))]
    for a in args: toks += arg_tokens(a)
    return ' '.join(toks)

def gen_old_start(rng):
    r = rng.random()
    if r < 0.35: return b'', 0
    old = gen_bytes(rng, 1, 30)
    r = rng.random()
    if r < 0.3: return old, 0
    if r < 0.6: return old, len(old)
    return old, rng.randrange(0, len(old) + 1)

def gen_random_op(rng, maxseg=8):
    n = rng.choice([1, 1, 2, 2, 3, 3, 4, 5, 6, maxseg])
    segs = []
    for _ in range(n):
        r = rng.random()
        if r < 0.30: segs.append(('lit', gen_bytes(rng, 1, 10, no_pct=True)))
        elif r < 0.40: segs.append(('pct',))
        else: segs.append(gen_spec(rng))
    segs = merge_lits(segs)
    # keep the output short: at most two very long float renderings
    args = [gen_arg_for(rng, s[2]) for s in segs if s[0] == 'spec']
    big = 0
    for i, a in enumerate(args):
        if a[0] == 'f' and ((a[1] >> 52) & 0x7ff) > 1023 + 200 and ((a[1] >> 52) & 0x7ff) != 0x7ff:
            big += 1
            if big > 2: args[i] = ('f', bits_of(1.25))
    r = rng.random()
    if args and r < 0.08: args = args[:rng.randrange(0, len(args))]                     # too few
    elif r < 0.13: args = args + [gen_scalar(rng) for _ in range(rng.randrange(1, 3))]   # too many
    elif args and r < 0.15:                                                              # wrong class for one conversion
        i = rng.randrange(len(args)); args[i] = gen_scalar(rng)
    elif args and r < 0.165:                                                             # NULL where a value is needed (ValueError) or shown (<NULL>)
        i = rng.randrange(len(args)); args[i] = ('N', None)
    old, start = gen_old_start(rng)
    return make_op(segs, args, old, start)

# ---- specifications libc rejects (negative result): op J -----------------------------------------------------------------
WIDE_BAD = [0x80, 0xff, 0x100, 0x20ac, 0xd800, 0xffff, 0x10000, 0x10ffff, 0x110000, 2**31 - 1, 2**31, 2**32 - 1, -1, -2, -128, 2**32 + 0x80, 2**63 - 1, -2**63 + 0x90]
HUGE = ['2147483648', '4294967296', '4294967297', '99999999999', '18446744073709551616']

def gen_rejected(rng):
    """(segment, argument) of a specification that libc rejects: %lc with a value the "C" locale cannot encode (low 32 bits outside
    0..127), or a width / precision that does not fit an int (EOVERFLOW) — the latter inside the property's grammar"""
    r = rng.random()
    if r < 0.6:
        flags = rng.choice(['', '', '-', '0', '-0'][:3]); width = rng.choice(['', '', '1', '5', '12'])
        v = rng.choice(WIDE_BAD) if rng.random() < 0.7 else (rng.randrange(-2**63, 2**63) | 0x80)
        if v & 0xffffffff < 0x80: v |= 0x80
        return ('spec', flags + width + 'l', 'c'), ('i', v)
    conv = rng.choice('dixXufegscdis')
    body = rng.choice(HUGE) if rng.random() < 0.7 or conv == 'c' else '.' + rng.choice(HUGE)
    lm = rng.choice(['', 'l', 'll', 'hh']) if conv in INT_CONV else ''
    return ('spec', rng.choice(['', '', '-', '0']) + body + lm, conv), gen_arg_for(rng, conv)

def gen_wide_ok(rng):
    """%lc that libc accepts in the "C" locale (1..127)"""
    v = rng.randrange(1, 128) + rng.choice([0, 0, 2**32, -2**32, 2**40])
    return ('spec', rng.choice(['', '', '-', '-3', '4']) + 'l', 'c'), ('i', v)

def gen_plain_seg(rng):
    r = rng.random()
    if r < 0.35: return ('lit', gen_bytes(rng, 1, 8, no_pct=True))
    if r < 0.45: return ('pct',)
    if r < 0.55: return gen_wide_ok(rng)[0]
    return gen_spec(rng)

def gen_reject_op(rng, where):
    """a format with one rejected specification at the start / in the middle / at the end (`where`), sometimes a second one later;
    enough arguments of the right class (a missing or wrong-class argument BEFORE it wins, covered by a small share)"""
    npre = 0 if where == 'start' else rng.randrange(1, 5)
    npost = 0 if where == 'end' else rng.randrange(1, 5)
    if where == 'only': npre = npost = 0
    rej, rej_arg = gen_rejected(rng)
    pre = [gen_plain_seg(rng) for _ in range(npre)]; post = [gen_plain_seg(rng) for _ in range(npost)]
    if post and rng.random() < 0.15: post[rng.randrange(len(post))] = gen_rejected(rng)[0]
    args = []
    for sg in pre + [rej] + post:
        if sg[0] != 'spec': continue
        if sg is rej: args.append(rej_arg)
        elif sg[2] == 'c' and sg[1].endswith('l'): args.append(('i', rng.randrange(1, 128) if sg in pre else rng.choice(WIDE_BAD + [65, 66])))
        else: args.append(gen_arg_for(rng, sg[2]))
    r = rng.random()
    if args and r < 0.06: args = args[:rng.randrange(0, len(args))]
    elif args and r < 0.09: args[rng.randrange(len(args))] = gen_scalar(rng)
    old, start = gen_old_start(rng)
    return make_op(pre + [rej] + post, args, old, start, letter='J')

def grid_specs():
    """every (conversion, length modifier, flag set, width, precision) of the grammar on a small lattice"""
    out = []
    pairs = [(c, l) for c in INT_CONV for l in INT_LENS] + [(c, l) for c in FLT_CONV for l in FLT_LENS] + [(c, '') for c in 'csp$']
    for conv, lm in pairs:
        for fl in range(32):
            flags = ''.join(FLAGS[i] for i in range(5) if fl >> i & 1)
            for w in ('', '1', '12'):
                for p in ('', '.', '.0', '.5'):
                    out.append(('spec', flags + w + p + lm, conv))
    return out

def adjacency_ops(rng):
    """all sequences of up to 4 segment kinds: literal, %%, integer, string, %$ — specifications first, last and adjacent"""
    kinds = ['lit', 'pct', 'd', 's', '$']
    ops = []
    for n in range(0, 5):
        for combo in itertools.product(kinds, repeat=n):
            segs = []
            for k in combo:
                if k == 'lit': segs.append(('lit', gen_bytes(rng, 1, 4, no_pct=True)))
                elif k == 'pct': segs.append(('pct',))
                else: segs.append(gen_spec(rng, conv=k, rich=rng.random() < 0.3))
            if any(a[0] == 'lit' and b[0] == 'lit' for a, b in zip(segs, segs[1:])): continue
            args = [gen_arg_for(rng, s[2]) for s in segs if s[0] == 'spec']
            old, start = gen_old_start(rng)
            ops.append(make_op(segs, args, old, start))
    return ops

def type_show_ops(rng):
    """%$ on Type objects at every position of a format: all sequences of up to 3 segments out of literal / %% / %$ on a Type / %d / %$ on a Tuple
    holding a Type, on every start position of a short old String (formerly the territory of KF-C14-type-show)"""
    ops = []
    kinds = ['lit', 'pct', 'Y', 'd', 'UY']
    for n in range(1, 4):
        for combo in itertools.product(kinds, repeat=n):
            if 'Y' not in combo and 'UY' not in combo: continue
            segs = []; args = []
            for k in combo:
                if k == 'lit': segs.append(('lit', gen_bytes(rng, 1, 4, no_pct=True)))
                elif k == 'pct': segs.append(('pct',))
                elif k == 'd': segs.append(('spec', '', 'd')); args.append(('i', gen_int(rng)))
                elif k == 'Y': segs.append(('spec', '', '$')); args.append(('Y', rng.choice(TYPE_NAMES)))
                else: segs.append(('spec', '', '$')); args.append(('U', [('i', gen_int(rng)), ('Y', rng.choice(TYPE_NAMES)), ('s', gen_bytes(rng, 0, 4))]))
            if any(a[0] == 'lit' and b[0] == 'lit' for a, b in zip(segs, segs[1:])): continue
            old = gen_bytes(rng, 0, 9)
            for start in sorted({0, len(old) // 2, len(old)}):
                ops.append(make_op(segs, args, old, start))
    return ops

# ---- the two-pass sizing of String_Format_To: pieces of EVERY length, around every buffer size an implementation might use ------------------
SIZE_EDGES = [254, 255, 256, 257, 258, 510, 511, 512, 513, 514, 1022, 1023, 1024, 1025, 1026]
SIZE_EDGES_THOROUGH = [2046, 2047, 2048, 2049, 4094, 4095, 4096, 4097, 4098, 8191, 8192, 8193]

def sized_piece(rng, L, kind):
    """(segments, args) of ONE format_to call whose output has exactly L characters: kind 0 = `%s` of an L-byte String, 1 = a literal run of L
    bytes (L >= 1), 2 = a field width (`%<L>d`, `%-<L>s`, `%0<L>x`: L >= 1), 3 = a precision (`%.<L-2>f` of a one-digit value, L >= 3)"""
    if kind == 1 and L >= 1: return [('lit', gen_bytes(rng, L, L, no_pct=True))], []
    if kind == 2 and L >= 1:
        c = rng.choice('dsx')
        if c == 'd': return [('spec', rng.choice(['', '-', '0', '+']) + str(L), 'd')], [('i', rng.randrange(-9, 10) if L >= 2 else rng.randrange(0, 10))]
        if c == 'x': return [('spec', rng.choice(['', '-', '0']) + str(L) + rng.choice(['', 'l', 'll']), 'x')], [('i', rng.randrange(0, 16))]
        return [('spec', rng.choice(['', '-']) + str(L), 's')], [('s', gen_bytes(rng, 0, min(L, 3)))]
    if kind == 3 and L >= 3: return [('spec', '.' + str(L - 2), rng.choice('fF'))], [('f', bits_of(float(rng.randrange(0, 10))))]
    return [('spec', '', 's')], [('s', gen_bytes(rng, L, L))]

def sizing_ops(rng, quick):
    """one piece of every length 0..130 and around 256 / 512 / 1024 (thorough: up to 8193) by each of four ways of producing it, alone on every
    kind of start position (0, inside, end of an old String that is shorter / longer than the result: the block grows, shrinks, keeps its size),
    and as the first / middle / last piece of a format (so that the position accounting after it is exercised at that size)"""
    ops = []
    lens = list(range(0, 131)) + SIZE_EDGES + ([] if quick else SIZE_EDGES_THOROUGH)
    for L in lens:
        for kind in range(4):
            if L > 300 and kind != 0 and kind != 2 and quick: continue
            segs, args = sized_piece(rng, L, kind)
            # old String: empty / shorter than the piece / exactly as long as the result / longer (shrinks)
            for variant in range(3 if quick else 5):
                r = rng.random()
                if variant == 0: old, start = b'', 0
                elif variant == 1:
                    old = gen_bytes(rng, 1, 40); start = len(old)
                elif variant == 2:
                    old = gen_bytes(rng, L + 1, L + 1 + rng.randrange(0, 9)); start = rng.choice([0, 0, 1])          # result shorter than or equal to the old block
                elif variant == 3:
                    start = rng.randrange(0, 12); old = gen_bytes(rng, start + L, start + L)                                # result exactly as long as the old value
                else:
                    old = gen_bytes(rng, 1, 2 * L + 2); start = rng.randrange(0, len(old) + 1)
                pre = post = []
                if variant >= 1 and r < 0.5:
                    pre = rng.choice([[], [('lit', gen_bytes(rng, 1, 5, no_pct=True))], [('pct',)], [('spec', '', 'd')]])
                    post = rng.choice([[], [('lit', gen_bytes(rng, 1, 5, no_pct=True))], [('pct',)], [('spec', '', 's')], [('spec', '', '$')]])
                if pre and pre[-1][0] == 'lit' and segs[0][0] == 'lit': pre = [('pct',)]
                if post and post[0][0] == 'lit' and segs[-1][0] == 'lit': post = [('pct',)]
                a2 = [gen_arg_for(rng, sg[2]) for sg in pre if sg[0] == 'spec'] + args + [gen_scalar(rng) if sg[2] == '$' else gen_arg_for(rng, sg[2]) for sg in post if sg[0] == 'spec']
                ops.append(make_op(pre + segs + post, a2, old, start))
    return ops

MALFORMED = [b'%', b'%5', b'%-', b'%l', b'%.3', b'abc%', b'abc%5', b'x%ll', b'%%%', b'ab%%%', b'%d%', b'%d %', b'%#08.3l', b'%hh',
             b'%5%', b'%z', b'a%', b'%\xc3']

def chunks(lines, n):
    return [lines[i:i + n] for i in range(0, len(lines), n)]

class C14(Spec):
    id = 'C14'; engine = 'fmt'; harness = 'h_fmt'; driver = 'drv_fmt'
    generators = ('Fmt',)
    harness_timeout = 300
    technique = ('Lean 4 proof: the format scanner of print_to_with (index reads, fmt_buf writes, argument fetch, dispatch) refines a '
                 'segment-by-segment reference semantics of the format grammar for every well-formed format, argument list, sink and start '
                 'position; positions and sink contents follow for every format; the scan sets, the dispatch and the show formats are '
                 'regenerated from the source on every run; differential check of the recorded format_to calls, String and File sinks '
                 'against the model and against libc')
    level_text = ('Theorems C14_segmentation / C14_position / C14_bounds / C14_too_few (lean/CelloProofs/Props/C14.lean): for every well-formed '
                  'format (any literal bytes, %%, any specification body free of conversion characters ending in a conversion character — the '
                  'printf grammar of the property is proved to be a subset), every argument list, sink and start position, the scanner model '
                  'executes exactly the grammar segments in order with the k-th specification taking the k-th argument, raises FormatError '
                  'exactly when a specification has no argument or libc rejects one of the calls (off < 0; C14_too_few), leaves String and File as the prefix left them on '
                  'a rejected call (C14_reject_unchanged, tied to the position of `if (size < 0) { return size; }` in String_Format_To read from the source), reads only indices <= strlen(fmt) and writes only fmt_buf indices <= strlen(fmt); '
                  'for EVERY format a String and a File receive the same primitive calls with the same C values (C14_same_calls); for every format of the printf grammar '
                  '(printfOK: the class on which the trusted libc is a function of the fragment and the ONE vararg passed — every call handed to libc is then inside its '
                  'contract, C14_calls last conjunct; outside it, e.g. `%*d`: C14_star_width_refuted, known finding KF-C14-star-width) the returned position is start + the '
                  'characters written, the String sink is old[0..start) ++ text and the File sink gets the same text (C14_position), when no %s fetches the destination '
                  'itself and no %$ an object whose show reaches it (plainFor, relative to the format = exactly KF-C14-alias; the destination under %p / %d / as a surplus '
                  'argument is covered: C14_alias_harmless; the excluded region is exhibited by C14_alias_refuted); the closed forms C14_calls / C14_too_few / '
                  'C14_reject_unchanged have _builtin corollaries for the Show instances the driver runs (hypothesis showsOk: the argument\'s own show completes — decidable by running it once); '
                  'a Range shows its elements\' own Int show text (C14_range_shows_own_int_show, fix 78c2117; OLD form: C14_range_show_old_refuted); %$ on Tuple/Array/List/Table/Tree/Range/Slice/Box/NULL/objects '
                  'without Show writes each element\'s own show text once, in iteration order, between the texts read from the source (C14_show_containers, C14_show_more); '
                  '%$ on a Type object is one %s call with its name and the position goes on after it (C14_type_show_position, tied to the form of Type_Show read from the source: '
                  'C14_type_show_returns_position; the OLD form, fixed by 0046a69, is exhibited by C14_type_show_old_refuted). '
                  'Block level (Cello/FmtSize.lean; the statements AND the size expressions of String_Format_To read from the source, C14_string_format_to_sizing_source): for every block reaching the start '
                  'position and every text of every length the two-pass sizing (measure, realloc(pos + size + 1), vsprintf at pos) leaves block[0..pos) ++ text ++ NUL, pos + |text| + 1 bytes, and returns |text| '
                  '(C14_string_format_to_block, C14_string_content_after_call: the C string is old[0..pos) ++ text = the abstract sink); a whole call log replayed on the block never leaves it and ends where the '
                  'abstract sink ends (C14_block_follows_sink); one byte less or one byte late is refuted for every call (C14_sizing_without_terminator_refuted, C14_sizing_write_late_refuted); File_Format_To '
                  'statement by statement returns the same count (C14_file_format_to_steps, C14_sinks_return_same_count); the declared result type of the cast each dispatch arm applies is in the register class '
                  'printf fetches that specification from and at least as wide, for every conversion x length modifier of the grammar (C14_arg_types_match_printf, C14_arg_type_table_is_the_grammar). '
                  'What libc prints for one specification is a parameter (trusted). '
                  'The model is tied to the code by regenerating the scan set / dispatch / show formats / function text from /repo every run and by '
                  'running thousands of generated formats on the real print_to_with (recording sink, String, File) and on the model.')
    level_note = ('Known findings KF-C14-star-width (`*` width: one vararg passed where libc reads two; hypothesis printfOK), KF-C14-start-beyond-end (String sink, start > strlen: hypothesis start <= length, '
                  'C14_start_beyond_end_refuted) and KF-C14-fmtbuf-leak (fmt_buf not freed on the throw paths, C14_fmt_buf_released_refuted) are modelled, refuted on witnesses and kept out of the generated inputs. '
                  'Known finding KF-C14-alias is modelled and excluded by an explicit decidable hypothesis relative to the format (plainFor; plainArgs implies it); the former finding KF-C14-type-show is fixed (0046a69) and its territory is covered by the theorems and generated. Trusted: Lean kernel; libc vsnprintf/vsprintf/vfprintf for one specification (the parameter `libc`: text and rejection) and that a whole-format printf equals '
                  'the concatenation of its specifications; translate/g_fmt.py; harness/driver comparison (testing). Known finding F29 (partial output '
                  'before FormatError) is modelled and proved as C14_unchanged_on_error_refuted. Malformed tails ("...%") leave the buffers: modelled (oob), outside the property.')
    rule = ('op = one print_to_with call (format, arguments, old sink content, start position) executed on a recording sink, a String and a File. '
            'Formats: (a) lattice of every conversion x length modifier x 32 flag sets x 3 widths x 4 precisions at boundary values, '
            '(b) every sequence of up to 4 segment kinds (literal, %%, integer, string, %$) so that specifications occur first, last and adjacent, '
            '(c) random formats of up to 8 segments (literal bytes 1..255, %%, specifications with flags/width/precision/length) with Int over the full '
            'int64 range, Float over all bit patterns, String bytes 1..255, %$ on Int/Float/String/Array/List/Tuple/Table/Tree/Range/Slice/Box/NULL/objects without Show/Type objects '
            '(nested; Tables with colliding, negative and repeated keys; Ranges in both directions), too few / too many / wrong-class / NULL '
            'arguments, start positions 0..len(old), (d) formats outside the grammar run in a forked child (does the code leave its buffers?), '
            '(e) formats with a specification libc REJECTS (%lc with a value outside 0..127 in the "C" locale, widths/precisions >= 2^31) as the only segment, '
            'first, in the middle and last, after prefixes that are written (literal, %%, accepted specifications incl. accepted %lc), with a second rejected one later, '
            'with too few / wrong-class arguments before it; each on the recording sink, a String and a File, in a forked child (op J), '
            '(g) %$ on Type objects (bare, inside Tuples and Boxes) in every sequence of up to 3 segments out of literal / %% / %d / %$, at start positions 0, middle and end of the old String, '
            '(h) one piece of EVERY length 0..130 and around 256 / 512 / 1024 (thorough: .. 8193) produced by %s, a literal run, a field width and a precision, on an empty / shorter / longer / equally long old String '
            '(the block grows, shrinks, keeps its size: I-line counters grow/shrink/keep/emptypiece), alone and between other segments; the String line carries the allocated size of the block (cap=, the size the ASan allocator recorded). '
            'non-trivial = the format has at least one argument-consuming specification; distinct = distinct op text.')
    trusted_base = ('translate/g_fmt.py (regex over src/Show.c print_to_with / show_to / format_to / format_to_va, String_Format_To (statements + realloc size / vsprintf offset as sums), File_Format_To (statements), the prototypes of c_int / c_float / c_str / var in include/Cello.h and the Show functions of Num.c, String.c, Array.c, Tuple.c, List.c, Table.c, Tree.c, Iter.c, Pointer.c, Type.c)',
                    'lean/Cello/Table.lean (C02 model: slot order of a Table, used by the driver only) and lean/Cello/Iter.lean (C11 model: values of a Range, driver only)',
                    'harness/h_fmt.c + lean/Driver/Fmt.lean (correspondence is testing)',
                    'libc printf family for ONE specification (model parameter `libc`: its text, or that it rejects the call; the op files carry its results, computed by the generator through ctypes from the same libc in the "C" locale)',
                    'x86-64 SysV varargs: an int64_t passed where printf reads an int yields its low 32 bits (what print_to_with relies on for %d, %c, %hd ...); that class and width match is proved (C14_arg_types_match_printf), '
                    'the table of what printf fetches per specification (Cello.Fmt.printfReads, C11 7.21.6.1 on LP64) is transcribed by hand',
                    'realloc keeps the first min(old, new) bytes and returns a block of exactly the size asked (Cello.Fmt.reallocBlk); the harness reads the block size from the ASan allocator (__sanitizer_get_allocated_size)')
    assumptions = ('length modifiers restricted to those whose C type print_to_with can supply: hh h l ll j z t for integers, l for floating, none for c s p $ '
                   '(not L, not %ls); %lc is generated in the forked J ops only (libc rejects it for values the "C" locale cannot encode)',
                   'no `*` width/precision (known finding KF-C14-star-width: print_to_with passes ONE vararg per specification, libc reads two — witness corpus/kf_c14_star_width.ops, op V, '
                   'theorem C14_star_width_refuted; the text / no-UB conjuncts of the theorems carry the decidable hypothesis printfOK), no %n, no positional arguments, no L / %ls '
                   '(the vararg passed has another C type): the trusted parameter `libc` is a function of (fragment, ONE value) only on printfOK fragments (Call.inContract)',
                   'String sink: start position <= strlen(old) (beyond it the text lands behind the old terminator and indeterminate bytes: known finding KF-C14-start-beyond-end, witness '
                   'corpus/kf_c14_start_beyond_end.ops, op B, theorem C14_start_beyond_end_refuted; every String conclusion carries start <= length); start >= 0; positions fit an int',
                   'String sinks are heap Strings (new_raw): on a stack / static String ($S(...)) String_Format_To raises ValueError before touching it (CELLO_ALLOC_CHECK; the model step '
                   'SStep.allocCheck is a no-op for that reason) — in-contract refusal, not generated',
                   'fmt_buf is not freed when print_to_with leaves through an exception (known finding KF-C14-fmtbuf-leak, witness corpus/kf_c14_fmtbuf_leak.ops, op Q, theorem '
                   'C14_fmt_buf_released_refuted): generated too-few / wrong-class / rejected cases leak strlen(fmt)+1 bytes each; only op Q measures the heap',
                   'sinks generated: a recording sink, a heap String, one tmp File positioned at its end; `args` is a Tuple (print_to_with only uses len/get); not generated: print / println / show on stdout, '
                   'a File whose offset is not its end, a String that lives inside a container',
                   'a call libc rejects writes nothing before it fails (true of glibc for %lc / EILSEQ and for a width or precision overflowing int / EOVERFLOW: '
                   'checked by the oracle on the File sink); other ways of failing (I/O error on the stream, output longer than INT_MAX) are not generated',
                   'File sink positioned at its end: File_Format_To ignores `pos`',
                   'on too few arguments only the exception is checked by the oracle: the partial output (F29) is a known finding, checked by op K only',
                   'no argument (at any depth) is the destination String itself: print_to(s, pos, "%s" / "%$", s) reads the buffer it reallocates — known finding '
                   'KF-C14-alias, modelled (outcome oob), theorem C14_alias_refuted, witness corpus/kf_c14_alias.ops; the theorems carry the decidable hypothesis plainFor (relative to the '
                   'format: only %s / %$ matter; the sink under %p, %d, %f or as a surplus argument is in-contract, corpus/fmt_alias_safe.ops, theorem C14_alias_harmless); generated P/J ops '
                   'never pass the sink as an argument (a superset of the finding\'s territory is kept out of the GENERATOR, not of the theorems)',
                   'Table / Tree arguments have Int keys and scalar values (iteration order of the Table taken from the C02 model Cello/Table.lean, of the Tree = descending keys); '
                   'Slices are whole-Array slices; Exception_Show and GC_Show are not modelled')
    def cases(self, rng, tier, boost=1):
        quick = tier == 'quick'
        cs = []
        # (h) the two-pass sizing of String_Format_To: pieces of every length (runs first: a fit test off by one at a buffer size fails here at once)
        for i, ch in enumerate(chunks(sizing_ops(rng, quick), 300)): cs.append(Case(f'size{i}', ch))
        # (a) lattice
        grid = grid_specs()
        ng = (2500 if quick else len(grid)) * (1 if quick else 1)
        pick = rng.sample(grid, min(ng, len(grid))) if ng < len(grid) else grid
        lines = []
        reps = 1 if quick else 3
        for sp in pick:
            for _ in range(reps):
                pre = rng.choice([[], [], [('lit', gen_bytes(rng, 1, 5, no_pct=True))], [('pct',)]])
                post = rng.choice([[], [], [('lit', gen_bytes(rng, 1, 5, no_pct=True))], [('pct',)]])
                old, start = gen_old_start(rng)
                lines.append(make_op(pre + [sp] + post, [gen_arg_for(rng, sp[2])], old, start))
        for i, ch in enumerate(chunks(lines, 500)): cs.append(Case(f'grid{i}', ch))
        # (b) adjacency
        for i, ch in enumerate(chunks(adjacency_ops(rng), 400)): cs.append(Case(f'adj{i}', ch))
        # (c) random
        nrand = (16000 if quick else 300000) * boost
        lines = [gen_random_op(rng, 8 if quick else 14) for _ in range(nrand)]
        for i, ch in enumerate(chunks(lines, 500 if quick else 2000)): cs.append(Case(f'rand{i}', ch))
        # (d) outside the grammar, forked
        m = []
        for f in MALFORMED:
            # no Int argument here: with one, the incomplete specification reaches libc (strchr("diouxX", '\0') is non-NULL), vsnprintf
            # fails, and what String_Format_To does with size = -1 is outside the model (see `assumptions`)
            for args in ([], [('f', bits_of(1.5))], [('s', b'xy')], [('f', bits_of(2.0)), ('s', b'q')]):
                m.append(make_M(f, args, b'old', rng.randrange(0, 4)))
        if not quick:
            for _ in range(200):
                f = gen_bytes(rng, 0, 6, no_pct=True) + b'%' + ''.join(rng.choice('-+ #0123456789.hlz') for _ in range(rng.randrange(0, 5))).encode()
                m.append(make_M(f, [gen_scalar(rng, rng.choice('fs')) for _ in range(rng.randrange(0, 3))], b'', 0))
        cs.append(Case('outside', m))
        # (f) %$ on every kind of object that has a Show instance or falls to show_to's other arms: Table / Tree (colliding, negative, repeated keys),
        #     Range (both directions, empty, step 0), Slice, Box (full, empty, nested), NULL, objects without Show, Type objects (alone, several in a row,
        #     inside Tuples and Boxes, at start positions > 0: fix 0046a69) — alone, nested in Tuples, between other segments
        nshow = (1500 if quick else 40000) * boost
        lines = []
        for i in range(nshow):
            k = i % 9
            a = (gen_type_obj(rng) if k == 8 else ('H', gen_pairs(rng)) if k == 0 else ('R', gen_pairs(rng)) if k == 1 else gen_range(rng) if k == 2 else
                 ('C', [gen_scalar(rng, 'ifs'[i % 3]) for _ in range(rng.randrange(0, 5))]) if k == 3 else
                 ('X', gen_obj(rng, 2) if i % 5 else None) if k == 4 else
                 rng.choice([('N', None), ('O', b'File'), ('O', b'Ref'), ('O', b'NoShow')]) if k == 5 else
                 ('U', [gen_obj(rng, 1) for _ in range(rng.randrange(1, 4))]) if k == 6 else gen_obj(rng, 2))
            pre = rng.choice([[], [], [('lit', gen_bytes(rng, 1, 5, no_pct=True))], [gen_spec(rng, conv='d', rich=False)], [('pct',)]])
            post = rng.choice([[], [], [('lit', gen_bytes(rng, 1, 5, no_pct=True))], [gen_spec(rng, conv='s', rich=False)], [('spec', '', '$')]])
            segs = pre + [('spec', '', '$')] + post
            args = [gen_arg_for(rng, sg[2]) if sg is not segs[len(pre)] else a for sg in segs if sg[0] == 'spec']
            old, start = gen_old_start(rng)
            lines.append(make_op(segs, args, old, start))
        for i, ch in enumerate(chunks(lines, 500 if quick else 2000)): cs.append(Case(f'show{i}', ch))
        # (g) %$ on Type objects at every position
        for i, ch in enumerate(chunks(type_show_ops(rng), 400)): cs.append(Case(f'typeshow{i}', ch))
        # (e) specifications libc rejects (negative result -> FormatError, sinks as the prefix left them), forked (op J)
        nrej = (1600 if quick else 24000) * boost
        lines = [gen_reject_op(rng, ('start', 'mid', 'end', 'only')[i % 4] if i % 5 else rng.choice(['start', 'mid', 'end'])) for i in range(nrej)]
        for i, ch in enumerate(chunks(lines, 200 if quick else 1000)): cs.append(Case(f'rej{i}', ch))
        return cs
    def nontrivial_items(self, case, c_out, m_out):
        ops = [l for l in case.lines if l and not l.startswith('#')]
        rs = [l for l in m_out.split('\n') if l.startswith('R ') or l.startswith('O outside') or l.startswith('O bad')]
        out = set()
        for op, r in zip(ops, rs):
            if ' specs=' in r and int(r.split(' specs=')[1].split()[0]) >= 1: out.add(hash(op))
        return out
    def stats(self, case, c_out, m_out, acc):
        for l in core.lines_with('O W ', c_out):
            acc['ops'] = acc.get('ops', 0) + 1
            e = l.split('exc=')[1].split()[0]
            acc['exc_' + e] = acc.get('exc_' + e, 0) + 1
            calls = l.split('calls=')[1].split()[0]
            if calls != '-':
                for c in calls.split(';'):
                    frag = bytes.fromhex(c.split(':')[0]) if c.split(':')[0] != '-' else b''
                    if c.split(':')[1] != 'n' and frag:
                        k = 'conv_' + chr(frag[-1]); acc[k] = acc.get(k, 0) + 1
        for l in core.lines_with('O J died', c_out): acc['forked_child_died'] = acc.get('forked_child_died', 0) + 1
        for l in core.lines_with('O M ', c_out):
            k = 'outside_' + l.split()[2]; acc[k] = acc.get(k, 0) + 1
        acc['outside_grammar_skipped'] = acc.get('outside_grammar_skipped', 0) + len(core.lines_with('O outside-grammar', c_out))
        for l in core.lines_with('I ops=', c_out):
            for kv in l.split()[1:]:
                k, v = kv.split('='); acc['h_' + k] = acc.get('h_' + k, 0) + int(v)
        for l in core.lines_with('I maxpiece=', c_out):
            acc['h_maxpiece'] = max(acc.get('h_maxpiece', 0), int(l.split('=')[1]))
        for l in core.lines_with('R len=', m_out):
            if ' rejected=' in l and int(l.split(' rejected=')[1].split()[0]) > 0:
                acc['rejected_calls'] = acc.get('rejected_calls', 0) + 1
                ncalls = int(l.split(' calls=')[1].split()[0])
                k = 'rejected_first_call' if ncalls == 1 else 'rejected_after_prefix'
                acc[k] = acc.get(k, 0) + 1
            if ' ref=' in l:
                segs = int(l.split(' segs=')[1].split()[0]); acc['max_segments'] = max(acc.get('max_segments', 0), segs)
                acc['max_format_len'] = max(acc.get('max_format_len', 0), int(l.split('len=')[1].split()[0]))
    def model_selfcheck(self, case, m_out):
        for l in m_out.split('\n'):
            if not l.startswith('R '): continue
            f = dict(kv.split('=') for kv in l.split()[1:] if '=' in kv)
            if f.get('blk') in ('DIFF', 'UB'): return f'block-level String_Format_To (Cello/FmtSize.lean) differs from the abstract String sink: {l}'
            if f.get('ref') == 'DIFF': return f'machine differs from the reference semantics of the grammar: {l}'
            if 'ref' in f and (int(f['rd']) > int(f['len']) or int(f['wr']) > int(f['len'])): return f'access outside the buffers on a well-formed format: {l}'
        return None

SPEC = C14()
