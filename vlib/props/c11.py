"""C11 — iteration agrees with len and get, forwards and backwards, for views too (engine iter)."""
import re
from ..runner import Spec, Case
from .. import core

LINE = re.compile(r'O f=\[(.*?)\] fe=(\S+) b=\[(.*?)\] be=(\S+) len=(\S+) get=(.*)$')

def _items(s): return s.split(' ') if s else []

def cmp_lines(c, m):
    """compare one harness observation with the model's.  Where the model says the C code leaves the protocol
    (`ub`: Terminal used as a cursor; `hang`) the implementation's behaviour from that point on is not compared:
    the items before that point must still agree."""
    if c == m: return None
    if c == 'O crash':
        return None if ('=ub' in m or '=hang' in m) else 'implementation crashed where the model predicts a defined result'
    a, b = LINE.match(c), LINE.match(m)
    if not a or not b: return 'different kind of observation'
    for (ci, ce, mi, me, what) in ((a.group(1), a.group(2), b.group(1), b.group(2), 'forward'), (a.group(3), a.group(4), b.group(3), b.group(4), 'backward')):
        ci, mi = _items(ci), _items(mi)
        if me in ('ub', 'hang'):
            k = min(len(mi), 16) if ce == 'fuel' else len(mi)
            if ci[:k] != mi[:k]: return f'{what} items before the model leaves the protocol differ'
        else:
            if ci != mi or ce != me: return f'{what} walk differs'
    if a.group(5) != b.group(5): return 'len differs'
    if a.group(6) != b.group(6): return 'get differs'
    return None

def compare_outputs(c_out, m_out):
    a, b = core.lines_with('O ', c_out), core.lines_with('O ', m_out)
    for i in range(max(len(a), len(b))):
        x = a[i] if i < len(a) else '<missing>'
        y = b[i] if i < len(b) else '<missing>'
        if cmp_lines(x, y): return i, x, y
    return None

# ------------------------------------------------------------------------------------------------ generators
def ints(rng, n, lo=-50, hi=50): return [rng.randint(lo, hi) for _ in range(n)]

def base(rng, n, kinds=('array', 'list', 'tuple', 'table', 'tree', 'rtree', 'range')):
    """a container expression with exactly n elements (distinct tuple ids: repeated ids are known finding F13)"""
    k = rng.choice(kinds)
    if k in ('array', 'list'): return f"({k} {' '.join(map(str, ints(rng, n)))})".replace(' )', ')')
    if k == 'tuple': return f"(tuple {' '.join(map(str, rng.sample(range(2000), n)))})".replace(' )', ')')
    if k == 'table':
        nslots = n + rng.randint(0, n + 3)
        occ = set(rng.sample(range(nslots), n)) if nslots else set()
        keys = rng.sample(range(-999, 1000), n)
        it = iter(keys)
        return f"(table {' '.join(str(next(it)) if i in occ else '.' for i in range(nslots))})".replace(' )', ')')
    if k == 'tree':
        keys = sorted(rng.sample(range(-999, 1000), n))
        def shape(lo, hi):
            if lo >= hi: return '.'
            mid = rng.randrange(lo, hi)
            return f'({shape(lo, mid)} {keys[mid]} {shape(mid + 1, hi)})'
        return f'(tree {shape(0, n)})'
    if k == 'rtree':
        keys = rng.sample(range(-999, 1000), n); extra = [rng.choice(keys) for _ in range(rng.randint(0, 2))] if keys else []
        ks = keys + extra; rng.shuffle(ks)
        return f"(rtree {' '.join(map(str, ks))})".replace(' )', ')')
    # range with exactly n elements
    step = rng.choice([1, 1, 2, 3, -1, -2, 5])
    start = rng.randint(-20, 20)
    if n == 0: return rng.choice(['(range)', f'(range {start} {start - rng.randint(0, 5)} {step})', f'(range {start} {start + 5} 0)'])
    stop = start + abs(step) * (n - 1) + rng.randint(1, abs(step))
    return f'(range {start} {stop} {step})'

def lawful_view(rng, depth, n):
    """composition of views that stays outside every known-finding territory: full slices / reverse, zips of equal
    length, enumerate, filter, map"""
    if depth <= 0: return base(rng, n), n, True
    r = rng.random()
    if r < 0.2:
        e, m, haslen = lawful_view(rng, depth - 1, n)
        if not haslen: return e, m, haslen
        return rng.choice([f'(reverse {e})', f'(slice {e})', f'(slice {e} _ _ 1)', f'(slice {e} 0 {m})', f'(slice {e} 0 _ -1)', f'(slice {e} {m})']), m, True
    if r < 0.45:
        k = rng.randint(1, 4); parts = []
        for _ in range(k):
            e, m, haslen = lawful_view(rng, depth - 1, n)
            while m != n or not haslen: e, m, haslen = lawful_view(rng, 0, n)
            parts.append(e)
        return f"(zip {' '.join(parts)})", n, True
    if r < 0.6:
        e, m, haslen = lawful_view(rng, depth - 1, n)
        if not haslen: return e, m, haslen
        return f'(enum {e})', m, True
    if r < 0.8:
        e, m, haslen = lawful_view(rng, depth - 1, n)
        mod = rng.randint(1, 4); res = rng.randrange(mod)
        return f'(filter {e} {mod} {res})', -1, False     # length unknown to the generator
    e, m, haslen = lawful_view(rng, depth - 1, n)
    return f'(map {e} {rng.randint(-3, 3)} {rng.randint(-5, 5)})', m, haslen

def any_view(rng, depth, n):
    """arbitrary composition (may enter known-finding territory: partial slices, unequal zips); returns (expr, has_len)"""
    if depth <= 0: return base(rng, rng.choice([n, n, max(0, n - 1), n + 2])), True
    r = rng.random()
    def arg(): return rng.choice(['_', str(rng.randint(-n - 2, n + 2)), str(rng.randint(0, n + 1))])
    if r < 0.3:
        e, hl = any_view(rng, depth - 1, n)
        if not hl: return e, hl
        k = rng.randint(0, 3)
        args = [arg() for _ in range(k)]
        if k == 3: args[2] = rng.choice(['_', '1', '-1', '2', '-2', '3', '0', str(rng.randint(-4, 4))])
        if k >= 1 and args[0 if k == 1 else 1] == '_' and k < 3 and rng.random() < 0.5: pass
        return (f"(slice {e} {' '.join(args)})".replace(' )', ')') if rng.random() < 0.85 else f'(reverse {e})'), True
    if r < 0.5:
        k = rng.randint(1, 4); parts = [any_view(rng, depth - 1, n) for _ in range(k)]
        return f"(zip {' '.join(p[0] for p in parts)})", all(p[1] for p in parts)
    if r < 0.6:
        e, hl = any_view(rng, depth - 1, n)
        if not hl: return e, hl
        return f'(enum {e})', True
    if r < 0.8:
        e, hl = any_view(rng, depth - 1, n)
        mod = rng.randint(1, 4)
        return f'(filter {e} {mod} {rng.randrange(mod)})', False
    e, hl = any_view(rng, depth - 1, n)
    return f'(map {e} {rng.randint(-3, 3)} {rng.randint(-5, 5)})', hl

def fixed_base(kind, n):
    """deterministic container with n elements 10 … 10+n-1 (sweeps)"""
    vals = [10 + i for i in range(n)]
    if kind in ('array', 'list', 'tuple'): return f"({kind} {' '.join(map(str, vals))})".replace(' )', ')')
    if kind == 'range': return f'(range 10 {10 + n})'
    if kind == 'range3': return f'(range 10 {10 + 3 * n} 3)' if n else '(range 10 10 3)'
    if kind == 'table':
        slots = []
        for i, v in enumerate(vals):
            slots += ['.'] * (i % 3 == 1) + [str(v)]
        return f"(table {' '.join(slots + ['.'])})"
    if kind == 'tree':
        def shape(lo, hi):
            if lo >= hi: return '.'
            mid = (lo + hi) // 2 if (hi - lo) % 3 else lo
            return f'({shape(lo, mid)} {vals[mid]} {shape(mid + 1, hi)})'
        return f'(tree {shape(0, n)})'
    if kind == 'zip': return f"(zip (array {' '.join(map(str, vals))}) (range {n}))".replace(' )', ')')
    if kind == 'map': return f"(map (list {' '.join(map(str, vals))}) 2 1)".replace(' )', ')')
    raise ValueError(kind)

def sweep(kind, n, R, with_blank=False):
    b = fixed_base(kind, n)
    rngv = list(range(-R, R + 1))
    out = [f'W (slice {b} {a} {bb} {c})' for a in rngv for bb in rngv for c in rngv]
    if with_blank:      # all arities and `_`, through the slice(…) / reverse(…) macros
        av = ['_'] + [str(x) for x in rngv]
        out += [f'V (slice {b} {a} {bb})' for a in av for bb in av]
        out += [f'V (slice {b} {bb})' for bb in av] + [f'V (slice {b})', f'V (reverse {b})', f'W (reverse {b})']
        out += [f'V (slice {b} _ _ {c})' for c in av] + [f'V (slice {b} {a} _ {c})' for a in rngv for c in (-2, -1, 1, 2)]
        out += [f'V (slice {b} _ {bb} {c})' for bb in rngv for c in (-2, -1, 1, 2)]
    return out


class C11(Spec):
    id = 'C11'; engine = 'iter'; harness = 'h_iter'; driver = 'drv_iter'
    generators = ()
    harness_timeout = 600
    technique = ('Lean 4 proofs (induction over walks, lists, trees, Int arithmetic) about an executable state-machine model of the '
                 'iteration protocol that mirrors every Iter instance of the sources; differential check of that model against the real '
                 'library (exhaustive Range and Slice parameter cubes, every container at every small length, random compositions); '
                 'definition-based oracle in C on the same inputs')
    level_text = ('Theorems (Props/C11.lean, no bound on sizes or nesting): LawfulAs — foreach yields exactly the defined sequence and then '
                  'Terminal, the backward walk its reverse, len its length, get(i) its i-th element — for Array, List, Table (every pattern of '
                  'holes), Tree (every shape, through child/parent pointers), Tuple without a repeated object, Range for ALL (start, stop, step) '
                  'incl. step 0, negative steps, empty ranges; closed under Filter, Map, Zip (forward/len/get for inputs of any lengths, '
                  'backward for equal lengths) and enumerate, hence (C11_compositions_lawful, by induction over the expression language that '
                  'harness and driver interpret) for every composition of views to any nesting depth; Slice: len/get for all parameters, both '
                  'walks inside the characterised parameter regions SliceRegionFwd/Bwd (C11_slice_partial). The full statements for Slice, '
                  'Zip backward and Tuple are refuted on concrete witnesses (known findings F11, F12, F13). The model is tied to the code on '
                  'every run: all 19^3 Range and 9*19^3 Slice parameter triples over Array/Tuple/Range (and smaller cubes over List, Table, '
                  'Tree, Zip, Map) produce the same items, end markers, len and get in C and in Lean.')
    level_note = ('Trusted: Lean kernel; axioms propext/Quot.sound/Classical.choice; the hand-written model Cello/Iter.lean (validated by the '
                  'harness/driver comparison, which is testing); harness/h_iter.c and lean/Driver/Iter.lean. Inside known-finding territory '
                  '(Slice outside its region, backward Zip of unequal inputs, Tuple with a repeated object) the property is known to FAIL; '
                  'there the check only verifies that the implementation still behaves as the model predicts. Where the model says the C code '
                  'leaves the protocol (Terminal used as a cursor: `ub`) the implementation is executed in a forked worker and only the '
                  'items before that point are compared. int64 wrap-around of Range values and pointer identity of Filter/Map callables are '
                  'not modelled. Tree iterates in DESCENDING key order (Tree_Set keeps the greater key on the left); C11 does not fix an order.')
    rule = ('op files of iterable expressions: (1) every container kind (Array, List, Tuple, white-box Table slot arrays with holes, white-box '
            'Tree shapes, Tree built with set, Range) at every length 0..40 (80 thorough) and some large; (2) every Range (start, stop, step) '
            'in [-9,9]^3 ([-20,20]^3 thorough), all constructor arities and `_`, plus random large ranges; (3) every Slice (start, stop, step) '
            'in [-9,9]^3 over Array, Tuple and Range of every length 0..8 ([-10,10]^3 over 0..24 and [-20,20]^3 at four lengths, thorough), '
            'smaller cubes over List, Table, Tree, Zip, Map, a strided Range; all arities/`_`/reverse through the stack macros; Slice_Arg '
            'alone for n <= 12, args in [-15,15]; (4) Zip of 1-4 random inputs of equal and unequal lengths, enumerate of every kind; '
            '(5) random compositions of views to depth 3 (4 thorough), half of them built with the stack macros: one family stays outside '
            'known-finding territory, one is arbitrary. Each op is walked with foreach and backwards, len and get(0..len-1) are read; harness '
            'and driver must print the same line; the C oracle compares with the definition. non-trivial = the forward walk yields at least '
            '2 items or a walk does not end with Terminal (exception / worker crash / cap); distinct = distinct op text.')
    trusted_base = ('lean/Cello/Iter.lean is a hand-written model of src/Iter.c and of the Iter/Len/Get instances of Array, List, Table, Tree, Tuple (no generated part)',
                    'harness/h_iter.c + lean/Driver/Iter.lean + vlib/props/c11.py compare (correspondence is testing)',
                    'the definition-based reference in harness/h_iter.c (ref_of) is the oracle of link (C)')
    assumptions = ('element counts and Range values stay below 2^63 (sizes are Nat, int64_t is Int in the model)',
                   'the container is not modified during a walk; one walk at a time per iterable object (Range, Map and Zip keep the cursor inside the object)',
                   'the oracle treats as known (not as violations) deviations whose expression lies in known-finding territory: a Slice outside '
                   'SliceRegionFwd/Bwd (F11), a backward walk that involves a Zip of inputs of unequal length (F12), a Tuple holding one object twice (F13); '
                   'these inputs ARE generated, to check that the implementation still equals the model there',
                   'Filter predicates and Map functions are pure and total (test callables: key mod m == r, x -> a*key+b)')
    def compare(self, case, c_out, m_out): return compare_outputs(c_out, m_out)
    def cases(self, rng, tier, boost=1):
        quick = tier == 'quick'
        cs = []
        def chunked(name, lines, size=4000):
            for i in range(0, len(lines), size): cs.append(Case(f'{name}_{i // size}', lines[i:i + size]))
        # (1) every container at every length 0 … 40, and some large ones
        lines = []
        for kind in ('array', 'list', 'tuple', 'table', 'tree', 'rtree', 'range'):
            for n in range(0, 41 if quick else 81):
                lines.append('W ' + base(rng, n, (kind,)))
            for n in ((97, 200) if quick else (97, 200, 256, 300)):
                lines.append('W ' + base(rng, n, (kind,)))
        chunked('containers', lines, 200)
        # (2) Range: every (start, stop, step) of the cube, all arities, `_`
        R = 9 if quick else 20
        rv = range(-R, R + 1)
        lines = [f'W (range {a} {b} {c})' for a in rv for b in rv for c in rv]
        lines += ['V (range)', 'W (range)'] + [f'V (range {b})' for b in rv] + [f'V (range {a} {b})' for a in ['_'] + list(rv) for b in rv]
        lines += [f'V (range _ {b} {c})' for b in rv for c in ['_'] + list(rv)] + [f'V (range {a} {b} _)' for a in rv for b in rv]
        lines += [f'V (range {a} {b} {c})' for a in (-7, 0, 3) for b in rv for c in rv]
        lines += [f'W (range {rng.randint(-10**6, 10**6)} {rng.randint(-10**6, 10**6)} {rng.choice([-1, 1]) * rng.randint(10**3, 10**6)})' for _ in range(300 * boost)]
        chunked('range', lines)
        # (3) Slice: every (start, stop, step) of the cube over every length, per underlying kind
        NS = 8 if quick else 24
        for kind, Rk in (('array', 9), ('tuple', 9), ('range', 9), ('list', 3), ('table', 3), ('tree', 3), ('zip', 3), ('map', 3), ('range3', 4)):
            if not quick: Rk = {'array': 10, 'tuple': 10, 'range': 10}.get(kind, 4)
            for n in range(0, NS + 1):
                chunked(f'slice_{kind}{n}', sweep(kind, n, Rk, with_blank=True), 8000)
        if not quick:
            for kind in ('array', 'tuple'):
                for n in (0, 1, 7, 24):
                    chunked(f'slicewide_{kind}{n}', sweep(kind, n, 20), 12000)
        # Slice_Arg / slice_stack alone
        lines = []
        for n in range(0, 13):
            av = ['_'] + [str(x) for x in range(-15, 16)]
            lines += [f'S {n} {a} {b} {c}' for a in av for b in av for c in ('_', '-2', '3')] + [f'S {n} {b}' for b in av] + [f'S {n}']
        chunked('slicearg', lines, 10000)
        # (4) Zip of 1–4 inputs, equal and unequal lengths; enumerate
        lines = []
        for _ in range((400 if quick else 6000) * boost):
            k = rng.randint(1, 4); n = rng.randint(0, 12)
            eq = rng.random() < 0.5
            parts = [base(rng, n if eq else rng.randint(0, 12)) for _ in range(k)]
            lines.append(f"{rng.choice('WV')} (zip {' '.join(parts)})")
        for n in range(0, 20):
            for kind in ('array', 'list', 'tuple', 'range', 'table', 'tree'): lines.append(f"{'WV'[n % 2]} (enum {base(rng, n, (kind,))})")
        lines.append('W (zip)')
        chunked('zip', lines, 500)
        # (5) compositions of views up to depth 3 (4 in thorough): outside known-finding territory and arbitrary
        lines = []
        for _ in range((1500 if quick else 30000) * boost):
            d = rng.randint(1, 3 if quick else 4); n = rng.randint(0, 10)
            lines.append(rng.choice('WV') + ' ' + lawful_view(rng, d, n)[0])
        chunked('lawful', lines, 500)
        lines = []
        for _ in range((1500 if quick else 30000) * boost):
            d = rng.randint(1, 3 if quick else 4); n = rng.randint(0, 9)
            lines.append(rng.choice('WV') + ' ' + any_view(rng, d, n)[0])
        chunked('anyview', lines, 500)
        return cs
    def nontrivial_items(self, case, c_out, m_out):
        ops = [l for l in case.lines if l and not l.startswith('#')]
        obs = core.lines_with('O ', c_out)
        out = set()
        for op, o in zip(ops, obs):
            m = LINE.match(o)
            if o == 'O crash' or (m and (len(_items(m.group(1))) >= 2 or m.group(2) != 'term' or m.group(4) != 'term')): out.add(hash(op))
        return out
    def stats(self, case, c_out, m_out, acc):
        for l in core.lines_with('O ', c_out):
            acc['observations'] = acc.get('observations', 0) + 1
            if l == 'O crash': acc['worker_crashes'] = acc.get('worker_crashes', 0) + 1; continue
            m = LINE.match(l)
            if m:
                acc['items_forward'] = acc.get('items_forward', 0) + len(_items(m.group(1)))
                for e in (m.group(2), m.group(4)): acc['end_' + e] = acc.get('end_' + e, 0) + 1
            elif l.startswith('O construct='): acc['construct_errors'] = acc.get('construct_errors', 0) + 1
        for l in core.lines_with('O ', m_out):
            if '=ub' in l: acc['model_says_ub'] = acc.get('model_says_ub', 0) + 1
        for op in case.lines:
            for h in ('slice', 'reverse', 'zip', 'enum', 'filter', 'map', 'range', 'array', 'list', 'tuple', 'table', 'tree', 'rtree'):
                if op[2:].startswith('(' + h + ' ') or op[2:] == '(' + h + ')': acc['top_' + h] = acc.get('top_' + h, 0) + 1
            if op.startswith('V '): acc['built_with_stack_macros'] = acc.get('built_with_stack_macros', 0) + 1
        for l in core.lines_with('X ', c_out):
            sg = re.search(r'sig=(\S+)', l)
            if sg: acc['oracle_' + sg.group(1)] = acc.get('oracle_' + sg.group(1), 0) + 1

SPEC = C11()
