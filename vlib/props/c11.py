"""C11 — iteration agrees with len and get, forwards and backwards, for views too (engine iter)."""
import re
from ..runner import Spec, Case
from .. import core

LINE = re.compile(r'O f=\[(.*?)\] fe=(\S+) b=\[(.*?)\] be=(\S+) len=(\S+) get=(.*)$')
GLINE = re.compile(r'O g=\[(.*?)\] ge=(\S+)$')

def _items(s): return s.split(' ') if s else []

def cmp_lines(c, m):
    """compare one harness observation with the model's.  Where the model says the C code leaves the protocol
    (`ub`: Terminal used as a cursor; `hang`) the implementation's behaviour from that point on is not compared:
    the items before that point must still agree."""
    if c == m: return None
    if c == 'O crash':
        return None if ('=ub' in m or '=hang' in m) else 'implementation crashed where the model predicts a defined result'
    if m.startswith('O mem='):      # `M`: the model's `ub` (Terminal compared with the key) shows as a stray exception
        if m in ('O mem=ub', 'O mem=hang') and c == 'O mem=exc': return None
        return 'mem differs'
    ga, gb = GLINE.match(c), GLINE.match(m)
    if ga and gb:       # `G`: a walk whose body calls get
        ci, mi = _items(ga.group(1)), _items(gb.group(1))
        if gb.group(2) in ('ub', 'hang'):
            k = min(len(mi), 16) if ga.group(2) == 'fuel' else len(mi)
            return None if ci[:k] == mi[:k] else 'items of the walk with get before the model leaves the protocol differ'
        return 'walk with get differs'
    a, b = LINE.match(c), LINE.match(m)
    if not a or not b: return 'different kind of observation'
    for (ci, ce, mi, me, what) in ((a.group(1), a.group(2), b.group(1), b.group(2), 'forward'), (a.group(3), a.group(4), b.group(3), b.group(4), 'backward')):
        ci, mi = _items(ci), _items(mi)
        if me in ('ub', 'hang'):
            k = min(len(mi), 16) if ce == 'fuel' else len(mi)
            if ci[:k] != mi[:k]: return f'{what} items before the model leaves the protocol differ'
        else:
            if ci != mi or ce != me: return f'{what} walk differs'
    if a.group(5) != b.group(5): return 'len differs'
    if a.group(6) != b.group(6): return 'get differs'
    return None

def compare_outputs(c_out, m_out):
    a, b = core.lines_with('O ', c_out), core.lines_with('O ', m_out)
    for i in range(max(len(a), len(b))):
        x = a[i] if i < len(a) else '<missing>'
        y = b[i] if i < len(b) else '<missing>'
        if cmp_lines(x, y): return i, x, y
    return None

# ------------------------------------------------------------------------------------------------ generators
def ints(rng, n, lo=-50, hi=50): return [rng.randint(lo, hi) for _ in range(n)]

def base(rng, n, kinds=('array', 'list', 'tuple', 'table', 'tree', 'rtree', 'range', 'mlist', 'marray', 'mtable', 'mtree')):
    """a container expression with exactly n elements (distinct tuple ids: repeated ids are known finding F13);
    m… = a container that reaches n elements through a history of mutations"""
    k = rng.choice(kinds)
    if k in ('mlist', 'marray', 'mtable', 'mtree'): return mut_base(rng, n, k[1:])
    if k in ('array', 'list'): return f"({k} {' '.join(map(str, ints(rng, n)))})".replace(' )', ')')
    if k == 'tuple': return f"(tuple {' '.join(map(str, rng.sample(range(2000), n)))})".replace(' )', ')')
    if k == 'table':
        nslots = n + rng.randint(0, n + 3)
        occ = set(rng.sample(range(nslots), n)) if nslots else set()
        keys = rng.sample(range(-999, 1000), n)
        it = iter(keys)
        return f"(table {' '.join(str(next(it)) if i in occ else '.' for i in range(nslots))})".replace(' )', ')')
    if k == 'tree':
        keys = sorted(rng.sample(range(-999, 1000), n))
        def shape(lo, hi):
            if lo >= hi: return '.'
            mid = rng.randrange(lo, hi)
            return f'({shape(lo, mid)} {keys[mid]} {shape(mid + 1, hi)})'
        return f'(tree {shape(0, n)})'
    if k == 'rtree':
        keys = rng.sample(range(-999, 1000), n); extra = [rng.choice(keys) for _ in range(rng.randint(0, 2))] if keys else []
        ks = keys + extra; rng.shuffle(ks)
        return f"(rtree {' '.join(map(str, ks))})".replace(' )', ')')
    # range with exactly n elements
    step = rng.choice([1, 1, 2, 3, -1, -2, 5])
    start = rng.randint(-20, 20)
    if n == 0: return rng.choice(['(range)', f'(range {start} {start - rng.randint(0, 5)} {step})', f'(range {start} {start + 5} 0)'])
    stop = start + abs(step) * (n - 1) + rng.randint(1, abs(step))
    return f'(range {start} {stop} {step})'

def lawful_view(rng, depth, n):
    """composition of views that stays outside every known-finding territory: full slices / reverse, zips of equal
    length, enumerate, filter, map"""
    if depth <= 0: return base(rng, n), n, True
    r = rng.random()
    if r < 0.2:
        e, m, haslen = lawful_view(rng, depth - 1, n)
        if not haslen: return e, m, haslen
        return rng.choice([f'(reverse {e})', f'(slice {e})', f'(slice {e} _ _ 1)', f'(slice {e} 0 {m})', f'(slice {e} 0 _ -1)', f'(slice {e} {m})']), m, True
    if r < 0.45:
        k = rng.randint(1, 4); parts = []
        for _ in range(k):
            e, m, haslen = lawful_view(rng, depth - 1, n)
            while m != n or not haslen: e, m, haslen = lawful_view(rng, 0, n)
            parts.append(e)
        return f"(zip {' '.join(parts)})", n, True
    if r < 0.6:
        e, m, haslen = lawful_view(rng, depth - 1, n)
        if not haslen: return e, m, haslen
        return f'(enum {e})', m, True
    if r < 0.8:
        e, m, haslen = lawful_view(rng, depth - 1, n)
        mod = rng.randint(1, 4); res = rng.randrange(mod)
        return f'(filter {e} {mod} {res})', -1, False     # length unknown to the generator
    e, m, haslen = lawful_view(rng, depth - 1, n)
    return f'(map {e} {rng.randint(-3, 3)} {rng.randint(-5, 5)})', m, haslen

def any_view(rng, depth, n):
    """arbitrary composition (may enter known-finding territory: partial slices, unequal zips); returns (expr, has_len)"""
    if depth <= 0: return base(rng, rng.choice([n, n, max(0, n - 1), n + 2])), True
    r = rng.random()
    def arg(): return rng.choice(['_', str(rng.randint(-n - 2, n + 2)), str(rng.randint(0, n + 1))])
    if r < 0.3:
        e, hl = any_view(rng, depth - 1, n)
        if not hl: return e, hl
        k = rng.randint(0, 3)
        args = [arg() for _ in range(k)]
        if k == 3: args[2] = rng.choice(['_', '1', '-1', '2', '-2', '3', '0', str(rng.randint(-4, 4))])
        if k >= 1 and args[0 if k == 1 else 1] == '_' and k < 3 and rng.random() < 0.5: pass
        return (f"(slice {e} {' '.join(args)})".replace(' )', ')') if rng.random() < 0.85 else f'(reverse {e})'), True
    if r < 0.5:
        k = rng.randint(1, 4); parts = [any_view(rng, depth - 1, n) for _ in range(k)]
        return f"(zip {' '.join(p[0] for p in parts)})", all(p[1] for p in parts)
    if r < 0.6:
        e, hl = any_view(rng, depth - 1, n)
        if not hl: return e, hl
        return f'(enum {e})', True
    if r < 0.8:
        e, hl = any_view(rng, depth - 1, n)
        mod = rng.randint(1, 4)
        return f'(filter {e} {mod} {rng.randrange(mod)})', False
    e, hl = any_view(rng, depth - 1, n)
    return f'(map {e} {rng.randint(-3, 3)} {rng.randint(-5, 5)})', hl


HELD = ('array', 'list', 'tuple', 'table', 'tree', 'rtree', 'mlist', 'marray', 'mtable', 'mtree')
def held_view(rng, n, kinds=HELD):
    """an expression of n items whose cursor is held by the caller and whose `get` leaves a walk alone: a container,
    possibly under whole-sequence slices / a filter that accepts everything it is asked about (length then unknown)"""
    e = base(rng, n, kinds)
    r = rng.random()
    if r < 0.25: return rng.choice([f'(slice {e})', f'(slice {e} _ _ 1)', f'(reverse {e})', f'(slice {e} 0 {n})']), n
    if r < 0.40: return f'(filter {e} {rng.randint(1, 3)} 0)', -1
    return e, n

def get_walk_lines(rng, count):
    """`G i k e`: (a) objects whose get is pure — any i, any k (also out of range: the exception is swallowed);
    (b) Range / Map / Zip / enumerate with k = the index of the item just handed out (get writes the very value the
    cursor holds: the walk must go on undisturbed)"""
    out = []
    for _ in range(count):
        n = rng.randint(0, 9)
        if rng.random() < 0.6:
            # (no white-box `table`: its slot array may be full, and Table_Get of an absent key then probes for ever)
            e, m = held_view(rng, n, tuple(k for k in HELD if k != 'table'))
            i = rng.randint(0, max(0, n)); k = rng.randint(-n - 2, n + 1)
        else:
            kind = rng.choice(('range', 'map', 'zip', 'enum', 'slice'))
            b = base(rng, n, ('array', 'list', 'marray', 'mlist'))
            if kind == 'range': e = f'(range {n})'
            elif kind == 'map': e = f'(map {b} {rng.randint(-3, 3)} {rng.randint(-5, 5)})'
            elif kind == 'zip': e = f"(zip {b} {base(rng, n, ('array', 'list', 'range'))})"
            elif kind == 'enum': e = f'(enum {b})'
            else: e = f'(slice (range {n}))'
            i = rng.randint(0, max(0, n - 1)); k = i if rng.random() < 0.7 or n == 0 else i - n
        out.append(f'G {i} {k} {e}')
    return out

def c_range_len(a, b, c):
    if c == 0 or b <= a: return 0
    return (b - 1 - a) // abs(c) + 1
def range_values(a, b, c):
    return [a + c * j for j in range(c_range_len(a, b, c))] if c > 0 else [b - 1 + c * j for j in range(c_range_len(a, b, c))]
def range_mem_deviates(a, b, c, k):
    """Range_Mem tests key + len for a negative key: does that differ from the membership of the key itself?"""
    if k >= 0: return False
    vals = set(range_values(a, b, c))
    return (k in vals) != ((k + c_range_len(a, b, c)) in vals)

def mem_lines(rng, count, slice_absent=False, range_neg=False):
    """`M k e`: Range_Mem (non-negative keys, and negative ones on which key and key+len agree), Slice_Mem with a key that is in the
    slice, Filter_Mem / Map_Mem with any key.  slice_absent / range_neg: the territories of kf-c11-slice-mem / kf-c11-range-mem"""
    out = []
    for _ in range(count):
        r = rng.random()
        if r < 0.4:
            a, b, c = rng.randint(-12, 12), rng.randint(-12, 14), rng.choice([1, 1, 2, 3, -1, -2, -3, 5, 0, rng.randint(-6, 6)])
            k = rng.randint(-14, 16)
            if range_mem_deviates(a, b, c, k) and not range_neg: k = -k
            out.append(f'M {k} (range {a} {b} {c})')
        elif r < 0.75:
            n = rng.randint(0, 8); vals = ints(rng, n, -9, 9)
            kind = rng.choice(('array', 'list', 'tuple', 'range', 'map'))
            if kind == 'tuple': vals = rng.sample(range(30), n)
            if kind == 'range': vals = list(range(n)); b = f'(range {n})'
            elif kind == 'map': b = f"(map (list {' '.join(map(str, vals))}) 2 1)".replace(' )', ')'); vals = [2 * v + 1 for v in vals]
            else: b = f"({kind} {' '.join(map(str, vals))})".replace(' )', ')')
            e = rng.choice([f'(slice {b})', f'(reverse {b})', f'(slice {b} _ _ 1)', f'(slice {b} 0 {n})', f'(slice {b} 0 _ -1)'])
            if slice_absent and rng.random() < 0.6:
                if rng.random() < 0.5: e = f"(slice {b} {rng.randint(-n - 1, n + 1)} {rng.randint(-n - 1, n + 1)} {rng.choice([1, 2, -1, -2, 3, 0])})"
                k = rng.randint(-12, 40)
            elif vals: k = rng.choice(vals)
            else: continue
            out.append(f'M {k} {e}')
        else:
            n = rng.randint(0, 8); b = base(rng, n, ('array', 'list', 'range', 'marray', 'mlist', 'tuple'))
            e = rng.choice([f'(filter {b} {rng.randint(1, 3)} {rng.randint(0, 2)})', f'(map {b} {rng.randint(-2, 3)} {rng.randint(-3, 3)})',
                            f'(map (filter {b} 2 {rng.randint(0, 1)}) 1 1)', f'(filter (reverse {b}) 1 0)'])
            out.append(f'M {rng.randint(-10, 30)} {e}')
    return out

I64MIN, I64MAX = -2**63, 2**63 - 1
def range_fits(a, b, c, d):
    """RangeFitsFwd (d = 0) / RangeFitsBwd (d = 1) of lean/Cello/Iter.lean"""
    ok = lambda x: I64MIN <= x <= I64MAX
    if c == 0: return True
    n = c_range_len(a, b, c)
    if d == 0: return ok(a + c * n) if c > 0 else (ok(b - 1) and ok(b - 1 + c * n))
    if not (b <= a or (ok(b - 1) and ok(b - 1 - a) and (c > 0 or ok(-c)))): return False
    if n == 0: return True
    return ok(a - c) if c > 0 else ok(b - 1 - c)

def range64_lines(rng, count, overflow=False):
    """`R a b c`: Ranges near the limits of int64_t with few elements; overflow: also those whose walk leaves int64_t
    (territory of kf-c11-range-overflow)"""
    out = []
    while len(out) < count:
        edge = rng.choice([I64MAX, I64MIN, I64MAX, I64MIN, 0])
        n = rng.randint(0, 12)
        c = rng.choice([1, 2, 3, 7, -1, -2, -5, rng.randint(1, 10**6), -rng.randint(1, 10**6), rng.choice([1, -1]) * rng.randint(2**40, 2**62), I64MAX, I64MIN])
        span = abs(c) * n + rng.randint(0, min(abs(c), 50))
        if edge > 0: b = edge - rng.randint(0, 3 * min(abs(c), 40)); a = b - span
        elif edge < 0: a = edge + rng.randint(0, 3 * min(abs(c), 40)); b = a + span
        else: a = -(span // 2); b = a + span
        if rng.random() < 0.1: a, b = b, a
        if not (I64MIN <= a <= I64MAX and I64MIN <= b <= I64MAX): continue
        if c_range_len(a, b, c) > 900: continue
        if not overflow and not (range_fits(a, b, c, 0) and range_fits(a, b, c, 1)): continue
        out.append(f'R {a} {b} {c}')
    return out

def registered(sig):
    """is a known finding with this oracle signature recorded in KNOWN_FINDINGS.txt (then inputs in its territory are generated
    too, to check that the implementation still equals the model there; until then they live in its witness file only)"""
    return any(k['kind'] == 'finding' and k['fields'].get('sig') == sig for k in core.known_findings('C11'))

def disturbing_get_lines(rng, count):
    """`G i k e` on Range / Map / Zip / enumerate / Slice-of-Range with ANY k: territory of kf-c11-get-walk"""
    out = []
    for _ in range(count):
        n = rng.randint(1, 9)
        b = base(rng, n, ('array', 'list', 'marray', 'mlist', 'tuple'))
        e = rng.choice([f'(range {n})', f'(range {rng.randint(-5, 5)} {rng.randint(-5, 12)} {rng.choice([1, 2, -1, -2, 3])})',
                        f'(map {b} {rng.randint(-3, 3)} {rng.randint(-5, 5)})', f"(zip {b} {base(rng, n, ('array', 'list', 'range'))})",
                        f'(enum {b})', f'(slice (range {n}))', f'(reverse (range {n}))', f'(map (map {b} 1 1) 2 0)',
                        f'(filter (map {b} 1 0) 2 0)', f'(zip (map {b} 1 0) (range {n}))'])
        out.append(f'G {rng.randint(0, n)} {rng.randint(-n - 1, n)} {e}')
    return out

def alias_zip_lines(rng, count):
    """`Z k e` for objects whose cursor lives inside them: territory of kf-c11-zip-alias"""
    out = []
    for _ in range(count):
        n = rng.randint(0, 9)
        b = base(rng, n, ('array', 'list', 'tuple', 'marray'))
        e = rng.choice([f'(range {n})', f'(range 0 {n} 2)', f'(map {b} 1 0)', f'(zip {b} (range {n}))', f'(enum {b})',
                        f'(filter (range {n}) 2 0)', f'(slice (range {n}))', f'(reverse (map {b} 2 1))'])
        out.append(f'Z {rng.randint(2, 4)} {e}')
    return out

def zip_same_lines(rng, count):
    """`Z k e`: one object k times in a Zip, for objects whose cursor is the pointer the caller holds"""
    out = []
    for _ in range(count):
        n = rng.randint(0, 8)
        e, m = held_view(rng, n)
        out.append(f'Z {rng.randint(1, 4)} {e}')
    return out

# ------------------------------------------------------------------------------------------------ mutated containers
def sim_seq(kind, vals, op):
    """documented meaning of one mutation of a List / Array on a python list (in place); an invalid one changes nothing"""
    n = len(vals); h = op[0]
    if h == 'push': vals.append(op[1])
    elif h == 'pop':
        if n: vals.pop()
    elif h == 'push_at':
        v, i = op[1], op[2]
        if kind == 'list':
            if i == 0: vals.insert(0, v)
            else:
                j = i + n if i < 0 else i
                if 0 <= j < n: vals.insert(j, v)
        else:
            j = i + n + 1 if i < 0 else i
            if 0 <= j <= n: vals.insert(j, v)
    elif h == 'pop_at':
        j = op[1] + n if op[1] < 0 else op[1]
        if 0 <= j < n: del vals[j]
    elif h == 'rem':
        if op[1] in vals: vals.remove(op[1])
    elif h == 'put':
        j = op[1] + n if op[1] < 0 else op[1]
        if 0 <= j < n: vals[j] = op[2]
    elif h == 'concat': vals.extend(op[1:])
    elif h == 'resize':
        m = op[1]
        if m < n: del vals[m:]
        elif kind == 'list': vals.extend([0] * (m - n))

def sim_keyed(kind, keys, op):
    h = op[0]
    if h == 'set':
        if op[1] not in keys: keys.append(op[1])
    elif h == 'rem':
        if op[1] in keys: keys.remove(op[1])
    elif h == 'resize':
        if op[1] == 0: del keys[:]

def op_str(op): return '(' + ' '.join(str(x) for x in op) + ')'
def mut_str(kind, init, ops):
    return f"(mut {kind} ({' '.join(map(str, init))})" + ''.join(' ' + op_str(o) for o in ops) + ')'

def rand_sop(rng, kind, vals, wild=0.15):
    """a random mutation of a List / Array holding `vals`: mostly valid, at and around the boundaries; `wild`: invalid ones"""
    n = len(vals)
    def idx(extra=0):      # an index: head, tail, middle, negative, just outside
        if rng.random() < wild: return rng.choice([n + extra, n + extra + 1, -n - 1 - extra, -n - 2 - extra, 99, -99])
        if n + extra == 0: return 0
        return rng.choice([0, 0, n + extra - 1, -1, -(n + extra), rng.randrange(n + extra), -rng.randint(1, n + extra)])
    v = rng.randint(0, 9)
    r = rng.random()
    if r < 0.14: return ('push', v)
    if r < 0.24: return ('pop',)
    if r < 0.40: return ('push_at', v, idx(1 if kind == 'array' else 0))
    if r < 0.58: return ('pop_at', idx())
    if r < 0.72: return ('rem', rng.choice(vals) if vals and rng.random() > wild else rng.randint(0, 12))
    if r < 0.80: return ('put', idx(), v)
    if r < 0.88: return ('concat',) + tuple(rng.randint(0, 9) for _ in range(rng.randint(0, 3)))
    return ('resize', rng.choice([0, 0, n, max(0, n - 1), max(0, n - 2), n + 1, n + 3, rng.randint(0, n + 4)]))

def rand_seq_history(rng, kind, n0, nops, wild=0.15):
    init = [rng.randint(0, 9) for _ in range(n0)]; vals = list(init); ops = []
    for _ in range(nops):
        op = rand_sop(rng, kind, vals, wild); ops.append(op); sim_seq(kind, vals, op)
    return init, ops, vals

# keys that collide in the small slot arrays of Table (sizes 5, 11, 23, 53): displacement on insertion, back-shift on removal
KEYPOOLS = [[0, 5, 10, 15, 20, 25, 55, 110, 1, 6, 11], [3, 14, 25, 36, 47, 58, 69, 4, 15, 26], [7, 30, 53, 76, 99, 122, 8, 31, 54, -16, -39],
            list(range(-6, 14)), [2, 55, 108, 161, 214, 3, 56, 109, 4, 57, -51, -104]]
def rand_keyed_history(rng, kind, n0, nops, wild=0.15):
    pool = rng.choice(KEYPOOLS); init = rng.sample(pool, min(n0, len(pool))); keys = list(init); ops = []
    for _ in range(nops):
        r = rng.random()
        if r < 0.45: op = ('set', rng.choice(pool))
        elif r < 0.90: op = ('rem', rng.choice(keys) if keys and rng.random() > wild else rng.choice(pool))
        else: op = ('resize', rng.choice([0, len(keys), len(keys) + 3, 30, 1] if rng.random() < 0.8 else [max(0, len(keys) - 1)]))
        ops.append(op); sim_keyed(kind, keys, op)
    return init, ops, keys

def mut_base(rng, n, kind):
    """a mutated container that holds exactly n elements after its history (no invalid mutation)"""
    if kind in ('list', 'array'):
        init, ops, vals = rand_seq_history(rng, kind, rng.randint(0, n + 3), rng.randint(1, 6), wild=0)
        while len(vals) > n:
            op = rng.choice([('pop',), ('pop_at', 0), ('pop_at', -1), ('pop_at', rng.randrange(len(vals))), ('rem', rng.choice(vals))])
            ops.append(op); sim_seq(kind, vals, op)
        while len(vals) < n:
            op = rng.choice([('push', rng.randint(0, 9)), ('push_at', rng.randint(0, 9), 0)] + ([('push_at', rng.randint(0, 9), rng.randrange(len(vals)))] if vals else []))
            ops.append(op); sim_seq(kind, vals, op)
        return mut_str(kind, init, ops)
    init, ops, keys = rand_keyed_history(rng, kind, rng.randint(0, n + 3), rng.randint(1, 6), wild=0)
    pool = [k for k in range(-40, 200)]
    while len(keys) > n: op = ('rem', rng.choice(keys)); ops.append(op); sim_keyed(kind, keys, op)
    while len(keys) < n:
        op = ('set', rng.choice([k for k in pool if k not in keys])); ops.append(op); sim_keyed(kind, keys, op)
    return mut_str(kind, init, ops)

def single_sops(kind, n):
    """every single mutation of a List / Array holding 10 … 10+n-1 that differs in position or validity"""
    ops = [('pop',), ('push', 99), ('concat', 1, 2), ('concat',)]
    ops += [('pop_at', i) for i in range(-n - 1, n + 1)]
    ops += [('push_at', 99, i) for i in range(-n - 2, n + 2)]
    ops += [('rem', 10 + i) for i in range(n)] + [('rem', 5)]
    ops += [('put', i, 77) for i in sorted({0, -1, n, n - 1, -n})]
    ops += [('resize', m) for m in range(0, n + 3)]
    return ops

def fixed_base(kind, n):
    """deterministic container with n elements 10 … 10+n-1 (sweeps)"""
    vals = [10 + i for i in range(n)]
    if kind in ('array', 'list', 'tuple'): return f"({kind} {' '.join(map(str, vals))})".replace(' )', ')')
    if kind == 'range': return f'(range 10 {10 + n})'
    if kind == 'range3': return f'(range 10 {10 + 3 * n} 3)' if n else '(range 10 10 3)'
    if kind == 'table':
        slots = []
        for i, v in enumerate(vals):
            slots += ['.'] * (i % 3 == 1) + [str(v)]
        return f"(table {' '.join(slots + ['.'])})"
    if kind == 'tree':
        def shape(lo, hi):
            if lo >= hi: return '.'
            mid = (lo + hi) // 2 if (hi - lo) % 3 else lo
            return f'({shape(lo, mid)} {vals[mid]} {shape(mid + 1, hi)})'
        return f'(tree {shape(0, n)})'
    if kind == 'zip': return f"(zip (array {' '.join(map(str, vals))}) (range {n}))".replace(' )', ')')
    if kind == 'map': return f"(map (list {' '.join(map(str, vals))}) 2 1)".replace(' )', ')')
    raise ValueError(kind)

def sweep(kind, n, R, with_blank=False):
    b = fixed_base(kind, n)
    rngv = list(range(-R, R + 1))
    out = [f'W (slice {b} {a} {bb} {c})' for a in rngv for bb in rngv for c in rngv]
    if with_blank:      # all arities and `_`, through the slice(…) / reverse(…) macros
        av = ['_'] + [str(x) for x in rngv]
        out += [f'V (slice {b} {a} {bb})' for a in av for bb in av]
        out += [f'V (slice {b} {bb})' for bb in av] + [f'V (slice {b})', f'V (reverse {b})', f'W (reverse {b})']
        out += [f'V (slice {b} _ _ {c})' for c in av] + [f'V (slice {b} {a} _ {c})' for a in rngv for c in (-2, -1, 1, 2)]
        out += [f'V (slice {b} _ {bb} {c})' for bb in rngv for c in (-2, -1, 1, 2)]
    return out


class C11(Spec):
    id = 'C11'; engine = 'iter'; harness = 'h_iter'; driver = 'drv_iter'
    # Table: Cello/IterMut.lean runs the model of Table.c with the parameters read from src/Table.c; Iter (translate/g_iter.py): Slice_Arg,
    # Filter_Iter_*, Table_Iter_Last / _Prev as TERMS interpreted by Cello/IterSrc.lean (C11_slice_arg_source, C11_filter_source, C11_table_*_source)
    generators = ('Table', 'Iter')
    harness_timeout = 600
    technique = ('Lean 4 proofs (induction over walks, lists, trees, Int arithmetic) about an executable state-machine model of the '
                 'iteration protocol that mirrors every Iter instance of the sources; differential check of that model against the real '
                 'library (exhaustive Range and Slice parameter cubes, every container at every small length, random compositions, '
                 'containers MUTATED through the public interface before they are walked — with a white-box comparison of the List link '
                 'words, the Array store, the Table slots); definition-based oracle in C on the same inputs, cursors checked before '
                 'they are dereferenced')
    level_text = ('Theorems (Props/C11.lean, no bound on sizes or nesting): LawfulAs — foreach yields exactly the defined sequence and then '
                  'Terminal, the backward walk its reverse, len its length, get(i) its i-th element — for Array, List, Table (every pattern of '
                  'holes), Tree (every shape, through child/parent pointers), Tuple without a repeated object, Range for ALL (start, stop, step) '
                  'incl. step 0, negative steps, empty ranges; the property is split into a forward half (LawfulFwdAs) and a backward half '
                  '(LawfulBwdAs), LawfulAs = both (C11_lawful_iff_both), and every closure theorem is stated PER DIRECTION (Filter, Map, Zip — '
                  'forward/len/get for inputs of any lengths, backward for equal lengths — enumerate, Slice), hence by induction over the expression '
                  'language that harness and driver interpret (denote_dir): C11_compositions_lawful for every composition of views to any nesting '
                  'depth both of whose walks are outside the known findings, C11_compositions_lawful_fwd / _bwd where one walk is (views over a Zip '
                  'of unequal inputs, over a Slice whose stride fits one way only); len/get are right wherever the object can be constructed '
                  '(C11_spec_coherent). Slice: len/get for all parameters; both walks inside SliceRegionFwd/Bwd over ANY iterable '
                  '(C11_slice_partial, exact over an Array: C11_slice_region_exact_small); over an iterable that answers Terminal to a Terminal '
                  'cursor — Tuple, Range (C11_tuple_absorbs, C11_range_absorbs), Map / Filter / Slice over them — inside the larger regions '
                  'SliceRegionFwdAbs/BwdAbs = "the positions visited are the positions selected", no divisibility condition '
                  '(C11_slice_absorbing, exact over a Tuple: C11_slice_region_abs_exact_small, arithmetic form: C11_slice_region_abs_arith_small). '
                  'get at every index incl. negative ones for Array, List, Tuple, Range, Map, Slice, Zip of equal inputs (C11_get_every_index). '
                  'A loop body that calls get: C11_walk_with_get under the explicit hypothesis "no get during the walk, or an object whose get '
                  'leaves the cursor alone" (containers, Slice / Filter over them: C11_get_pure_objects). One object k times in a Zip: right when '
                  'the cursor is the pointer the caller holds (C11_zip_same_object_cursor_held). The full statements for Slice, Zip backward, '
                  'Zip get at negative indices, Tuple, get during a walk over Range / Map / Zip, and one Range / Map / Zip object twice in a Zip '
                  'are refuted on concrete witnesses (known findings). Range on int64_t (rangeI64, every signed operation with its overflow test): '
                  'C11_range64_lawful per direction under RangeFitsFwd / RangeFitsBwd (the value one step beyond the last / before the first element fits), '
                  'C11_range64_refuted without. Zip of no inputs: C11_zip_no_inputs (the Zip theorems no longer exclude it). mem: C11_mem_foreach '
                  '(Filter / Map / Zip: exactly membership), C11_slice_mem_partial / _never_false / _refuted (Slice_Mem finds a present key and never '
                  'answers false), C11_range_mem_is / _partial / _refuted (Range_Mem answers the membership of key+len for a negative key). '
                  'The model is tied to the code on '
                  'every run: all 19^3 Range and 9*19^3 Slice parameter triples over Array/Tuple/Range (and smaller cubes over List, Table, '
                  'Tree, Zip, Map) produce the same items, end markers, len and get in C and in Lean. '
                  'MUTATED containers (Cello/IterMut.lean): List is modelled with its head / tail / next / prev link words and List_Link, '
                  'List_Unlink, List_At statement by statement; C11_list_step_keeps_links / C11_list_history_keeps_links: EVERY history of '
                  'push, pop, push_at, pop_at, rem, set, concat, resize keeps the doubly-linked invariant (prev(head) = next(tail) = NULL, '
                  'prev(next(x)) = x, nitems = number of nodes) without ever touching NULL or a freed node, so (C11_list_mutated_lawful) the '
                  'walk along next, the walk along prev, len and get are lawful after any history; the same for Array over its backing '
                  'store with Reserve_More / Reserve_Less and the memmoves (C11_array_mutated_lawful), for Table after any history of '
                  'set / rem / resize through the representation invariant of C02 (C11_table_mutated_lawful: len = nitems FIELD = number '
                  'of bindings, keys each once), and for every Tree shape whose nitems field counts its nodes (C11_tree_field_lawful). '
                  'EXTRACTED code (translate/g_iter.py -> CelloGen/Iter.lean, interpreter Cello/IterSrc.lean with C\'s conversions): Slice_Arg statement '
                  'by statement (C11_slice_arg_source: = sliceArg for every n < 2^63 and every int64 argument; C11_slice_arg_source_clamps; '
                  'C11_slice_stack_source), the four Filter functions as (first call, skipping call) pairs (C11_filter_source, C11_filter_source_lawful: '
                  'forwards AND backwards), Table_Iter_Last / Table_Iter_Prev as loop programs over a size_t index / a pointer (C11_table_last_source, '
                  'C11_table_prev_source, C11_table_source_lawful: every slot pattern, down to and including slot 0, never outside the array; '
                  'C11_table_last_tidied_refuted: the `for (i = nslots-1; i > 0; i--)` rewrite loses slot 0).')
    level_note = ('Trusted: Lean kernel; axioms propext/Quot.sound/Classical.choice; the hand-written model Cello/Iter.lean (validated by the '
                  'harness/driver comparison, which is testing); harness/h_iter.c and lean/Driver/Iter.lean. Inside known-finding territory '
                  '(Slice outside its region, backward walk / negative get over a Zip of unequal inputs, Tuple with a repeated object, get on a '
                  'Range / Map / Zip during a walk, one such object twice in a Zip, mem on a Slice with an absent key, mem on a Range with a negative key, '
                  'a Range whose walk leaves int64_t) the property is known to FAIL; '
                  'there the check only verifies that the implementation still behaves as the model predicts. Where the model says the C code '
                  'leaves the protocol (Terminal used as a cursor: `ub`) the implementation is executed in a forked worker and only the '
                  'items before that point are compared. Signed overflow of Range values is `ub` in rangeI64 (the harness runs under UBSan); the '
                  'composition theorems use the Range on Int. Every element of the generated containers is an Int (the element-size stride of '
                  'Array / Table iteration is exercised by C04 / C10 / C02, not here); pointer identity of Filter/Map callables is '
                  'not modelled. Tree iterates in DESCENDING key order (Tree_Set keeps the greater key on the left); C11 does not fix an order. '
                  'A mutated Tree is modelled by a plain binary-search shape with the nitems field (rotations do not change the in-order '
                  'sequence and the iteration theorem holds for every shape); Tree.c\'s own shapes are the subject of C03, and the harness '
                  'checks the child / parent links, key order and nitems of the real tree after every history.')
    rule = ('op files of iterable expressions: (1) every container kind (Array, List, Tuple, white-box Table slot arrays with holes, white-box '
            'Tree shapes, Tree built with set, Range) at every length 0..40 (80 thorough) and some large; (2) every Range (start, stop, step) '
            'in [-9,9]^3 ([-20,20]^3 thorough), all constructor arities and `_`, plus random large ranges; (3) every Slice (start, stop, step) '
            'in [-9,9]^3 over Tuple and Range of every length 0..8, over Array in [-5,5]^3 at every length 0..8 and [-9,9]^3 at lengths 3 and 8 '
            '([-10,10]^3 over 0..24 and [-20,20]^3 at four lengths for all three, thorough), '
            'smaller cubes over List, Table, Tree, Map (lengths 0..5 quick, 0..24 thorough), Zip, a strided Range; all arities/`_`/reverse through the stack macros; Slice_Arg '
            'alone for n <= 12, args in [-15,15]; (4) Zip of 1-4 random inputs of equal and unequal lengths, enumerate of every kind; '
            '(5) random compositions of views to depth 3 (4 thorough), half of them built with the stack macros: one family stays outside '
            'known-finding territory, one is arbitrary. Each op is walked with foreach and backwards, len and get(0..len-1) are read; harness '
            'and driver must print the same line; the C oracle compares with the definition. (6) MUTATED containers `(mut kind (init) op…)`: '
            'every single mutation (pop, pop_at / push_at at every index incl. negative and out of range, rem of every element and of an absent '
            'one, set, concat, resize to every size) of a List / Array of every length 0..6 (0..9 thorough), every pair of mutations for lengths '
            '0..3 (0..5), random histories of up to 12 (40) mutations on List, Array, Table (keys colliding in the small slot arrays), Tree, '
            'some with every prefix, growth to 60 / 120 elements and back; each as an `L` line (white-box layout: link words by position, store, '
            'slots, outcome of every mutation) and as a `W` line, also under reverse / enumerate / slice / filter / map and as a base of the '
            'random compositions of (5). (7) `G i k e`: foreach whose body calls get(obj, k) after item i — every (i, k) on small containers, '
            'random ones on containers under whole slices / filters (get is pure there: the oracle must stay silent) and on Range / Map / Zip / '
            'enumerate at the index of the item just handed out; `Z k e`: one object k times in a Zip, for objects whose cursor is held by the '
            'caller; the disturbing cases (known findings) are in corpus/kf_c11_get_walk.ops and corpus/kf_c11_zip_alias.ops. '
            '(8) `M k e`: mem(obj, $I(k)) on Range (arithmetic), Slice (`while (curr)`), Filter / Map (foreach) — oracle: k occurs in the defined '
            'sequence; `R a b c`: Ranges of few elements at the limits of int64_t whose walks stay inside it (model side: the int64 machine rangeI64). '
            '(9) extracted code: `S` with arguments at the limits of int64_t and around ±len (oracle: the definition in __int128), Tables with one used slot at every '
            'position of arrays of 1..9 slots (Table_Iter_Last must find slot 0, Table_Iter_Prev must stop below it), Filters that reject at the front / in the '
            'middle / at the back of every container kind; the driver walks the model built from the extracted terms as well and prints a difference. '
            'non-trivial = the forward walk yields at least '
            '2 items or a walk does not end with Terminal (exception / worker crash / cap), or mem answers true / leaves the protocol; distinct = distinct op text.')
    trusted_base = ('lean/Cello/Iter.lean is a hand-written model of src/Iter.c and of the Iter/Len/Get instances of Array, List, Table, Tree, Tuple '
                    '(Slice_Arg, Filter_Iter_Init/Next/Last/Prev, Table_Iter_Last/Prev are ALSO extracted from the source text by translate/g_iter.py and '
                    'proved equal to the hand model; what is trusted there is the translator\'s reading of the C fragment and the interpreter Cello/IterSrc.lean)',
                    'lean/Cello/IterMut.lean is a hand-written model of the mutating functions of src/List.c (link words) and src/Array.c (backing store); '
                    'mutated Tables go through lean/Cello/Table.lean with the parameters of CelloGen/Table.lean (engine C02), mutated Trees through a plain '
                    'binary-search shape (Tree.c\'s shapes: engine C03)',
                    'harness/h_iter.c + lean/Driver/Iter.lean + vlib/props/c11.py compare (correspondence is testing)',
                    'the definition-based reference in harness/h_iter.c (ref_of) is the oracle of link (C)')
    assumptions = ('element counts stay below 2^63 (sizes are Nat); in the composition theorems int64_t is Int: every Range involved is one whose '
                   'walks stay inside int64_t INCLUDING the value one step beyond the last element (Range_Iter_Next adds the step before it compares) '
                   'and as many further steps as an enclosing Slice takes past Terminal — for a Range on its own this is the explicit hypothesis '
                   'RangeFitsFwd / RangeFitsBwd of C11_range64_lawful (the machine with the overflow test of every signed operation), refuted '
                   'without it (C11_range64_refuted; known finding kf-c11-range-overflow, inputs in corpus/kf_c11_range_overflow.ops only)',
                   'mem: Range_Mem is generated with non-negative keys and with negative keys on which key and key+len agree (C11_range_mem_partial; '
                   'the rest is kf-c11-range-mem), Slice_Mem with keys that are in the slice (C11_slice_mem_partial; an absent key is kf-c11-slice-mem); '
                   'once these findings are registered their territories are generated too (the implementation must still equal the model there)',
                   'mutations happen BEFORE a walk, through the public interface (push, pop, push_at, pop_at, rem, set, concat, resize) with arguments that '
                   'are not the container itself; calloc / realloc do not fail; a freed List node is never handed out again while a stale pointer to it exists '
                   '(addresses are not reused in the model)',
                   'the container is not modified during a walk; one walk at a time per iterable object (Range, Map and Zip keep the cursor inside the '
                   'object); no get on a Range / Map / Zip / enumerate (or a Slice over one) between iter_init and Terminal (hypothesis of C11_walk_with_get; '
                   'refuted without: C11_get_disturbs_walk_refuted); the inputs of a Zip are distinct objects unless their cursor is the pointer the caller '
                   'holds (C11_zip_same_object_cursor_held; refuted without: C11_zip_same_object_refuted)',
                   'the oracle treats as known (not as violations) deviations of a walk that no theorem covers (same case analysis as dirOf, per direction): '
                   'a Slice outside its region — SliceRegionFwdAbs/BwdAbs over Tuple / Range / Map / Filter / Slice over them, SliceRegionFwd/Bwd over anything else '
                   '(F11), a backward walk or a negative get that involves a Zip of inputs of unequal length (F12), a Tuple holding one object twice (F13); '
                   'these inputs ARE generated, to check that the implementation still equals the model there; walks with a disturbing get and Zips of one '
                   'in-object iterable are run from the witness files only',
                   'Filter predicates and Map functions are pure and total (test callables: key mod m == r, x -> a*key+b)')
    def compare(self, case, c_out, m_out): return compare_outputs(c_out, m_out)
    def cases(self, rng, tier, boost=1):
        quick = tier == 'quick'
        cs = []
        def chunked(name, lines, size=4000):
            for i in range(0, len(lines), size): cs.append(Case(f'{name}_{i // size}', lines[i:i + size]))
        # (1) every container at every length 0 … 40, and some large ones
        lines = []
        for kind in ('array', 'list', 'tuple', 'table', 'tree', 'rtree', 'range'):
            for n in range(0, 41 if quick else 81):
                lines.append('W ' + base(rng, n, (kind,)))
            for n in ((97, 200) if quick else (97, 200, 256, 300)):
                lines.append('W ' + base(rng, n, (kind,)))
        chunked('containers', lines, 200)
        # (2) Range: every (start, stop, step) of the cube, all arities, `_`
        R = 9 if quick else 20
        rv = range(-R, R + 1)
        lines = [f'W (range {a} {b} {c})' for a in rv for b in rv for c in rv]
        lines += ['V (range)', 'W (range)'] + [f'V (range {b})' for b in rv] + [f'V (range {a} {b})' for a in ['_'] + list(rv) for b in rv]
        lines += [f'V (range _ {b} {c})' for b in rv for c in ['_'] + list(rv)] + [f'V (range {a} {b} _)' for a in rv for b in rv]
        lines += [f'V (range {a} {b} {c})' for a in (-7, 0, 3) for b in rv for c in rv]
        for _ in range(300 * boost):
            a, b, c = rng.randint(-10**6, 10**6), rng.randint(-10**6, 10**6), rng.choice([-1, 1]) * rng.randint(10**3, 10**6)
            while c_range_len(a, b, c) > 900: c *= 2        # the harness caps a walk at 1000 items
            lines.append(f'W (range {a} {b} {c})')
        chunked('range', lines)
        # (3) Slice: every (start, stop, step) of the cube over every length, per underlying kind
        # quick tier: every op whose walk hands Terminal to an Array / List / Table / Tree as a cursor dies under ASan in a forked
        # worker (~10 ms each), so the cubes over those kinds are smaller there (Array: [-5,5]^3 at every length 0..8 and the full
        # [-9,9]^3 at lengths 3 and 8; List / Table / Tree / Map: [-3,3]^3 at lengths 0..5); Tuple and Range (no crash) keep [-9,9]^3 × 0..8
        NS = 8 if quick else 24
        for kind, Rk in (('array', 5), ('tuple', 9), ('range', 9), ('list', 3), ('table', 3), ('tree', 3), ('zip', 3), ('map', 3), ('range3', 4)):
            if not quick: Rk = {'array': 10, 'tuple': 10, 'range': 10}.get(kind, 4)
            top = 5 if quick and kind in ('list', 'table', 'tree', 'map') else NS
            for n in range(0, top + 1):
                chunked(f'slice_{kind}{n}', sweep(kind, n, Rk, with_blank=True), 8000)
        if quick:
            for n in (3, 8): chunked(f'slicefull_array{n}', sweep('array', n, 9), 8000)
        if not quick:
            for kind in ('array', 'tuple'):
                for n in (0, 1, 7, 24):
                    chunked(f'slicewide_{kind}{n}', sweep(kind, n, 20), 12000)
        # Slice_Arg / slice_stack alone
        lines = []
        for n in range(0, 13):
            av = ['_'] + [str(x) for x in range(-15, 16)]
            lines += [f'S {n} {a} {b} {c}' for a in av for b in av for c in ('_', '-2', '3')] + [f'S {n} {b}' for b in av] + [f'S {n}']
        chunked('slicearg', lines, 10000)
        # (4) Zip of 1–4 inputs, equal and unequal lengths; enumerate
        lines = []
        for _ in range((400 if quick else 6000) * boost):
            k = rng.randint(1, 4); n = rng.randint(0, 12)
            eq = rng.random() < 0.5
            parts = [base(rng, n if eq else rng.randint(0, 12)) for _ in range(k)]
            lines.append(f"{rng.choice('WV')} (zip {' '.join(parts)})")
        for n in range(0, 20):
            for kind in ('array', 'list', 'tuple', 'range', 'table', 'tree'): lines.append(f"{'WV'[n % 2]} (enum {base(rng, n, (kind,))})")
        lines.append('W (zip)')
        chunked('zip', lines, 500)
        # (5) compositions of views up to depth 3 (4 in thorough): outside known-finding territory and arbitrary
        lines = []
        for _ in range((1500 if quick else 30000) * boost):
            d = rng.randint(1, 3 if quick else 4); n = rng.randint(0, 10)
            lines.append(rng.choice('WV') + ' ' + lawful_view(rng, d, n)[0])
        chunked('lawful', lines, 500)
        lines = []
        for _ in range((1500 if quick else 30000) * boost):
            d = rng.randint(1, 3 if quick else 4); n = rng.randint(0, 9)
            lines.append(rng.choice('WV') + ' ' + any_view(rng, d, n)[0])
        chunked('anyview', lines, 500)
        # (6) containers MUTATED before they are iterated: layout (L) and walk (W, also under reverse / views) after the history
        lines = []
        for kind in ('list', 'array'):
            for n in range(0, 7 if quick else 10):            # every single mutation at every position, every small length
                init = [10 + i for i in range(n)]
                for op in single_sops(kind, n):
                    e = mut_str(kind, init, [op])
                    lines += [f'L {e}', f'W {e}', f'W (reverse {e})']
            for n in range(0, 4 if quick else 6):             # every pair of mutations
                init = [10 + i for i in range(n)]
                for op1 in single_sops(kind, n):
                    v = list(init); sim_seq(kind, v, op1)
                    for op2 in single_sops(kind, len(v)):
                        if op2[0] == 'rem' and op2[1] >= 10: op2 = ('rem', v[op2[1] - 10]) if op2[1] - 10 < len(v) else op2
                        e = mut_str(kind, init, [op1, op2])
                        lines += [f'L {e}', f'W {e}']
        chunked('mut_sweep', lines, 1500)
        lines = []
        for _ in range((1500 if quick else 40000) * boost):   # random histories, every prefix of some
            kind = rng.choice(('list', 'list', 'array'))
            init, ops, vals = rand_seq_history(rng, kind, rng.randint(0, 8), rng.randint(1, 12 if quick else 40))
            e = mut_str(kind, init, ops)
            lines += [f'L {e}', f"{rng.choice('WWV')} {rng.choice([e, e, f'(reverse {e})', f'(enum {e})', f'(slice {e})', f'(filter {e} 2 0)', f'(map {e} 2 1)'])}"]
            if rng.random() < 0.15:
                for k in range(1, len(ops)): lines += [f'L {mut_str(kind, init, ops[:k])}', f'W {mut_str(kind, init, ops[:k])}']
        for _ in range((700 if quick else 15000) * boost):
            kind = rng.choice(('table', 'tree'))
            init, ops, keys = rand_keyed_history(rng, kind, rng.randint(0, 8), rng.randint(1, 14 if quick else 50))
            e = mut_str(kind, init, ops)
            lines += [f'L {e}', f"{rng.choice('WWV')} {rng.choice([e, e, f'(reverse {e})', f'(enum {e})', f'(filter {e} 2 0)'])}"]
            if rng.random() < 0.15:
                for k in range(1, len(ops)): lines += [f'L {mut_str(kind, init, ops[:k])}', f'W {mut_str(kind, init, ops[:k])}']
        for kind, big in (('list', 60), ('array', 60), ('table', 120), ('tree', 120)):        # grow large, then shrink to nothing
            ks = list(range(big)); rng.shuffle(ks)
            if kind in ('list', 'array'):
                ops = [('push', k) for k in ks] + [rng.choice([('pop_at', 0), ('pop',), ('pop_at', 1)]) for _ in range(big - 3)]
            else:
                ops = [('set', 7 * k) for k in ks] + [('rem', 7 * k) for k in ks[:big - 3]]
            for cut in (big // 2, big, big + big // 2, len(ops)):
                e = mut_str(kind, [], ops[:cut]); lines += [f'L {e}', f'W {e}', f'W (reverse {e})']
        chunked('mut_random', lines, 500)
        # (7) `get` called in the loop body (G), one object several times in a Zip (Z) — outside the known findings
        lines = get_walk_lines(rng, (600 if quick else 12000) * boost) + zip_same_lines(rng, (300 if quick else 6000) * boost)
        for n in range(0, 7):                      # every (i, k) on small pure objects and on a Range at k = i
            for i in range(0, n + 1):
                for k in range(-n - 1, n + 1):
                    lines.append(f"G {i} {k} {fixed_base(('array', 'list', 'tuple')[n % 3], n)}")
                lines.append(f'G {i} {i} (range {n})')
        chunked('get_zip', lines, 500)
        # (8) mem of the Get instances of src/Iter.c (M); Ranges at the limits of int64_t (R)
        lines = mem_lines(rng, (600 if quick else 12000) * boost) + range64_lines(rng, (300 if quick else 6000) * boost)
        chunked('mem_range64', lines, 500)
        # (9) the functions whose text is extracted (CelloGen/Iter.lean): Slice_Arg at the limits, Table down-scans, Filter skip loops
        lines = []
        ext = [I64MIN, I64MIN + 1, I64MAX, I64MAX - 1]
        for n in (0, 1, 5, 12):
            near = [-n - 1, -n, -n + 1, -1, 0, 1, n - 1, n, n + 1]
            for a in ext + near:
                for b in ext + near:
                    lines.append(f'S {n} {a} {b} {rng.choice([I64MAX, I64MIN + 1, 1, -1, 0, 2, -3])}')
            lines += [f'S {n} {rng.choice(ext)}', f'S {n} _ {rng.choice(ext)} _', f'S {n} {rng.choice(ext)} _ -1']
        for ns in range(1, 10):          # one used slot at every position; two used slots at every pair of positions
            for i in range(ns):
                lines.append('W (table ' + ' '.join(str(10 + j) if j == i else '.' for j in range(ns)) + ')')
                for j in range(i + 1, ns):
                    e = '(table ' + ' '.join(str(10 + x) if x in (i, j) else '.' for x in range(ns)) + ')'
                    lines.append(rng.choice([f'W {e}', f'W (reverse {e})', f'V (filter {e} 2 {rng.randint(0, 1)})', f'W (slice {e} _ _ -1)']))
            lines.append('W (table ' + ' '.join('.' for _ in range(ns)) + ')')
        for _ in range((200 if quick else 4000) * boost):      # Filters: where the rejected elements lie
            n = rng.randint(0, 10); mod = rng.randint(1, 4); res = rng.randrange(mod)
            b = base(rng, n)
            lines.append(rng.choice('WV') + ' ' + rng.choice([f'(filter {b} {mod} {res})', f'(filter (reverse {b}) {mod} {res})',
                                                               f'(reverse (array {" ".join(map(str, ints(rng, n, 0, 9)))}))'.replace(' )', ')'),
                                                               f'(filter (filter {b} {mod} {res}) {rng.randint(1, 3)} 0)', f'(map (filter {b} {mod} {res}) 1 1)']))
        chunked('extracted', lines, 1000)
        lines = []
        if registered('kf-c11-slice-mem') or registered('kf-c11-range-mem'):
            lines += mem_lines(rng, (300 if quick else 6000) * boost, slice_absent=registered('kf-c11-slice-mem'), range_neg=registered('kf-c11-range-mem'))
        if registered('kf-c11-range-overflow'): lines += range64_lines(rng, (150 if quick else 3000) * boost, overflow=True)
        if registered('kf-c11-get-walk'): lines += disturbing_get_lines(rng, (400 if quick else 8000) * boost)
        if registered('kf-c11-zip-alias'): lines += alias_zip_lines(rng, (200 if quick else 4000) * boost)
        if lines: chunked('get_zip_known', lines, 500)
        return cs
    def nontrivial_items(self, case, c_out, m_out):
        ops = [l for l in case.lines if l and not l.startswith('#')]
        obs = core.lines_with('O ', c_out)
        out = set()
        for op, o in zip(ops, obs):
            m = LINE.match(o)
            g = GLINE.match(o)
            if o == 'O crash' or (m and (len(_items(m.group(1))) >= 2 or m.group(2) != 'term' or m.group(4) != 'term')): out.add(hash(op))
            elif g and (len(_items(g.group(1))) >= 2 or g.group(2) != 'term'): out.add(hash(op))
            elif o in ('O mem=1', 'O mem=exc'): out.add(hash(op))
        return out
    def stats(self, case, c_out, m_out, acc):
        for l in core.lines_with('O ', c_out):
            acc['observations'] = acc.get('observations', 0) + 1
            if l == 'O crash': acc['worker_crashes'] = acc.get('worker_crashes', 0) + 1; continue
            m = LINE.match(l)
            if m:
                acc['items_forward'] = acc.get('items_forward', 0) + len(_items(m.group(1)))
                for e in (m.group(2), m.group(4)): acc['end_' + e] = acc.get('end_' + e, 0) + 1
            elif l.startswith('O construct='): acc['construct_errors'] = acc.get('construct_errors', 0) + 1
        for l in core.lines_with('O ', m_out):
            if '=ub' in l: acc['model_says_ub'] = acc.get('model_says_ub', 0) + 1
        for op in case.lines:
            for h in ('slice', 'reverse', 'zip', 'enum', 'filter', 'map', 'range', 'array', 'list', 'tuple', 'table', 'tree', 'rtree', 'mut list', 'mut array', 'mut table', 'mut tree'):
                if op[2:].startswith('(' + h + ' ') or op[2:] == '(' + h + ')': acc['top_' + h.replace(' ', '_')] = acc.get('top_' + h.replace(' ', '_'), 0) + 1
            if op.startswith('V '): acc['built_with_stack_macros'] = acc.get('built_with_stack_macros', 0) + 1
            if op.startswith('G '): acc['walks_with_get_in_body'] = acc.get('walks_with_get_in_body', 0) + 1
            if op.startswith('Z '): acc['zip_of_one_object'] = acc.get('zip_of_one_object', 0) + 1
            if op.startswith('M '): acc['mem_calls'] = acc.get('mem_calls', 0) + 1
            if op.startswith('R '): acc['ranges_at_int64_limits'] = acc.get('ranges_at_int64_limits', 0) + 1
        for l in core.lines_with('I ', c_out):       # branch counters of Slice_Arg printed by the harness
            for k, v in re.findall(r'(slice_arg_\w+)=(\d+)', l): acc[k] = acc.get(k, 0) + int(v)
        for op in case.lines:                         # branches of Table_Iter_Last / _Prev and of the backward Filter loops, from the op text
            m = re.search(r'\(table((?: (?:\.|-?\d+))*)\)', op)
            if m:
                sl = m.group(1).split()
                used = [i for i, x in enumerate(sl) if x != '.']
                if used:
                    acc['table_last_answer_in_slot0' if used[-1] == 0 else 'table_last_answer_above_slot0'] = acc.get('table_last_answer_in_slot0' if used[-1] == 0 else 'table_last_answer_above_slot0', 0) + 1
                    if used[0] == 0: acc['table_prev_stops_below_used_slot0'] = acc.get('table_prev_stops_below_used_slot0', 0) + 1
                    else: acc['table_prev_scans_holes_down_to_slot0'] = acc.get('table_prev_scans_holes_down_to_slot0', 0) + 1
                    if any(b - a > 1 for a, b in zip(used, used[1:])): acc['table_prev_skips_holes_between'] = acc.get('table_prev_skips_holes_between', 0) + 1
                else: acc['table_last_guard_empty'] = acc.get('table_last_guard_empty', 0) + 1
            if '(filter ' in op: acc['walks_through_filter_both_directions'] = acc.get('walks_through_filter_both_directions', 0) + 1
        for l in core.lines_with('O ', m_out):
            if l.startswith('O extracted-code-differs'): acc['extracted_code_differs'] = acc.get('extracted_code_differs', 0) + 1
        for l in core.lines_with('X ', c_out):
            sg = re.search(r'sig=(\S+)', l)
            if sg: acc['oracle_' + sg.group(1)] = acc.get('oracle_' + sg.group(1), 0) + 1

SPEC = C11()
