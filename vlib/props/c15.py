"""C15 — show/look and print/scan round-trip values (engine text)."""
import struct, hashlib
from ..runner import Spec, Case
from .. import core

I64MIN, I64MAX = -(1 << 63), (1 << 63) - 1
SPECIAL = [0x22, 0x5c, 0x27, 0x3f, 7, 8, 9, 10, 11, 12, 13, 0x25, 0x20, 0x7f, 0x80, 0xff, 1, 0x1b,
           ord('a'), ord('b'), ord('f'), ord('n'), ord('r'), ord('t'), ord('v'), ord('x'), ord('0'), ord('e')]
SAFE_SEPS = [b' ', b', ', b',', b';', b'\n', b'\t', b' | ', b' :: ', b'/', b' and ', b' \n', b'--', b'=', b'#', b'\x80\xfe', b'  ']
START = [0, 0, 0, 1, 2, 3, 5, 17, 100, 1023]

def hx(b): return bytes(b).hex()
def dbits(x): return struct.pack('>d', x).hex()

def rbytes(rng, n, special=0.4):
    out = bytearray()
    for _ in range(n):
        if rng.random() < special: out.append(rng.choice(SPECIAL))
        else: out.append(rng.randrange(1, 256))
    return bytes(out)

def rint(rng):
    r = rng.random()
    if r < 0.15: return rng.choice([0, 1, -1, 9, 10, -10, 99, 100, I64MIN, I64MAX, I64MIN + 1, I64MAX - 1, 7, 8, -8, 1 << 31, -(1 << 31), (1 << 32) - 1, 1 << 32])
    if r < 0.35:
        k = rng.randrange(0, 19); return max(I64MIN, min(I64MAX, rng.choice([1, -1]) * (10 ** k + rng.choice([-1, 0, 1]))))
    if r < 0.55:
        k = rng.randrange(0, 64); return max(I64MIN, min(I64MAX, rng.choice([1, -1]) * ((1 << k) + rng.choice([-1, 0, 1]))))
    if r < 0.75: return rng.randrange(-1000, 1000)
    return rng.randrange(I64MIN, I64MAX + 1)

def rdouble_bits(rng):
    """finite doubles across the whole exponent range, with the cases that matter for %f / %lf"""
    r = rng.random()
    if r < 0.10:
        return rng.choice(['0000000000000000', '8000000000000000', '0000000000000001', '8000000000000001', '000fffffffffffff', '0010000000000000',
                           '7fefffffffffffff', 'ffefffffffffffff', '47efffffe0000000', '47f0000000000000', '4170000010000000', '3ff0000004000000',
                           '3ff0000000000001', '3eb0c6f7a0b5ed8d', '3ea0c6f7a0b5ed8d', '3ea0c6f7a0b5ed8e', '3ea0c6f7a0b5ed8c', '4340000000000000',
                           '433fffffffffffff', '3fb999999999999a', '3fe0000000000000', '400921fb54442d18'])
    if r < 0.20:   # exact ties of the sixth decimal: odd multiples of 1/128 (x * 10^6 = k * 7812.5)
        k = rng.randrange(-4000, 4000) | 1
        return dbits(k / 128.0)
    if r < 0.35:   # just above / below a sixth-decimal boundary
        v = rng.randrange(-10 ** 9, 10 ** 9) * 1e-6 + 0.5e-6
        b = struct.unpack('>Q', struct.pack('>d', v))[0] + rng.randrange(-3, 4)
        return '%016x' % (b & 0xffffffffffffffff) if ((b >> 52) & 2047) != 2047 else dbits(v)
    if r < 0.55:   # moderate magnitudes with many significant bits
        return dbits(rng.uniform(-1, 1) * 10 ** rng.randrange(-8, 18))
    if r < 0.65:   # beyond float range / precision
        return dbits(rng.choice([1, -1]) * rng.uniform(1, 10) * 10 ** rng.randrange(39, 308))
    while True:    # uniform bit patterns: every exponent
        b = rng.getrandbits(64)
        if ((b >> 52) & 2047) != 2047: return '%016x' % b

def rstring(rng, big=False):
    r = rng.random()
    if big and r < 0.01: n = rng.randrange(301, 1200)
    elif r < 0.1: n = 0
    elif r < 0.6: n = rng.randrange(1, 8)
    else: n = rng.randrange(8, 60)
    return rbytes(rng, n, rng.choice([0.1, 0.5, 0.9]))

IMODS = {'': 32, 'hh': 8, 'h': 16, 'l': 64, 'll': 64, 'j': 64, 'z': 64, 't': 64, 'q': 64}
ICONVS = 'diouxX'
FCONVS = 'fFeEgG'

def rint_width(rng, w, signed):
    """an int64 that is a value of the w-bit type (for w = 64: any int64, also under the unsigned conversions)"""
    if w == 64: return rint(rng)
    lo, hi = (-(1 << (w - 1)), (1 << (w - 1)) - 1) if signed else (0, (1 << w) - 1)
    r = rng.random()
    if r < 0.3: return rng.choice([lo, hi, lo + 1, hi - 1, 0, 1, -1 if signed else 2, hi // 2, 7, 8, 9, 10, 15, 16, 255 if hi >= 255 else hi])
    if r < 0.5: return max(lo, min(hi, rng.choice([1, -1] if signed else [1]) * rng.choice([10, 100, 1000, 8, 64, 512, 16, 256, 4096]) + rng.choice([-1, 0, 1])))
    return rng.randrange(lo, hi + 1)

def rfloat_bits(rng):
    """a double that is the value of a float (binary32): special values, subnormals, the extremes, 24-bit integers, random patterns"""
    r = rng.random()
    if r < 0.15:
        b = rng.choice([0x00000000, 0x80000000, 0x00000001, 0x80000001, 0x007fffff, 0x00800000, 0x7f7fffff, 0xff7fffff, 0x3f800000, 0x3f800001,
                        0x4b800000, 0x4b7fffff, 0x3dcccccd, 0x3f000000, 0x40490fdb, 0x49742400, 0x47c35000, 0x358637bd, 0x38d1b717, 0x3a83126f])
    elif r < 0.35: return dbits(float(rng.randrange(-(1 << 24), (1 << 24) + 1)))
    elif r < 0.55: b = struct.unpack('>I', struct.pack('>f', rng.uniform(-1, 1) * 10 ** rng.randrange(-8, 12)))[0]
    else:
        while True:
            b = rng.getrandbits(32)
            if ((b >> 23) & 255) != 255: break
    return dbits(struct.unpack('>f', struct.pack('>I', b))[0])

def int_spec_item(rng, fit=True):
    m = rng.choice(list(IMODS)); c = rng.choice(ICONVS); w = IMODS[m]; signed = c in 'di'
    n = rint_width(rng, w, signed) if fit else rint(rng)
    return f'I{m}{c}={n}'

def float_spec_item(rng):
    c = rng.choice(FCONVS)
    if rng.random() < 0.5: return f'Fl{c}={rdouble_bits(rng)}'
    # without l the destination is a float: only float values (anything else is the territory of KF-C15-float-spec-narrow)
    return f'F{c}={rfloat_bits(rng)}'

def value_item(rng, pm, kinds='sif', fit=True):
    k = rng.choice(kinds)
    if k == 's': return 's=' + hx(rstring(rng, True))
    if k == 'i':
        if pm and rng.random() < 0.6: return int_spec_item(rng, fit or rng.random() < 0.5)
        tag = rng.choice(['i', 'li', 'ld']) if pm else 'i'
        return f'{tag}={rint(rng)}'
    if pm and rng.random() < 0.6: return float_spec_item(rng)
    tag = rng.choice(['f', 'lf']) if pm else 'f'
    return f'{tag}={rdouble_bits(rng)}'

def sep_item(rng, safe=True, pm=False):
    if pm and rng.random() < 0.12: return 'pc'          # a literal percent, written and read with `%%`
    if safe or rng.random() < 0.5:
        s = rng.choice(SAFE_SEPS)
    else:
        s = rng.choice([b'0', b'7', b'x', b'X', b'e', b'E', b'e5', b'.', b'-', b'+', b'09 ', b'x1f', b' 1', b'\t\n', b'a', b'"', b'\\', b'.5'])
    return 't=' + hx(s)

def sequence(rng, contract=True, maxlen=10, kinds='sif'):
    """op line for a random sequence; in-contract sequences always separate two numbers by a safe separator"""
    src = rng.choice('SF'); pm = rng.random() < 0.5
    n = rng.randrange(1, maxlen + 1)
    items = []
    if rng.random() < 0.2: items.append(sep_item(rng, True, pm))
    for j in range(n):
        it = value_item(rng, pm, kinds, fit=contract or rng.random() < 0.5)
        items.append(it)
        last = j == n - 1
        numeric = not it.startswith('s=')
        if contract:
            if not last and (numeric or rng.random() < 0.8):
                items.append(sep_item(rng, True, pm))
                if pm and items[-1] != 'pc' and rng.random() < 0.1: items.append('pc')
            elif not last and not numeric and rng.random() < 0.5: pass   # a String may be followed by anything directly
        else:
            if rng.random() < 0.6: items.append(sep_item(rng, False, pm))
    if rng.random() < 0.4:
        if contract:
            z = rng.choice([b',', b' ', b'"', b'\\', b'xyz', b';1', b'\n5', b'-', b'+1', b'.', b'g'])
            if items[-1].startswith('t=') and z[:1] in (b' ', b'\n') and src == 'F': z = b';'
            if items[-1][:1] == 'F' and items[-1].split('=')[0][-1] in 'gG' and z[:1] in (b'.', b'x'): z = b';'
        else:
            z = rng.choice([b'0', b'9', b'x1', b'e1', b' ', b'.5', b'E', b'X'])
        items.append('z=' + hx(z))
    if not contract and src == 'S':
        # a number may swallow the text that follows it and the next separator is then skipped blindly by its length: keep every
        # position the reader can reach inside the String (reading beyond the NUL is undefined, not a round-trip question)
        bound = 2
        for it in items:
            if it == 'pc': bound += 2; continue
            k, v = it.split('=', 1)
            bound += {'s': len(v) + 2, 't': len(v) // 2, 'z': 0}.get(k, 330 if k in ('f', 'lf') or k[0] == 'F' else 24)
        z = bytes.fromhex(items.pop().split('=', 1)[1]) if items[-1].startswith('z=') else b''
        items.append('z=' + hx(z + b';' * bound))
    mode = (rng.choice(['print', 'print', 'split', 'join']) if pm else 'show')
    return f"R {src} {rng.choice(START)} {mode} " + ' '.join(items)

def width_op(rng):
    """an Int under %[0]<width><mod><conv> — outside the property (correspondence; the oracle where the width is harmless)"""
    m = rng.choice(list(IMODS)); c = rng.choice(ICONVS); wbits = IMODS[m]; signed = c in 'di'
    n = rint_width(rng, wbits, signed) if rng.random() < 0.8 else rint(rng)
    r = rng.random()
    if r < 0.5: w = rng.randrange(1, 25)
    elif r < 0.8: w = rng.choice([20, 22, 24, 30, 40])      # never shorter than the text: harmless unless zero-padded under %i
    else: w = rng.randrange(1, 6)
    z = ''
    if rng.random() < 0.4: z = ' z=' + hx(rng.choice([b';', b' ', b',', b'\n5', b'x', b'7', b'-']))
    return f"W {rng.choice('SF')} {rng.choice(START)} {rng.choice('01')} {w} {m}{c} {n}{z}"

def int_text(rng):
    ws = rng.choice([b'', b'', b' ', b'\t\n ', b'\x0b\x0c\r'])
    sign = rng.choice([b'', b'', b'-', b'+'])
    r = rng.random()
    if r < 0.25: body = str(abs(rint(rng))).encode()
    elif r < 0.45: body = b'0' + rng.choice([b'x', b'X']) + bytes(rng.choice(b'0123456789abcdefABCDEFgx ') for _ in range(rng.randrange(0, 20)))
    elif r < 0.6: body = b'0' + bytes(rng.choice(b'0123456789') for _ in range(rng.randrange(0, 24)))
    elif r < 0.7: body = bytes(rng.choice(b'0123456789') for _ in range(rng.randrange(17, 25)))
    elif r < 0.8: body = rng.choice([b'9223372036854775807', b'9223372036854775808', b'9223372036854775809', b'18446744073709551615', b'18446744073709551616',
                                       b'0x7fffffffffffffff', b'0x8000000000000000', b'0xffffffffffffffff', b'01000000000000000000000', b'0777777777777777777777'])
    elif r < 0.86: body = bytes(rng.choice(b'0123456789abcdefABCDEF') for _ in range(rng.randrange(1, 19)))
    elif r < 0.9: body = rbytes(rng, rng.randrange(0, 4), 0.8)
    else: body = b''
    tail = rng.choice([b'', b',', b' ', b'x', b'8', b'-', b'.', b'abc', b'g'])
    return ws + sign + body + tail

def float_text(rng):
    ws = rng.choice([b'', b'', b' ', b'\n\t'])
    sign = rng.choice([b'', b'', b'-', b'+'])
    ip = bytes(rng.choice(b'0123456789') for _ in range(rng.choice([0, 1, 1, 2, 5, 17, 25, 40])))
    fp = b''
    if rng.random() < 0.7: fp = b'.' + bytes(rng.choice(b'0123456789') for _ in range(rng.choice([0, 1, 6, 6, 12, 20, 30])))
    if ip[:1] == b'0' and rng.random() < 0.5: ip = b'1' + ip     # keep clear of the (unmodelled) 0x prefix most of the time
    ex = b''
    if rng.random() < 0.5:
        ex = rng.choice([b'e', b'E']) + rng.choice([b'', b'', b'-', b'+']) + bytes(rng.choice(b'0123456789') for _ in range(rng.choice([0, 1, 2, 3, 3, 4])))
    tail = rng.choice([b'', b',', b' ', b';', b'e', b'.', b'-1', b'f'])
    t = ws + sign + ip + fp + ex + tail
    if rng.random() < 0.06:   # texts glibc treats specially: broken nan / inf / hexadecimal prefixes fail, complete ones are outside the model
        t = ws + sign + rng.choice([b'n', b'na', b'nax', b'nAn', b'i', b'in', b'inx', b'INF', b'infinity', b'0x', b'0xg', b'0X,', b'0x1p3', b'0x.8', b'nf"', b'N1'])
    return t

def mutate_shown(rng):
    """text shaped like String_Show output, then damaged"""
    s = rstring(rng)
    esc = {7: b'\\a', 8: b'\\b', 12: b'\\f', 10: b'\\n', 13: b'\\r', 9: b'\\t', 11: b'\\v', 92: b'\\\\', 39: b"\\'", 34: b'\\"', 63: b'\\?'}
    t = b'"' + b''.join(esc.get(c, bytes([c])) for c in s) + b'"'
    r = rng.random()
    if r < 0.25 and len(t) > 1: t = t[:rng.randrange(0, len(t))]
    elif r < 0.5 and len(t) > 2:
        i = rng.randrange(1, len(t)); t = t[:i] + bytes([rng.choice(SPECIAL + [ord('q'), ord('z'), ord('N')])]) + t[i + 1:]
    elif r < 0.6: t = t[1:]
    elif r < 0.7: t = b' ' + t
    return t + rng.choice([b'', b'tail', b'"', b'\\'])

def look_op(rng):
    kind = rng.choice(['s', 's', 'i', 'i', 'ld', 'f', 'I', 'I', 'F'])
    src = rng.choice('SF')
    pre = rng.choice([b'', b'', b'7', b'"x ', b'12345'])
    if kind == 'I': kind = 'I' + rng.choice(list(IMODS)) + rng.choice(ICONVS)
    elif kind == 'F': kind = 'F' + rng.choice(['', 'l']) + rng.choice(FCONVS)
    if kind == 's': t = mutate_shown(rng)
    elif kind in ('i', 'ld') or kind[0] == 'I': t = int_text(rng)
    else: t = float_text(rng)
    if src == 'F' and kind == 's' and rng.random() < 0.1 and len(t) > 2:
        i = rng.randrange(1, len(t)); t = t[:i] + b'\x00' + t[i:]
    return f'K {src} {len(pre)} {kind} x={hx(pre + t)}'

class C15(Spec):
    id = 'C15'; engine = 'text'; harness = 'h_text'; driver = 'drv_text'
    generators = ('Text', 'TextScan')
    harness_timeout = 600
    technique = ('Lean 4 proof by induction over byte strings, digit lists (bases 8, 10, 16) and item sequences about a model of String_Show/String_Look, '
                 'the integer conversions of printf/scanf for every length modifier, the integer branch of scan_from_with (which object scanf stores into, '
                 'how it is widened) and the position accounting of scan_from_with; exact rational arithmetic (Mathlib Q) about round-half-even, the '
                 'nearest-binary64/binary32 rounding of strtod/strtof and the six-decimal rounding of %f for the Float value clause; escape tables, '
                 'delimiters, the reader\'s control-flow flag, the arms of the integer branch and the double/float test regenerated from the source each '
                 'run; extension round: how every branch of scan_from_with moves pos (`%$` assigns the absolute position look_from returns, the numeric branches '
                 'add the %n count, the literal branch reads the run and adds its length), show_to / look_from, the formats of Num.c as bytes cut by the '
                 'model\'s scanners, and the C types of the character path (char tmp, char* v, (char)c_int(chr)) extracted as data (generator TextScan) '
                 'into a second, parametrised model (Cello/TextScan.lean) that the driver runs and that is proved equal to the first on byte inputs; '
                 'differential check against the real library (String and File sinks) with a direct C oracle')
    level_text = ('Theorems C15_string_roundtrip / C15_int_roundtrip / C15_intspec_roundtrip / C15_sequence_roundtrip / C15_format_roundtrip / C15_float_consumed / '
                  'C15_float_value / C15_float_within / C15_float_e_within / C15_float_e_narrow_partial / C15_float_items / C15_calls_compose: for every NUL-free byte string, every int64 under %$ and under each of the 54 '
                  'specifications %[hh|h|l|ll|j|z|t|q][d|i|o|u|x|X], every finite double under %$ and %[l][f|F|e|E|g|G], and every sequence of them with '
                  'separators, written at every start position of a String or a File, the model of look_from / scan_from_with reads back exactly the value '
                  'that the model of show_to / print_to_with wrote — for an Int under a narrow specification C\'s conversion of the value to the type the '
                  'specification names, i.e. the value itself on that type\'s range (C15_intspec_in_width); for a Float under %$ / %lf / %lF a double that '
                  'prints as the same six-decimal text, has the same sign and differs by at most 1e-6 (proved in exact arithmetic about the model of both '
                  'conversions) — and stops exactly at the end of the written text, whatever follows (for a number: anything that does not continue it); the '
                  'returned position equals the writer\'s and a File\'s stream moves by exactly the characters written; stated on segment lists and on the raw '
                  'format string as cut by the two scanners. The escape tables, delimiter bytes, the reader\'s `continue`, the conversion-character sets, the '
                  '`%%` advance, the arms of the integer branch (test on fmt_buf, width of the object, widening) and the double/float test are extracted '
                  'from the source on every run and the theorems are re-checked against them (C15_int_arms fails on the pre-9114264 branch); the model is tied '
                  'to the real functions by running tens of thousands of values and sequences (all 255 byte values, boundary integers of every width, doubles '
                  'over the whole exponent range, float values) on both. Extension round: C15_scan_branches (decided on the data extracted by generator TextScan: '
                  '`%$` assigns what look_from returns, numeric branches add the %n count, the literal branch reads the input, Num.c formats are single '
                  'specifications %li / %f / %lf, character objects are 8-bit chars, tables are ASCII), C15_sequence_roundtrip_source (the sequence round trip '
                  'for the parametrised model printItemsX / scanItemsX at srcX that the driver runs, for byte inputs; C15_sequence_roundtrip_direct for show_to / look_from called directly), C15_char_path / '
                  'C15_string_roundtrip_chars (bytes >= 128 travel as negative chars through $I(*v) / %c / char tmp / (char)c_int(chr) and come back), '
                  'C15_dollar_adds_refuted / C15_literal_unread_refuted (the classes of seeds c15_d c15_k / c15_f c15_j fail in the model), '
                  'C15_look_instances (exactly Int, Float, String have a reader), C15_show_look_dispatch (show_to / look_from / macros pinned).')
    level_note = ('per clause — String: proved. Int (%$, all 54 integer specifications, all int64, ranges of each width): proved. Float value under %$ / %lf / %lF: '
                  'proved (C15_float_value, C15_float_within; the former def C15_float_value_statement is now a theorem). Float under %f / %F without l: known finding '
                  'KF-C15-float-spec-narrow (scan_from_with stores through a float): refuted for 123456789.123456 and 1.5e300 (C15_float_narrow_refuted), proved for '
                  'every double that is a float value (C15_float_narrow_partial). Float under %le / %lE: consumed length, position and numeric closeness (same sign, finite, within 1e-6 relative: C15_float_e_within) proved; '
                  'that the text is the same under %e %E %g %G, and any value statement for %g %G and for %e %E without l, NOT proved (C15_float_sci_statement is a def) — the driver evaluates it on every such item and the oracle checks it with libc. '
                  'Several calls: C15_calls_compose (one call = several calls, both directions). Failed reads: fmt_buf leak and clobbered String target refuted on witnesses (proposed findings), success releases the buffer (proved). '
                  'Field width / 0 flag: refuted on %08li / %5li (C15_width_refuted); harmless widths checked by the oracle, C15_width_safe_statement NOT proved. '
                  'Trusted: Lean kernel; the model of scanf (integer conversions, floating conversions into double and float, "%c", literal matching, "%n") and of printf '
                  '(integer conversions, "%f" "%e" "%g", "%c") — validated against glibc by the correspondence runs, not proved; translate/g_text.py; harness/driver '
                  'comparison (testing). Outside: flags, width and precision inside a specification, %a, non-finite doubles, reading at a position beyond the end of a String.')
    rule = ('op files of round trips (R: values and separators written at a start position of a String / File sink by show_to, by one print_to_with or by one '
            'print_to_with per item, then read back by look_from / one scan_from_with / one scan_from_with per item: modes show, print, split, join), of reads of '
            'arbitrary text (K, also through every integer / floating specification) and of Ints under a field width / the 0 flag (W, outside the property). '
            'Generators: every byte value 1..255 alone and in one string, '
            'random strings biased to quotes, backslashes, escape letters, control and high bytes, lengths 0..20000; boundary and random int64, and for each of the '
            '54 integer specifications boundary and random values of the type it names (and, outside the property, values beyond it: C\'s conversion is expected); doubles from '
            'special values, sixth-decimal ties and boundaries, float-overflowing magnitudes, uniform bit patterns, under %$ and %l[fFeEgG]; float values (special, subnormal, '
            'extreme, 24-bit integers, uniform patterns) under %[fFeEgG]; sequences of 1..10 values with separators '
            '(in contract, and deliberately out of contract for the correspondence only); damaged String_Show text, integer text with prefixes / overflow / signs / hexadecimal digits, '
            'decimal floating text with exponents. non-trivial = a distinct op line whose observation shows a value read back (R: successful read of >= 1 value '
            'at start > 0, or from a File, or with an escape / sign / fraction in the text, or of >= 2 values; K: an exception or a non-zero position).')
    trusted_base = ('translate/g_text.py generators Text and TextScan (regular expressions over String_Show / String_Look / Num.c / Show.c / Cello.h)',
                    'harness/h_text.c + lean/Driver/Text.lean (correspondence is testing)',
                    'glibc printf %[hh h l ll j z t q][d i o u x X], "%f" "%e" "%g", "%c" and scanf of the same integer specifications, %[l][f e g], "%c", "%n", literal matching: modelled (Cello/Text.lean), validated by the runs, not verified',
                    'arguments are modelled as values (Cello object headers, c_int / c_float / c_str dispatch are properties C08 / C19); an int64_t passed to printf for a narrower specification is read as libc reads it on x86-64')
    assumptions = ('Strings are NUL-free C strings; Ints are int64; Floats are finite doubles',
                   'an Int written under a specification is a value of the type the specification names (hh: char, h: short, none: int, l ll j z t q: 64 bits; signed for d i, unsigned for o u x X — for the 64-bit modifiers every int64); beyond it C\'s conversion to that type is what is read back (proved and checked, but not "equal")',
                   'text following a written integer does not start with a digit (after %x / %X: a hexadecimal digit), nor with x/X after a lone 0 read with %i / %x / %X / %$; text following a written Float does not start with a digit or e/E (after %g / %G also not with . or x/X)',
                   'a separator read from a File that ends in white space is not followed by white space (scanf would swallow it)',
                   'separators are NUL-free text without %, or a literal percent written and read as %% (fixed by 619a9b3); start position <= length of the String read from',
                   'a Float written under a floating specification without the l modifier is the value of a float: generated inputs stay out of the territory of known finding KF-C15-float-spec-narrow (witness corpus/kf_c15_float_spec_narrow.ops)',
                   'specifications carry no flags, width or precision: with them the same format does not read back what it wrote, by the rules of scanf (%08li writes -42 as -0000042 and reads -34; %5li reads 12345 of 1234567: C15_width_refuted, op W, corpus/text_width.ops); a harmless width (>= the text written, no zero padding under %i) is checked by the oracle only (C15_width_safe_statement, not proved); + - # flags and a precision make the read raise FormatError (not modelled)',
                   '%a / %A (named by KF-C15-float-spec-narrow for the l-less form; %la would read back every double exactly) and the L modifier are outside the model: no theorem, no generated case',
                   'targets of a read and sinks are heap objects made by new: look_from into a stack String ($S) raises ValueError from String_Clear (String.c:195, the refusal C19 speaks about) — not a round-trip question, not generated',
                   'reads that FAIL are outside the round trip; what they leave behind is recorded: fmt_buf stays allocated (proposed finding KF-C15-scan-fmtbuf-leak, C15_scan_leak_refuted; a read that succeeds frees it: C15_scan_leak_partial), a String target is emptied / half filled (proposed finding KF-C15-look-clobbers-target, C15_failed_look_clobbers_refuted); the K ops generated here (damaged text) are compared with the model, target value included, but carry no oracle',
                   'input objects: a heap String or one File; never stdin (scan / scanln / look), never a position beyond the end of a String',
                   'LC_ALL=C; x86-64 glibc (long = int64_t, char signed)')
    def cases(self, rng, tier, boost=1):
        quick = tier == 'quick'
        cs = []
        def chunk(name, lines, n=2000):
            for i in range(0, len(lines), n): cs.append(Case(f'{name}{i // n}', lines[i:i + n]))
        # (a) every byte value, alone and with every kind of neighbour; the full-range string
        lines = []
        for b in range(1, 256):
            for src in 'SF':
                lines.append(f'R {src} {rng.choice(START)} show s={b:02x}')
                lines.append(f'R {src} {rng.choice(START)} print s={b:02x}{rng.randrange(1, 256):02x} z={rng.randrange(1, 256):02x}')
        allb = bytes(range(1, 256))
        for src in 'SF':
            for mode in ('show', 'print'):
                lines.append(f'R {src} 0 {mode} s={hx(allb)}')
                lines.append(f'R {src} 7 {mode} s={hx(allb[::-1])} t=2c s={hx(allb)}')
        chunk('bytes', lines)
        # (b) single values
        n1 = (50000 if quick else 400000) * boost
        lines = []
        for _ in range(n1):
            src = rng.choice('SF'); pm = rng.random() < 0.5
            it = value_item(rng, pm)
            z = ''
            if rng.random() < 0.5:
                zb = rng.choice([b',', b' ', b'"', b'\\', b'xyz', b';1', b'\n5', b'-', b'+1', b'abc', b'.', b'"x"'])
                z = ' z=' + hx(zb)
            lines.append(f"R {src} {rng.choice(START)} {'print' if pm else 'show'} {it}{z}")
        chunk('single', lines)
        # (c) sequences, in contract
        n2 = (50000 if quick else 400000) * boost
        chunk('seq', [sequence(rng, True) for _ in range(n2)])
        # (d) sequences out of contract (correspondence only) and arbitrary text
        n3 = (25000 if quick else 150000) * boost
        chunk('adv', [sequence(rng, False, 6) for _ in range(n3)])
        n4 = (75000 if quick else 550000) * boost
        chunk('look', [look_op(rng) for _ in range(n4)])
        # (d') a field width / the 0 flag inside an integer specification (outside the property)
        chunk('width', [width_op(rng) for _ in range((6000 if quick else 60000) * boost)])
        # (e) long strings
        lines = []
        for _ in range((6 if quick else 60) * boost):
            n = rng.choice([301, 1000, 4095, 4096] if quick else [301, 1000, 4095, 4096, 9000, 20000])
            lines.append(f"R {rng.choice('SF')} {rng.choice(START)} {rng.choice(['show', 'print'])} s={hx(rbytes(rng, n, 0.3))} t=20 i={rint(rng)}")
        chunk('long', lines, 10)
        return cs
    def nontrivial_items(self, case, c_out, m_out):
        ops = [l for l in case.lines if l and not l.startswith('#')]
        obs = core.lines_with('O ', c_out)
        out = set()
        for op, o in zip(ops, obs):
            f = o.split()
            if len(f) < 3: continue
            if f[1] == 'R':
                d = dict(x.split('=', 1) for x in f[2:] if '=' in x)
                if not d.get('r', '').isdigit() or d.get('vals', '-') == '-': continue
                t = op.split()
                txt = d.get('text', '')
                if t[2] != '0' or t[1] == 'F' or ',' in d['vals'] or '5c' in txt or '2d' in txt or '2e' in txt or txt.startswith('#'):
                    out.add(hashlib.md5(op.encode()).hexdigest())
            elif f[1] == 'K':
                d = dict(x.split('=', 1) for x in f[2:] if '=' in x)
                if d.get('r') != '0': out.add(hashlib.md5(op.encode()).hexdigest())
            elif f[1] == 'W':
                d = dict(x.split('=', 1) for x in f[2:] if '=' in x)
                if d.get('r', '').isdigit(): out.add(hashlib.md5(op.encode()).hexdigest())
        return out
    def stats(self, case, c_out, m_out, acc):
        ops = [l for l in case.lines if l and not l.startswith('#')]
        for op in ops:
            t = op.split()
            if t[0] == 'R':
                acc['roundtrips'] = acc.get('roundtrips', 0) + 1
                acc['from_' + ('File' if t[1] == 'F' else 'String')] = acc.get('from_' + ('File' if t[1] == 'F' else 'String'), 0) + 1
                acc['mode_' + t[3]] = acc.get('mode_' + t[3], 0) + 1
                for j, it in enumerate(t[4:]):
                    k = it.split('=')[0]; acc['item_' + k] = acc.get('item_' + k, 0) + 1
                    # branch counters of the extension round (scan_from_with branches / character path, Cello/TextScan.lean)
                    v = it.split('=', 1)[1] if '=' in it else ''
                    if k in ('s', 'i', 'f'):
                        if t[2] != '0' or j > 0: acc['branch_dollar_at_nonzero_pos'] = acc.get('branch_dollar_at_nonzero_pos', 0) + 1
                        else: acc['branch_dollar_at_pos_0'] = acc.get('branch_dollar_at_pos_0', 0) + 1
                        if k != 's': acc['branch_num_look_via_format'] = acc.get('branch_num_look_via_format', 0) + 1
                    if k == 's' and any(int(v[q:q + 2], 16) >= 128 for q in range(0, len(v) - 1, 2)):
                        acc['branch_char_negative'] = acc.get('branch_char_negative', 0) + 1
                    if k == 't':
                        sp = all(int(v[q:q + 2], 16) in (32, 9, 10, 11, 12, 13) for q in range(0, len(v) - 1, 2))
                        key = 'branch_lit_' + ('File' if t[1] == 'F' else 'String') + ('_space_only' if sp else '_text')
                        acc[key] = acc.get(key, 0) + 1
                    if k == 'pc': acc['branch_pct'] = acc.get('branch_pct', 0) + 1
                    if k[0] == 'I' or k in ('li', 'ld'): acc['branch_int_spec'] = acc.get('branch_int_spec', 0) + 1
                    if k[0] == 'F' or k == 'lf': acc['branch_float_spec'] = acc.get('branch_float_spec', 0) + 1
                if t[2] != '0': acc['start_nonzero'] = acc.get('start_nonzero', 0) + 1
            elif t[0] == 'K':
                acc['looks_' + t[3]] = acc.get('looks_' + t[3], 0) + 1
            elif t[0] == 'W':
                acc['width_ops'] = acc.get('width_ops', 0) + 1
        for l in core.lines_with('O ', c_out):
            if 'Error' in l: acc['exceptions'] = acc.get('exceptions', 0) + 1
        for l in core.lines_with('O ', m_out):
            if 'unmodelled' in l: acc['unmodelled_by_the_libc_model'] = acc.get('unmodelled_by_the_libc_model', 0) + 1
        for l in core.lines_with('M ', m_out):
            if 'wsafe=' in l:
                if 'wsafe=1' in l: acc['width_harmless'] = acc.get('width_harmless', 0) + 1
                if 'wrt=0' in l: acc['width_not_read_back'] = acc.get('width_not_read_back', 0) + 1
                continue
            if 'contract=1' in l: acc['in_contract'] = acc.get('in_contract', 0) + 1
            else: acc['out_of_contract'] = acc.get('out_of_contract', 0) + 1
            if 'rt=1' in l: acc['model_roundtrip_ok'] = acc.get('model_roundtrip_ok', 0) + 1
    def model_selfcheck(self, case, m_out):
        """the model itself fails to round-trip an in-contract op (what the theorems exclude)"""
        ops = [l for l in case.lines if l and not l.startswith('#')]
        ms = [l for l in m_out.split('\n') if l.startswith('O ') or l.startswith('M ')]
        prev = None; k = -1
        for l in ms:
            if l.startswith('O '): k += 1; prev = l
            elif 'wsafe=1' in l and 'wrt=0' in l:      # C15_width_safe_statement (not proved) fails in the model
                return f'model does not read back an Int under a harmless field width `{ops[k] if k < len(ops) else "?"}`: {prev}'
            elif 'contract=1' in l and 'rt=0' in l:   # contract=2 (known-finding territory) and contract=0 are not claims
                return f'model does not round-trip the in-contract op `{ops[k] if k < len(ops) else "?"}`: {prev}'
        return None
    def compare(self, case, c_out, m_out):
        # observations the model declares outside its coverage of libc ("inf"/"nan"/hexadecimal floating text reached by an
        # out-of-contract sequence or a K op) are not compared; they are counted in the statistics
        a, b = core.lines_with('O ', c_out), core.lines_with('O ', m_out)
        for i in range(max(len(a), len(b))):
            x = a[i] if i < len(a) else '<missing>'
            y = b[i] if i < len(b) else '<missing>'
            if x != y and 'unmodelled' not in y: return i, x, y
        # the harness's own judgement "inside the property's quantifier" (which switches its oracle on) must be the theorems' hypothesis
        cc = [l.split('contract=')[1][:1] for l in c_out.split('\n') if l.startswith('C contract=')]
        mc = [l.split('contract=')[1][:1] for l in m_out.split('\n') if l.startswith('M ') and 'contract=' in l]
        if len(cc) == len(mc):
            for j, (x, y) in enumerate(zip(cc, mc)):
                if x != y:
                    rops = [l for l in case.lines if l.startswith('R ')]
                    return (-3, f'harness contract={x}', f'model contractOK={y} on `{rops[j][:300] if j < len(rops) else "?"}`')
        # the model must round-trip every op that is inside the contract (this is what the theorems state)
        cex = self.model_selfcheck(case, m_out)
        if cex: return (-2, '<n/a>', cex)
        return None

SPEC = C15()
