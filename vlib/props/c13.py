"""C13 — threads are isolated from each other; join publishes; Mutex excludes (engine thr)."""
from ..runner import Spec, Case
from .. import core

MAXK = 512
KEYS = ['a', 'b', 'c', 'd', 'e', 'key-6', 'k7']
WIDE_KEYS = KEYS + [f'z{i}' for i in range(80)]      # enough distinct keys for the thread-local table to rehash several times
# operations during which the executing thread's collector cannot run (no registration of a new object)
QUIET_OPS = {'tget', 'tmem', 'x', 'lookup', 'pub', 'perr', 'lock', 'trylock', 'winc', 'wthrow', 'unguarded', 'rd', 'rdarg', 'spawn', 'join', 'selfjoin', 'disabled'}
ERRNOS = ['0', 'EINVAL', 'EDEADLK', 'EBUSY', 'EPERM', 'ESRCH', 'EAGAIN']
NK = 6
# primitives whose return value `perr` replaces: the four synchronisation wrappers, pthread_create under Thread_Call, pthread_kill under Thread_Stop
PFNS = ['lock', 'trylock', 'unlock', 'join', 'create', 'stop']

def gen_prog(rng, depth, size):
    if size <= 1 or depth <= 0:
        return f'(t {rng.randrange(NK)})' if rng.random() < 0.45 else f'(s {rng.randrange(100)})'
    r = rng.random()
    if r < 0.30:
        a = rng.randrange(1, size); return f'(q {gen_prog(rng, depth, a)} {gen_prog(rng, depth, size - a)})'
    if r < 0.85:
        a = rng.randrange(1, size)
        k = rng.choice([0, 0, 1, 1, 2, 3])
        filt = ' '.join(map(str, rng.sample(range(NK), k)))
        return f'(c {gen_prog(rng, depth - 1, a)} ({filt}) {gen_prog(rng, depth - 1, size - a)})'
    if r < 0.95: return f'(f {gen_prog(rng, depth, size - 1)})'
    return f'(t {rng.randrange(NK)})'

class Th:
    def __init__(self, tid):
        self.tid = tid; self.phase = 'unborn' if tid else 'running'
        self.used = set(); self.alive = set(); self.roots = set(); self.pinned = set()
        self.tls = {}            # key -> (u, k)
        self.held = []           # mutexes held (stack), by lock/enter ('l'/'e' remembered for the matching release)
        self.try_open = []       # free mode: trylock sections opened (released whatever the outcome)
        self.pending_ld = None   # counter loaded, store outstanding
        self.nops = 0
        self.joined = False
        self.stack = set()       # own objects the harness holds on the thread's stack
        self.mheld = set()       # workers whose Thread object this thread made with new(Thread, f) and keeps in a stack variable
        self.maker = None        # the thread that made this thread's Thread object with new(Thread, f) (None: raw)
        self.gone = False        # that Thread object has been finalised: the thread is never named again
        self.argpin = set()      # own objects handed to a thread as arguments: kept on the stack in every collection, never deleted
        self.nargs = 0           # arguments of the current run

def foreign_mark_in_source():
    """what the translator read from Thread_Mark / GC_Recurse: does the mark phase walk the table of any Thread object it meets?"""
    import os
    try: return 'def threadMarkUnguarded : Bool := true' in open(os.path.join(core.LEAN, 'CelloGen', 'Thr.lean')).read()
    except OSError: return True

def gen_schedule(rng, nworkers, nevents, mode, flavour, managed=0.0, foreign_mark=True):
    """a file-order schedule that the mutex/join machine accepts (except for the deliberately disabled events of sched mode).
    flavour: 'mixed' | 'locks' | 'gc' | 'exn' | 'work'
    managed: probability that main makes a worker's Thread object the documented way (`var x = new(Thread, f)`, op `newthr`)
    before calling it.  The mark phase of main then walks that worker's thread-local table whenever it reaches `x`
    (KF-C13-mark-foreign-tls): in free mode main therefore executes no operation that can collect between `spawn U` and
    `join U` of such a worker (in sched mode the baton serialises the walk with the worker's writes). """
    free = mode == 'free'
    keys = WIDE_KEYS if rng.random() < 0.3 else KEYS
    th = [Th(t) for t in range(nworkers + 1)]
    holder = {}                  # mutex -> tid (file-order simulation; sched mode only)
    lines = [f'M {mode}', f'N {nworkers}', f'S {rng.randrange(1 << 30)}']
    out = lines.append
    w = dict(new=6, newroot=1, newx=2, del_=3, xdel=1, gc=2, churn=2, tset=3, tget=3, tmem=1, trem=2, x=4, lookup=3, pub=2, perr=1,
             work=0, lock=4, trylock=3, winc=3, wthrow=1, unguarded=1, rd=1, rdarg=1, spawn=3, join=2, selfjoin=1, end=1, disabled=1)
    if flavour == 'locks': w.update(lock=12, trylock=8, winc=8, wthrow=4, new=2, x=1, unguarded=3)
    if flavour == 'gc': w.update(new=12, del_=6, gc=6, churn=5, tset=6, trem=4, lock=1, trylock=1, winc=1)
    if flavour == 'exn': w.update(x=16, perr=3, tget=5, trem=4, selfjoin=3, wthrow=4)
    if flavour == 'work': w.update(work=8, churn=3)
    if free: w.update(unguarded=0, disabled=0, work=max(w['work'], 2))
    spawned = []
    n = 0
    def alive_objs(t): return sorted(t.alive)
    def referenced(t, k):   # own object referenced from own TLS, or from the TLS of a thread whose Thread object t keeps on its stack
        return any(v == (t.tid, k) for v in t.tls.values()) or \
               any(v == (t.tid, k) for u in t.mheld for v in th[u].tls.values())
    def drop_unreferenced(t, old):
        # an object that was only reachable from thread-local storage (of its owner, or of a thread whose Thread object its
        # owner holds) is now garbage: never named again
        if not old: return
        o = th[old[0]]
        if old[0] != t.tid and t.tid not in o.mheld: return
        if old[1] in o.alive and old[1] not in o.roots and old[1] not in o.stack and not referenced(o, old[1]):
            o.alive.discard(old[1])
    def quiet_needed(t):    # free mode: t holds the Thread object of a worker that has been called and not yet joined by t
        return free and any(th[u].phase != 'unborn' and not th[u].joined for u in t.mheld)
    def emit_end(t):
        # the thread-local table outlives the run (the Thread object may be called again): drop references to objects the
        # teardown is about to finalise
        k0 = 0
        for key, v in sorted(t.tls.items()):
            if v[0] == t.tid and v[1] not in t.roots:
                out(f'{t.tid} trem {key}'); del t.tls[key]; k0 += 1
        out(f'{t.tid} end'); t.phase = 'done'
        t.alive &= t.roots; t.stack = set()
        for u in sorted(t.mheld): th[u].gone = True      # the teardown finalises the Thread objects this thread made
        t.mheld = set()
        return k0 + 1
    guard = 0
    while n < nevents and guard < nevents * 30:
        guard += 1
        cands = [t for t in th if t.phase in ('running', 'ready')]
        t = rng.choice(cands)
        T = t.tid
        if t.phase == 'ready':
            out(f'{T} begin'); t.phase = 'running'; n += 1; continue
        # a pending store is completed soon
        if t.pending_ld is not None and rng.random() < 0.7:
            out(f'{T} st {t.pending_ld}'); t.pending_ld = None; n += 1; continue
        ops = [k for k, v in w.items() for _ in range(v)]
        if quiet_needed(t): ops = [k for k in ops if k in QUIET_OPS] or ['join']
        op = rng.choice(ops)
        t.nops += 1
        if op == 'spawn':
            un = [u for u in th if u.phase == 'unborn']
            again = [u for u in th if u.phase == 'done' and u.joined]      # a joined Thread object is called again
            if T != 0 and free: continue
            again = [u for u in again if not u.gone]
            if again and (not un or rng.random() < 0.4): u = rng.choice(again)
            elif un: u = un[0]
            else: continue
            if (T == 0 or not free) and u.phase == 'unborn' and rng.random() < managed and not quiet_needed(t):
                # the documented usage: var x = new(Thread, f); call(x);  (free mode: only main does it; under the baton workers
                # do it too — a worker returns only when no thread whose Thread object it holds is live, its teardown then
                # finalises those Thread objects)
                out(f'{T} newthr {u.tid}'); t.mheld.add(u.tid); u.maker = T; n += 1
            # arguments: own objects the caller keeps reachable (KF-C13-thread-arg-collected: nothing marks through t->args) —
            # roots, or (main only: it never returns) objects it keeps on its stack in every later collection and never deletes
            cand = sorted(t.roots & t.alive) + ([k for k in alive_objs(t) if k in t.stack and k not in t.roots] if T == 0 else [])
            if cand and rng.random() < 0.4:
                ks = rng.sample(cand, min(len(cand), rng.choice([1, 1, 2])))
                for k in ks: t.argpin.add(k); t.pinned.add(k)
                out(f"{T} call {u.tid} {' '.join(map(str, ks))}"); u.nargs = len(ks)
            else:
                out(f'{T} spawn {u.tid}'); u.nargs = 0
            u.phase = 'ready'; u.joined = False; u.nops = 0; spawned.append(u.tid); n += 1
        elif op == 'join':
            if free and (T != 0 or t.held or t.try_open): continue      # a joiner that holds a Mutex the thread needs would deadlock
            done = [u for u in th if u.phase == 'done' and not u.joined and not u.gone]
            if quiet_needed(t):
                # main is waiting for the workers whose Thread objects it holds: it joins them (blocking, in free mode) in turn
                pend = [th[u] for u in sorted(t.mheld) if th[u].phase != 'unborn' and not th[u].joined]
                done = [u for u in pend if u.phase == 'done']
                if not done: continue
            if done:
                u = rng.choice(done); out(f'{T} join {u.tid}'); u.joined = True; n += 1
                if rng.random() < 0.8: out(f'{T} rd {u.tid}'); out(f'{T} rdo {u.tid}'); n += 2
            elif not free and rng.random() < 0.3:
                u = rng.choice(th[1:]) if nworkers else None
                if u and not u.joined and not u.gone and u.tid != T: out(f'{T} join {u.tid}'); n += 1       # blocked or nothread
        elif op == 'selfjoin':
            # join(current(Thread)): pthread_join(self) = EDEADLK -> ResourceError (fix 484991f), in both modes: it never blocks
            if T == 0 or t.gone: continue
            out(f'{T} join {T}'); n += 1
        elif op == 'end':
            if T == 0 or t.held or t.try_open or t.pending_ld is not None or t.nops < 6: continue
            if any(th[u].phase in ('ready', 'running') for u in t.mheld): continue     # its teardown would free the Thread object of a live thread
            if rng.random() < 0.5: continue
            n += emit_end(t)
        elif op in ('new', 'newroot', 'newx'):
            free_k = [k for k in range(0, 40) if k not in t.used] or [k for k in range(40, MAXK) if k not in t.used]
            if not free_k: continue
            k = rng.choice(free_k[:8]); t.used.add(k); t.alive.add(k); t.stack.add(k)
            if op == 'newroot': t.roots.add(k)
            out(f'{T} {op} {k}'); n += 1
        elif op == 'del_':
            c = [k for k in alive_objs(t) if k not in t.pinned and not referenced(t, k) and (k in t.stack or k in t.roots)]
            if not c: continue
            k = rng.choice(c); t.alive.discard(k); t.roots.discard(k); t.stack.discard(k); out(f'{T} del {T} {k}'); n += 1
        elif op == 'xdel':
            others = [(u.tid, k) for u in th if u.tid != T for k in sorted(u.used)]
            if not others: continue
            u, k = rng.choice(others); out(f'{T} del {u} {k}'); n += 1
        elif op == 'gc':
            stack_objs = [k for k in alive_objs(t) if k in t.stack and k not in t.roots]
            keep = [k for k in stack_objs if k in t.argpin or rng.random() < 0.6]
            for k in stack_objs:
                if k not in keep:
                    t.stack.discard(k)
                    if not referenced(t, k): t.alive.discard(k)
            rng.shuffle(keep)
            tk = []
            for u in sorted(t.mheld):
                uu = th[u]
                if not free and uu.phase == 'done' and uu.joined and rng.random() < 0.15:
                    # x goes out of scope: this collection finalises the Thread object (Thread_Del frees the table); whatever
                    # of t's objects was reachable only through that table is garbage now
                    t.mheld.discard(u); uu.gone = True
                    for v in list(uu.tls.values()):
                        if v[0] == T and v[1] in t.alive and v[1] not in t.roots and v[1] not in t.stack and not referenced(t, v[1]): t.alive.discard(v[1])
                else: tk.append(f'T{u}')
            out(f'{T} gc ' + ' '.join(list(map(str, keep)) + tk)); n += 1
        elif op == 'churn':
            out(f'{T} churn {rng.choice([1, 5, 20, 60]) if not free else rng.choice([10, 50, 150, 400])}'); n += 1
        elif op == 'tset':
            own = [(T, k) for k in alive_objs(t)]
            foreign = [(u.tid, k) for u in th if u.tid != T and u.phase in ('running', 'done') for k in sorted(u.roots & u.alive)] if not free else []
            held = []
            if foreign_mark and not free and t.maker is not None and T in th[t.maker].mheld:
                # the thread that made this thread's Thread object keeps it on its stack: its mark phase walks this table, so
                # its objects stay alive through it (what C13_noninterference_refuted is about); sched mode only
                m = th[t.maker]; held = [(m.tid, k) for k in sorted(m.alive - m.roots)] * 3
            c = own + foreign + held
            if not c: continue
            v = rng.choice(c); key = rng.choice(keys)
            if v[0] != T and v not in held: th[v[0]].pinned.add(v[1])
            old = t.tls.get(key); t.tls[key] = v; drop_unreferenced(t, old)
            out(f'{T} tset {key} {v[0]} {v[1]}'); n += 1
        elif op == 'tget': out(f'{T} tget {rng.choice(keys)}'); n += 1
        elif op == 'tmem': out(f'{T} tmem {rng.choice(keys)}'); n += 1
        elif op == 'trem':
            key = rng.choice(keys); old = t.tls.pop(key, None); drop_unreferenced(t, old)
            out(f'{T} trem {key}'); n += 1
        elif op == 'x': out(f'{T} x ' + gen_prog(rng, rng.randrange(1, 5), rng.randrange(1, 18))); n += 1
        elif op == 'lookup': out(f'{T} lookup {rng.randrange(3)} {rng.randrange(8)}'); n += 1
        elif op == 'pub':
            out(f'{T} pub {rng.randrange(1, 100000)}'); n += 1
            r = sorted(t.roots & t.alive)
            if T != 0 and r and rng.random() < 0.4:
                # a result object for the joiner: a root (an object made with plain `new` is finalised by the thread's teardown
                # before join returns: KF-C13-join-result-finalised), never deleted afterwards
                k = rng.choice(r); t.pinned.add(k); out(f'{T} pubo {k}'); n += 1
        elif op == 'perr': out(f"{T} perr {rng.choice(PFNS)} {rng.choice(ERRNOS)}"); n += 1
        elif op == 'work':
            kind = rng.randrange(4); size = rng.choice([40, 120, 300]) if not free else rng.choice([200, 600, 1500])
            if kind == 2: size //= 3
            out(f'{T} work {kind} {rng.randrange(1, 50)} {size}'); n += 1
        elif op in ('lock', 'trylock', 'winc', 'wthrow'):
            top = max([m for m, _ in t.held] + [m for m in t.try_open], default=-1)
            # release something first, often
            if (t.held or t.try_open) and rng.random() < 0.55:
                if t.pending_ld is not None: out(f'{T} st {t.pending_ld}'); t.pending_ld = None; n += 1
                if t.try_open and (not t.held or rng.random() < 0.5):
                    m = t.try_open.pop(); out(f'{T} unlock {m}'); n += 1
                    if not free and holder.get(m) == T: del holder[m]
                else:
                    m, how = t.held.pop(); out(f"{T} {'unlock' if how == 'l' else 'leave'} {m}"); n += 1
                    if holder.get(m) == T: del holder[m]
                continue
            ms = [m for m in range(8) if m > top]
            if not ms: continue
            m = rng.choice(ms[:3])
            if op == 'winc':
                if not free and m in holder: continue
                out(f'{T} winc {m} {m}'); n += 1
            elif op == 'wthrow':
                # a with block left by an exception: the thread stays inside (released later by unlock)
                if not free and m in holder:
                    if rng.random() < 0.5: out(f'{T} wthrow {m}'); n += 1    # blocked: the event does not happen
                    continue
                out(f'{T} wthrow {m}'); n += 1
                t.held.append((m, 'l')); holder[m] = T
                if rng.random() < 0.5: out(f'{T} ld {m}'); t.pending_ld = m; n += 1
            elif op == 'lock':
                if not free and m in holder:
                    if rng.random() < 0.5: out(f'{T} lock {m}'); n += 1      # blocked: the event does not happen
                    continue
                how = rng.choice('le'); out(f"{T} {'lock' if how == 'l' else 'enter'} {m}"); n += 1
                t.held.append((m, how)); holder[m] = T
                if rng.random() < 0.7: out(f'{T} ld {m}'); t.pending_ld = m; n += 1
            else:
                out(f'{T} trylock {m}'); n += 1
                if free:
                    t.try_open.append(m)
                    if rng.random() < 0.7: out(f'{T} ld {m}'); out(f'{T} st {m}'); n += 2
                elif m not in holder:
                    holder[m] = T; t.try_open.append(m)
                    if rng.random() < 0.7: out(f'{T} ld {m}'); t.pending_ld = m; n += 1
        elif op == 'unguarded':
            c = rng.randrange(8, 12); out(f"{T} {rng.choice(['ld', 'st'])} {c}"); n += 1
        elif op == 'rdarg':
            if T == 0: continue
            out(f'{T} rdarg {rng.randrange(0, t.nargs + 1)}'); n += 1
        elif op == 'rd':
            if free: continue
            out(f'{T} rd {rng.randrange(nworkers + 1)}'); n += 1
        elif op == 'disabled':
            r = rng.random()
            if r < 0.3:
                dead = [u for u in th if u.phase in ('unborn', 'done')]
                if dead: out(f"{rng.choice(dead).tid} {rng.choice(['new 3', 'tget a', 'lock 1', 'pub 5', 'churn 2', 'x (t 1)', 'begin'])}"); n += 1
            elif r < 0.5:
                m = rng.randrange(8)
                if holder.get(m) != T: out(f'{T} unlock {m}'); n += 1          # ub: not executed by the harness
            elif r < 0.7 and spawned:
                out(f'{T} spawn {rng.choice(spawned)}'); n += 1                # bad: already spawned
            elif r < 0.8 and t.used:
                out(f'{T} new {rng.choice(sorted(t.used))}'); n += 1           # bad: serial reused
            elif r < 0.9:
                out(f"{T} {rng.choice(['frobnicate 1', 'new', 'lock x', 'tset a 1', 'x (s', 'perr lock ENOENT', 'new 9999'])}"); n += 1
            else:
                out(f'{T} begin' if T else '0 end'); n += 1
    # wind down: complete stores, release, end, join, read
    for t in th:
        T = t.tid
        if t.phase == 'ready': out(f'{T} begin'); t.phase = 'running'
        if t.phase != 'running': continue
        if t.pending_ld is not None: out(f'{T} st {t.pending_ld}'); t.pending_ld = None
        for m in reversed(t.try_open): out(f'{T} unlock {m}')
        for m, how in reversed(t.held): out(f"{T} {'unlock' if how == 'l' else 'leave'} {m}")
        t.try_open = []; t.held = []
    pend = [t for t in th[1:] if t.phase == 'running']
    while pend:          # a thread that holds Thread objects returns after the threads they belong to
        ready_ = [t for t in pend if not any(th[u].phase in ('ready', 'running') for u in t.mheld)] or pend[:1]
        for t in ready_:
            if rng.random() < 0.9: out(f'{t.tid} pub {rng.randrange(1, 100000)}')
            emit_end(t); pend.remove(t)
    for t in th[1:]:
        if t.phase == 'done' and not t.joined and not t.gone: out(f'0 join {t.tid}'); out(f'0 rd {t.tid}'); out(f'0 rdo {t.tid}'); t.joined = True
    out('0 gc ' + ' '.join(f'T{u}' for u in sorted(th[0].mheld)))
    if rng.random() < 0.5 and th[0].mheld: out('0 churn 40'); out('0 gc')        # x out of scope after every join: the Thread objects are finalised
    return lines

def errmap_case():
    ls = ['M sched', 'N 1', '0 spawn 1', '1 begin']
    for f in PFNS:
        for e in ERRNOS:
            ls.append(f'0 perr {f} {e}'); ls.append(f'1 perr {f} {e}')
    ls += ['1 end', '0 join 1']
    return ls

class C13(Spec):
    id = 'C13'; engine = 'thr'; harness = 'h_thr'; driver = 'drv_thr'
    generators = ('Exn', 'Thr')
    harness_flags = ('-Wl,--wrap=pthread_mutex_lock', '-Wl,--wrap=pthread_mutex_trylock', '-Wl,--wrap=pthread_mutex_unlock',
                     '-Wl,--wrap=pthread_join', '-Wl,--wrap=malloc', '-Wl,--wrap=calloc', '-Wl,--wrap=pthread_create', '-Wl,--wrap=pthread_kill')
    harness_timeout = 90
    technique = ('Lean 4 proofs by induction over arbitrary schedules of a model of the thread bookkeeping (per-thread components reached only '
                 'through current(Thread) - except by the mark phase, which walks the thread-local table of every collector-managed Thread object it reaches, '
                 'and by the sweep that frees such an object: both modelled; the repaired defect (Thread_Join ignoring EDEADLK) and the withdrawn repair (Thread_Mark guarded by self is current(Thread)) are kept as explicit '
                 'variants selected by switches read from the source; holder machine for Mutex, join enabled after the epilogue); model tied to the code by replaying scripted '
                 'interleavings on real Cello threads event by event, and by free-running 2-16 real threads under schedule noise with a direct oracle')
    level_text = ('Theorems over ALL schedules (any number of threads, any interleaving, any per-thread programs; a schedule is any list of (thread, event)): '
                  'C13_noninterference / C13_schedule_independent (under the decidable hypothesis Isolated: no collection meets the collector-managed Thread object - var x = new(Thread, f) - '
                  'of a thread that is running or has thread-local values, no sweep frees the Thread object of a live thread; C13_isolated_without_managed_threads / C13_noninterference_raw: '
                  'unconditional when every struct Thread is raw; REFUTED without it, C13_noninterference_refuted = KF-C13-mark-foreign-tls: GC_Recurse -> Thread_Mark walks the table of any '
                  'Thread object the mark phase meets; C13_noninterference_guarded_variant / C13_guarded_variant_loses_objects: with the withdrawn repair 80c795e - Thread_Mark guarded by self is current(Thread) - '
                  'the full statement holds in the model, but an object held only through the table of a Thread object that is not running is finalised while the table still holds it, which is why commit 0a0ad73 withdrew it) '
                  '; C13_noninterference_walks (round 3) - the same conclusion under the NARROWER decidable hypothesis IsolatedN, exactly the logical territory of the finding: the table of a LIVE thread never decides what a collection of another thread finalises '
                  '(walkNeutral); collections by the maker between call(x) and join(x) and tables left behind by finished threads are inside; the solo run is handed the tables of the not-live Thread objects its collections reach (projM); C13_isolated_is_narrower: Isolated implies IsolatedN '
                  '- each thread\'s final component (collector registry, exception record, thread-local table, ledger of '
                  'finalised objects) and every outcome of its local operations equal those of the thread running alone on its projection of the execution, whatever the '
                  'others do and whatever the shared class cache contains (C13_cache_transparent); C13_frame - a step of one thread changes no other thread\'s component; '
                  'C13_exn_isolated - an exception program of one thread yields the structured-exception trace of C07 and touches no other thread; C13_mutex / C13_with_exclusive - '
                  'at every point of every UB-free schedule at most one thread is inside sections of one Mutex (lock/unlock, trylock, with) and it is the holder; '
                  'C13_counter_exact - non-atomic increments made inside sections are never lost; C13_join / C13_join_full / C13_join_current_source / C13_join_publishes - every step of a run of t precedes the return of '
                  'join t by any thread and every later read (until the Thread object is called again) yields t\'s final published value (= its solo value); join(current(Thread)) raises ResourceError '
                  '(C13_join_self_raises, C13_join_edeadlk_raises about the extracted table, C13_join_repair_in_current_source); the OLD variant without the EDEADLK case is refuted: C13_join_old_refuted, was KF-C13-join-edeadlk, fixed by 484991f; C13_join_publishes_own_object - a result object the thread allocated is '
                  'usable by the joiner iff the thread\'s collector had not finalised it; C13_join_publishes_object_refuted = KF-C13-join-result-finalised: the teardown finalises every object made with plain new; C13_args_partial / C13_args_delivered - an object handed to a thread as an argument (call(x, obj): Thread_Call keeps a raw copy of the tuple, G.args) is read back live by the thread whenever every collection of its owner finds it elsewhere (owner\'s stack, thread-local values, root: decidable ArgsSafe); C13_args_refuted = KF-C13-thread-arg-collected: without that the spawner\'s collector finalises the argument while the thread uses it (full statement C13_args_statement kept); C13_teardown_own / C13_teardown_step / C13_foreign_del - a collector (del, '
                  'collection, the teardown in Thread_Init_Run) only ever finalises objects its own thread allocated; C13_teardown_survives_destructor_exceptions - with the epilogue '
                  'order of the current source (collector before exception record, read from the source on every run) no del, collection or thread teardown ever runs a destructor '
                  'without the thread\'s exception record (C13_teardown_old_order_refuted: the order before commit 7de4bbc crashes on a 4-event schedule). C13_sync_step_is_translated_primitive (extension round) - in every state the lock/trylock/unlock/join step of the machine IS: test t->thread (join), call the pthread primitive once (pmLock/pmTrylock/pmUnlock/pJoin), look its return value up in the table extracted from Mutex_Lock/Mutex_Trylock/Mutex_Unlock/Thread_Join, raise or return, the Mutex changing hands only on 0 (C13_sync_tables_current_source; OLD join table = OLD variant: C13_sync_step_old_join_variant); C13_trylock_translation / C13_trylock_true_iff_primitive_succeeded - trylock returns true iff the primitive returned 0 (then the caller holds), false iff EBUSY (then nothing changes), raises iff EINVAL; over ALL error codes "true only on success" is refuted (C13_trylock_true_only_on_success_refuted: an unlisted code falls through to return true; unreachable for the default-kind mutexes Mutex_New makes: _partial); C13_join_protocol - for every state of the flags: nothread iff t->thread is 0, joined iff pthread_join returned 0 iff the target finished, was not joined and is not the caller, ResourceError iff self, never early, blocked iff live; C13_create_stop_failure_is_local / C13_stop_create_translation_current_source - a failing pthread_create / pthread_kill under Thread_Call / Thread_Stop raises what the extracted table says in the caller only, no thread comes into being; C13_wrapper_order_current_source - order of flag test, primitive call and err tests, is_running set by the prologue and not cleared by the epilogue, read from the source. C13_source_shape_as_modelled, C13_join_repair_in_current_source and '
                  'C13_error_translation_current_source re-check on every run that the 36 source fragments the model mirrors (Thread_Current, GC_Current, Exception_Current, '
                  'Thread_Init_Run, Thread_Mark and its instance, Thread_Del, Thread_Assign, the Mark dispatch of GC_Recurse, GC_New/Del, alloc_by/del_by, start_in/stop_in/with, Mutex_*, Thread_Join, Thread_Stop, Thread_Running, Thread_C_Int, the flag initialisation of Thread_New, the cache macro) and the pthread error translation are the text '
                  'the model was written against. The model is tied to /repo by executing scripted interleavings on real Cello threads (baton) comparing every event outcome, '
                  'and by free-running 2-16 real threads under schedule noise comparing all local outcomes plus digest-vs-solo, ledger, in-section, counter and join oracles.')
    level_note = ('PARTIAL by nature: the theorems are about the bookkeeping (per-thread state is reached only through current(Thread) - frame, join and mutex theorems read back that '
                  'shape of the model, which is tied to the code by the extracted source texts and the correspondence runs; Mutex = holder machine; join after '
                  'the epilogue) in a sequentially consistent model at operation granularity. Three known findings, each with its full statement kept and refuted in the model: '
                  'KF-C13-mark-foreign-tls, KF-C13-join-result-finalised, KF-C13-thread-arg-collected (KF-C13-join-edeadlk is repaired: full statement proved for the current source, OLD variant refuted). Not exhibited by the model and covered only by running: real data races (the walk of a foreign '
                  'thread-local table is an atomic read in the model; `races` counts where it would be a race) '
                  'and memory-model effects, the pthread implementation, signals, the conservative stack scan (a collection is modelled with an arbitrary marked set). '
                  'Trusted: Lean kernel; harness/h_thr.c + lean/Driver/Thr.lean comparison (testing); pthread and libc.')
    rule = ('op files are schedules (tid, op): (a) scripted interleavings (mode sched) of 1-8 workers + main generated by simulating the lock/join machine, including '
            'objects whose destructors do try/throw/catch, Thread objects that are called again after being joined, Thread objects made the documented way by main (newthr: new(Thread, f) kept in a stack '
            'variable; the maker\'s collections - explicit and the real threshold collections - then walk that worker\'s thread-local table, which in half of the cases holds up to 87 distinct keys and refers to the maker\'s objects), threads that join themselves (ResourceError), result objects handed to the joiner (pubo/rdo), objects handed to a thread as arguments and read back in the thread function (call U K / rdarg I), with blocks left by an exception (wthrow M: the Mutex stays locked by the thread), Thread objects made by workers (newthr by any thread under the baton; a worker returns only after the threads whose Thread objects it holds), pthread primitives replaced by a chosen return value (perr F E for F in lock trylock unlock join create stop: the wrapper must make exactly one call of that primitive on the pthread object of the Cello object and translate E as documented), deliberately disabled events (blocked lock/join, unlock by a non-holder, ops of unborn/finished threads, reused serials, ill-formed lines), executed on real '
            'Cello threads in exactly that order; every event outcome is compared with the model; (b) free-running schedules (mode free) of 2-16 real threads with yields/spins '
            'at op boundaries, in malloc/calloc and in the pthread calls: all local outcomes are compared with the model, synchronisation outcomes are masked; workloads '
            '(container-, allocation-, exception-, TLS-heavy) are compared with their solo digests. non-trivial = at least two threads ran and the case contains a contended '
            'lock/trylock (sched), a collection or teardown that finalised objects, or an exception handler; distinct = distinct op-file text.')
    trusted_base = ('harness/h_thr.c + lean/Driver/Thr.lean (correspondence is testing)',
                    'translate/gen.py generator Exn (exception parameters reused from C07); translate/g_thr.py generator Thr (regex over Thread.c, GC.c, Exception.c, Alloc.c, Start.c, Type.c, Cello.h)',
                    'pthread, libc, the scheduler (real concurrency is exercised, not modelled)')
    assumptions = ('no uncaught exception in any thread (Exception_Error exits the whole process: every exception program is wrapped in a catch-all)',
                   'thread-local keys of the user do not start with "__" (reserved: __GC, __Exception)',
                   'a Mutex is unlocked only by its holder and not relocked by its holder (undefined behaviour / deadlock of the default pthread mutex: modelled as ub / blocked, not executed)',
                   'a run of a thread is joined at most once (a joined Thread object may be called again); objects referenced from another thread\'s TLS are roots that are never deleted',
                   'word-sized stores to the class cache are atomic (the cache stores only the declared instance)',
                   'KF-C13-mark-foreign-tls: outside the baton (free-running cases) the thread that made a worker\'s Thread object with new(Thread, f) executes no operation that can collect between call and join of that worker (the driver\'s `races` count is checked to be 0 on every free-running case); only main makes such Thread objects; Thread objects are not stored as thread-local values',
                   'KF-C13-join-result-finalised: result objects handed to the joiner (pubo) are roots that are never deleted',
                   'mutual joins are not generated (glibc 2.36 deadlocks on them instead of reporting EDEADLK)',
                   'KF-C13-thread-arg-collected: objects handed to a thread as arguments (call U K) are kept reachable by their owner - roots, or objects main keeps on its stack in every collection and never deletes (the driver\'s `arg-unsafe` count, the steps outside the hypothesis ArgsSafe, is checked to be 0 on every generated case)',
                   'an uncaught exception in a worker ends the whole process (Exception_Error -> exit): a plain counter-example to "never diverts another thread\'s control flow", by design of the library; not generated',
                   'stop(x) is exercised only with pthread_kill replaced (perr stop E): the real call sends SIGINT, whose default action ends the whole process (signals are outside the model); running(x) / c_int(x) / hash / cmp of a Thread object are pinned text only (is_running is never cleared: running(x) stays true after join - C13_wrapper_order_current_source records it)',
                   'not modelled: Thread_Assign / copy of a Thread object, Thread objects as thread-local values, set(x, key, v) on a Thread object other than current(Thread) (the keep layer of C18 has it), mutual joins')
    def cases(self, rng, tier, boost=1):
        quick = tier == 'quick'
        cs = []
        fmk = foreign_mark_in_source()
        nsched = (150 if quick else 1500) * boost
        for i in range(nsched):
            nw = rng.choice([1, 2, 2, 3, 4, 6, 8])
            fl = rng.choice(['mixed', 'mixed', 'locks', 'gc', 'exn', 'work'])
            cs.append(Case(f'sched{i}', gen_schedule(rng, nw, rng.choice([60, 150, 300]) if quick else rng.choice([100, 300, 600]), 'sched', fl,
                                                     managed=rng.choice([0.0, 0.5, 1.0]), foreign_mark=fmk)))
        nfree = (150 if quick else 1000) * boost
        for i in range(nfree):
            nw = rng.choice([2, 3, 4, 6, 8, 12, 15] if quick else [2, 4, 8, 12, 15, 16])
            fl = rng.choice(['mixed', 'locks', 'locks', 'gc', 'exn', 'work', 'work'])
            cs.append(Case(f'free{i}', gen_schedule(rng, nw, rng.choice([80, 200, 400]) if quick else rng.choice([200, 400, 800]), 'free', fl,
                                                    managed=rng.choice([0.0, 0.5, 1.0]), foreign_mark=fmk)))
        cs.append(Case('errmap', errmap_case()))
        return cs
    def nontrivial_items(self, case, c_out, m_out):
        obs = core.lines_with('O ', c_out)
        began = sum(1 for o in obs if ' begin begun' in o)
        if began < 1: return set()
        hit = any((' blocked' in o) or ('tried=0' in o) for o in obs) or any(' h' in o.split('end=')[0] or ',h' in o for o in obs if ' x trace=' in o) \
            or any(('fin=[' in o and 'fin=[]' not in o) or ('garbage=' in o and 'garbage=0' not in o) for o in obs)
        return {hash('\n'.join(case.lines))} if hit else set()
    def stats(self, case, c_out, m_out, acc):
        mode = 'free' if any(l.startswith('M free') for l in case.lines[:3]) else 'sched'
        acc['cases_' + mode] = acc.get('cases_' + mode, 0) + 1
        for o in core.lines_with('O ', c_out):
            p = o.split()
            if len(p) < 4: acc['bad-op'] = acc.get('bad-op', 0) + 1; continue
            acc['op_' + p[3]] = acc.get('op_' + p[3], 0) + 1
            if len(p) > 4 and p[4] in ('blocked', 'dead', 'ub', 'bad', 'tried=0', 'nothread', 'KeyError', 'ValueError', 'ResourceError'):
                acc['out_' + p[4]] = acc.get('out_' + p[4], 0) + 1
        for l in core.lines_with('S ', m_out):
            for kv in l.split():
                for key in ('races=', 'not-isolated=', 'walk-decides=', 'arg-unsafe=', 'managed='):
                    if kv.startswith(key) and kv[len(key):].isdigit(): acc['model_' + key[:-1]] = acc.get('model_' + key[:-1], 0) + int(kv[len(key):])
        for l in case.lines:
            p = l.split()
            if len(p) == 4 and p[1] == 'perr': acc[f'perr_{p[2]}_{p[3]}'] = acc.get(f'perr_{p[2]}_{p[3]}', 0) + 1
        # which branch of flag test / primitive each synchronisation event took in the model (Cello/ThreadsSync.lean `syncBranch`)
        for l in core.lines_with('I sync-branches', m_out):
            for kv in l.split()[2:]:
                k, _, v = kv.partition('=')
                if v.isdigit(): acc['branch_' + k] = acc.get('branch_' + k, 0) + int(v)
        for l in core.lines_with('I ', c_out):
            for kv in l.split():
                if kv.startswith('workers='): acc['max_workers'] = max(acc.get('max_workers', 0), int(kv[8:]))
                if kv.startswith('workloads='): acc['workloads'] = acc.get('workloads', 0) + int(kv[10:])
    def compare(self, case, c_out, m_out):
        d = core.first_divergence(c_out, m_out)
        if d: return d
        # safety net: a free-running case must not contain a step at which a collection walks the thread-local table of a live
        # thread (the model's `races`, printed by the driver): that is the territory of KF-C13-mark-foreign-tls
        if any(l.startswith('M free') for l in case.lines[:3]):
            for l in core.lines_with('S ', m_out):
                m = [kv for kv in l.split() if kv.startswith('races=')]
                if m and m[0] != 'races=0': return (-1, '<generator>', f'free-running case in the territory of KF-C13-mark-foreign-tls: {l}')
        # generated cases keep the arguments of live threads reachable (hypothesis ArgsSafe of C13_args_partial)
        if case.name.startswith(('sched', 'free')):
            for l in core.lines_with('S ', m_out):
                m = [kv for kv in l.split() if kv.startswith('arg-unsafe=')]
                if m and m[0] != 'arg-unsafe=0': return (-1, '<generator>', f'generated case in the territory of KF-C13-thread-arg-collected: {l}')
        return None
    def model_selfcheck(self, case, m_out):
        for l in core.lines_with('S ', m_out):
            if 'exclusion=false' in l: return f'the model run violates mutual exclusion on its own trace: {l}'
            if 'sync-layer-diff=' in l and 'sync-layer-diff=0' not in l: return f'a synchronisation event executed as extracted table applied to the primitive (syncStep) differs from the machine (step): {l}'
        return None

SPEC = C13()
