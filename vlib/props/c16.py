"""C16 — String behaves as a C-string value (engine str)."""
import itertools
from ..runner import Spec, Case
from .. import core

MUTATORS = ('assign', 'assignself', 'assigns', 'concat', 'concats', 'append', 'resize', 'clear', 'rem', 'rems', 'fmt', 'fmtl', 'print', 'pf', 'show', 'remi', 'fmtrej', 'pfrej', 'look', 'looks')
ESC = {7: b'\\a', 8: b'\\b', 12: b'\\f', 10: b'\\n', 13: b'\\r', 9: b'\\t', 11: b'\\v', 92: b'\\\\', 39: b"\\'", 34: b'\\"', 63: b'\\?'}

def hx(b): return b.hex() if b else '-'

def shown(b):
    return b'"' + b''.join(ESC.get(c, bytes([c])) for c in b) + b'"'

# ---- formatted writes through print_to_with / show_to (ops `pf`, `show`): formats, arguments, and (only to keep track of the
# text so that later operands and positions can be chosen relative to it) what they print
INT_EDGES = (0, 1, -1, 9, 10, -10, 255, 256, -128, 2**31 - 1, -2**31, 2**31, 2**32 - 1, 2**32, -2**32, 2**63 - 1, -2**63, 10**18)

def pad(left, zero, width, sign, digits):
    fill = b'' if width is None else (b'0' if (zero and not left) else b' ') * max(0, width - len(sign) - len(digits))
    if left: return sign + digits + fill
    if zero: return sign + fill + digits
    return fill + sign + digits

def render_spec(flags, width, prec, lng, conv, v):
    left, zero, plus = '-' in flags, '0' in flags, '+' in flags
    if conv == 's': return pad(left, False, width, b'', v if prec is None else v[:prec])
    if conv == 'c': return pad(left, False, width, b'', bytes([v % 256]))
    if conv in 'di':
        m = v if lng else ((v + 2**31) % 2**32) - 2**31
        return pad(left, zero, width, b'-' if m < 0 else (b'+' if plus else b''), str(abs(m)).encode())
    m = v % (2**64 if lng else 2**32)
    return pad(left, zero, width, b'', format(m, {'u': 'd', 'x': 'x', 'X': 'X', 'o': 'o'}[conv]).encode())

UNESC = {v[1]: k for k, v in ESC.items()}

def look_ref(t, pos):
    """what String_Look leaves in the target when it reads the text t from pos, and whether it returns (only to keep track of the text)"""
    out = bytearray()
    if t[pos:pos + 1] != b'"': return b'', False
    i = pos + 1
    while True:
        if i >= len(t): return bytes(out), False
        c = t[i]
        if c == 34: return bytes(out), True
        if c == 92:
            if i + 1 >= len(t) or t[i + 1] not in UNESC: return bytes(out), False
            out.append(UNESC[t[i + 1]]); i += 2; continue
        out.append(c); i += 1

def show_val(v):
    if isinstance(v, int): return str(v).encode()
    if isinstance(v, bytes): return shown(v)
    return b'tuple(' + b', '.join(show_val(x) for x in v) + b')'

def arg_tokens(v):
    if isinstance(v, int): return [f'i{v}']
    if isinstance(v, bytes): return ['s' + hx(v)]
    return [f't{len(v)}'] + [t for x in v for t in arg_tokens(x)]

class Gen:
    """history generator that tracks the abstract text of every object (only to CHOOSE operands: empty, equal,
    at the start / middle / end, overlapping, absent, near misses); expected results are never taken from here"""
    def __init__(self, rng, alphabet, maxlen, nobj=3):
        self.rng = rng; self.al = alphabet; self.maxlen = maxlen; self.nobj = nobj
        self.txt = {}; self.lines = []
    def rtext(self, n):
        return bytes(self.rng.choice(self.al) for _ in range(n))
    def rlen(self, cap=None):
        r = self.rng.random(); m = self.maxlen if cap is None else min(cap, self.maxlen)
        if r < 0.15 or m <= 0: return 0
        if r < 0.33:                                                                  # around the 8-byte blocks of hash_data
            c = [x for x in BLOCK_EDGES if x <= m]
            if c: return self.rng.choice(c)
        if r < 0.65: return self.rng.randrange(1, min(m, 8) + 1)
        if r < 0.9: return self.rng.randrange(1, min(m, 64) + 1)
        return self.rng.randrange(1, m + 1)
    def operand(self, t):
        """a text chosen relative to the target's text t"""
        rng = self.rng; r = rng.random(); n = len(t)
        if r < 0.07: return b''
        if r < 0.14: return t
        if n and r < 0.26: return t[:rng.randrange(1, n + 1)]                      # at the start
        if n and r < 0.38: return t[rng.randrange(n):]                              # at the end
        if n and r < 0.55:                                                            # in the middle
            i = rng.randrange(n); j = rng.randrange(i, min(n, i + rng.choice([1, 2, 3, 8, 64, 2048]))) + 1
            return t[i:j]
        if n and r < 0.65:                                                            # a later occurrence of something that also occurs earlier
            i = rng.randrange(n); k = rng.choice([1, 1, 2, 3]); return t[i:i + k]
        if n and r < 0.75:                                                            # near miss: a substring with one byte changed
            i = rng.randrange(n); j = min(n, i + rng.randrange(1, 6)); x = bytearray(t[i:j])
            p = rng.randrange(len(x)); x[p] = rng.choice([c for c in self.al if c != x[p]] or [x[p] % 255 + 1]); return bytes(x)
        if r < 0.82: return t + self.rtext(rng.randrange(1, 4))                      # longer than the target
        if n and r < 0.88: return self.rtext(1) + t[:rng.randrange(n)]
        return self.rtext(self.rlen(64))
    def rint(self):
        rng = self.rng; r = rng.random()
        if r < 0.3: return rng.randrange(-9, 100)
        if r < 0.55: return rng.choice(INT_EDGES)
        return rng.choice([1, -1]) * rng.getrandbits(rng.choice([8, 16, 31, 32, 33, 62]))
    def rval(self, depth=1):
        rng = self.rng; r = rng.random()
        if r < 0.4: return self.rint()
        if r < 0.75 or depth >= 3: return self.rtext(rng.randrange(0, 7))
        return tuple(self.rval(depth + 1) for _ in range(rng.choice([0, 1, 2, 2, 3])))
    def rformat(self, t):
        """a format, its arguments and what it prints: literal runs, `%%`, specifications, `%$`, in sequence"""
        rng = self.rng; fmt = b''; out = b''; args = []
        if rng.random() < 0.02: return fmt, args, out
        for _ in range(rng.choice([1, 1, 2, 2, 3, 3, 4, 5, 6])):
            kind = rng.choice('LLPPSSSS$')
            if kind in 'S$' and len(args) == 8: kind = 'P'
            if kind == 'L':
                al = bytes(c for c in self.al if c != 37) or b'.'
                if rng.random() < 0.2: al += b' \t\n'
                x = bytes(rng.choice(al) for _ in range(rng.choice([1, 1, 2, 3, 6, 40]))); fmt += x; out += x
            elif kind == 'P':
                k = rng.choice([1, 1, 1, 2]); fmt += b'%%' * k; out += b'%' * k
            elif kind == '$':
                v = self.rval(); fmt += b'%$'; out += show_val(v); args.append(v)
            else:
                conv = rng.choice('ssssdddiiuxXocc')
                flags = ''.join(f for f in {'s': '-', 'c': '-', 'd': '-0+', 'i': '-0+'}.get(conv, '-0') if rng.random() < 0.25)
                width = rng.choice([None, None, None, 1, 2, 3, 5, 8, 12, rng.randrange(1, 100)])
                prec = rng.choice([None, None, 0, 1, 2, 5, 10]) if conv == 's' else None
                lng = conv not in 'sc' and rng.random() < 0.5
                if conv == 's':
                    v = self.operand(t)[:40] if rng.random() < 0.3 else self.rtext(rng.randrange(0, 9))
                elif conv == 'c':
                    v = rng.choice([c for c in self.al if c != 0]) + 256 * rng.choice([0, 0, 0, 1, -1])
                else: v = self.rint()
                fmt += ('%' + flags + ('' if width is None else str(width)) + ('' if prec is None else f'.{prec}') + ('l' if lng else '') + conv).encode()
                out += render_spec(flags, width, prec, lng, conv, v); args.append(v)
        if rng.random() < 0.08 and len(args) < 8: args.append(self.rval())           # an argument no specification uses
        return fmt, args, out
    def emit(self, l): self.lines.append(l)
    def look_step(self, k, others):
        """look_from(s_k, s_j, pos) -> String_Look: a round trip through show_to, a damaged shown String, or whatever j holds"""
        rng = self.rng; j = rng.choice(others); tj = self.txt[j]; r = rng.random()
        op = 'looks' if rng.random() < 0.25 else 'look'
        if r < 0.55:
            x = self.operand(self.txt[k])[:60] if rng.random() < 0.4 else self.rtext(self.rlen(60))
            if rng.random() < 0.3: x += bytes(rng.choice(list(ESC)) for _ in range(rng.randrange(1, 4)))
            pos = rng.choice([0, len(tj), rng.randrange(len(tj) + 1)])
            if pos + 2 * len(x) + 2 > self.maxlen + 64: pos = 0
            self.emit(f'show {j} {pos} s{hx(x)}'); tj = tj[:pos] + shown(x)
            if rng.random() < 0.3:
                y = self.rtext(rng.randrange(1, 5)); self.emit(f'append {j} {hx(y)}'); tj += y      # text behind the closing quote
            self.txt[j] = tj
        elif r < 0.85:
            x = shown(self.rtext(self.rlen(12))); w = rng.randrange(7)
            if w == 0: x = x[:-1]                                                       # unterminated
            elif w == 1: x = x[1:]                                                      # no opening quote
            elif w == 2: x = x[:-1] + b'\\'                                             # a backslash, then the end
            elif w == 3: q = rng.randrange(1, len(x)); x = x[:q] + b'\\' + bytes([rng.choice(b'cdexz0A 1')]) + x[q:]   # unknown escape letter
            elif w == 4: q = rng.randrange(1, len(x)); x = x[:q] + b'\\' + bytes([rng.choice(list(UNESC))]) + x[q:]    # a known one
            elif w == 5: x = b''
            else: q = rng.randrange(1, len(x) + 1); x = x[:q] + b'"' + x[q:]            # a quote in the middle: the literal ends there
            x = bytes(c for c in x if c != 0)
            self.emit(f'assign {j} {hx(x)}'); self.txt[j] = tj = x; pos = 0
        else:
            pos = rng.randrange(len(tj) + 1)
            q = tj.find(b'"')
            if q >= 0 and rng.random() < 0.6: pos = q
        self.emit(f'{op} {k} {j} {pos}')
        self.txt[k] = look_ref(tj, pos)[0]
    def live(self): return sorted(self.txt)
    def step(self):
        rng = self.rng
        if not self.txt or (len(self.txt) < self.nobj and rng.random() < 0.08):
            k = rng.choice([i for i in range(self.nobj) if i not in self.txt])
            r = rng.random()
            if r < 0.2: self.emit(f'new0 {k}'); self.txt[k] = b''
            elif r < 0.35 and self.txt: j = rng.choice(self.live()); self.emit(f'copy {k} {j}'); self.txt[k] = self.txt[j]
            else:
                # one in five lives INSIDE an Array (allocation class AllocData): the same code reallocates its buffer
                x = self.rtext(self.rlen()); self.emit(f"{'newin' if rng.random() < 0.2 else 'new'} {k} {hx(x)}"); self.txt[k] = x
            return
        k = rng.choice(self.live()); t = self.txt[k]; n = len(t)
        others = [j for j in self.live() if j != k]
        if others and rng.random() < 0.05: self.look_step(k, others); return
        r = rng.random()
        if r < 0.02 and len(self.txt) > 1:
            self.emit(f'del {k}'); del self.txt[k]
        elif r < 0.10:
            x = self.rtext(self.rlen()); self.emit(f'assign {k} {hx(x)}'); self.txt[k] = x
        elif r < 0.11:
            self.emit(f'assignself {k}')                                                # assign(s, s): a no-op since 744a45f
        elif r < 0.13 and others:
            j = rng.choice(others); self.emit(f'assigns {k} {j}'); self.txt[k] = self.txt[j]
        elif r < 0.30:
            x = self.operand(t) if rng.random() < 0.4 else self.rtext(self.rlen(self.maxlen - n))
            if n + len(x) > self.maxlen: x = x[:max(0, self.maxlen - n)]
            self.emit(f"{rng.choice(['concat', 'append'])} {k} {hx(x)}"); self.txt[k] = t + x
        elif r < 0.33 and others and n + len(self.txt[others[0]]) <= self.maxlen:
            j = others[0]; self.emit(f'concats {k} {j}'); self.txt[k] = t + self.txt[j]
        elif r < 0.43:
            m = rng.choice([0, n, max(0, n - 1), n + 1, rng.randrange(n + 1), n + rng.randrange(1, 40), rng.randrange(self.maxlen + 1)])
            self.emit(f'resize {k} {m}'); self.txt[k] = t[:m]
        elif r < 0.45:
            self.emit(f'clear {k}'); self.txt[k] = b''
        elif r < 0.62:
            x = self.operand(t); self.emit(f'rem {k} {hx(x)}')
            i = t.find(x)
            if i >= 0: self.txt[k] = t[:i] + t[i + len(x):]
        elif r < 0.64 and others:
            j = rng.choice(others); x = self.txt[j]; self.emit(f'rems {k} {j}')
            i = t.find(x)
            if i >= 0: self.txt[k] = t[:i] + t[i + len(x):]
        elif r < 0.72:
            pos = rng.choice([0, n, n, max(0, n - 1), rng.randrange(n + 1), rng.randrange(n + 1)])
            if rng.random() < 0.06: pos = n + rng.randrange(1, 20)                   # behind the terminator: outside the property, inside the model
            x = self.rtext(self.rlen(max(0, self.maxlen - pos)))
            if pos + len(x) > self.maxlen + 64: x = x[:8]
            op = 'fmtl' if (37 not in x and rng.random() < 0.4) else 'fmt'
            self.emit(f'{op} {k} {pos} {hx(x)}')
            if pos <= n: self.txt[k] = t[:pos] + x
        elif r < 0.77:
            pos = rng.choice([0, n, rng.randrange(n + 1)])
            frags = []; out = b''; prev = ''; na = 0
            for _ in range(rng.randrange(1, 6)):
                kind = rng.choice('LSQ')
                if kind == 'L' and prev == 'L': kind = 'S'
                if kind in 'SQ' and na == 4: break
                x = self.rtext(rng.randrange(0 if kind != 'L' else 1, 7))
                if kind == 'L':
                    x = bytes(c for c in x if c != 37) or b'.'
                    out += x
                elif kind == 'S': out += x; na += 1
                else: out += shown(x); na += 1
                frags.append(kind + hx(x)); prev = kind
            if pos + len(out) <= self.maxlen + 64 and frags:
                self.emit(f"print {k} {pos} {' '.join(frags)}")
                self.txt[k] = t[:pos] + out
        elif r < 0.845:
            # formatted write through print_to_with: literal text, `%%`, `%s`, integers, `%c`, `%$`, several in sequence,
            # at pos = 0, inside, at len (and rarely behind the terminator: outside the property, inside the model)
            pos = rng.choice([0, n, n, n, rng.randrange(n + 1), rng.randrange(n + 1)])
            if rng.random() < 0.04: pos = n + rng.randrange(1, 20)
            fmt, args, out = self.rformat(t)
            if pos + len(out) <= self.maxlen + 64:
                self.emit(' '.join([f'pf {k} {pos} {hx(fmt)}'] + [tk for a in args for tk in arg_tokens(a)]))
                if pos <= n and fmt: self.txt[k] = t[:pos] + out
        elif r < 0.865:
            pos = rng.choice([0, n, n, rng.randrange(n + 1)])
            v = self.rval(); out = show_val(v)
            if pos + len(out) <= self.maxlen + 64:
                self.emit(' '.join([f'show {k} {pos}'] + arg_tokens(v)))
                self.txt[k] = t[:pos] + out
        elif r < 0.875: self.emit(f'scanw {k} {rng.choice([0, n, rng.randrange(n + 1), rng.randrange(n + 1)])}')
        elif r < 0.88:
            # the two repaired corners: an operand without a C string (ClassError, nothing changed), a format libc rejects
            # (negative return, String untouched; inside print_to_with: FormatError after the text before it)
            w = rng.choice(['remi', 'fmtrej', 'pfrej'])
            pos = rng.choice([0, n, rng.randrange(n + 1)])
            if w == 'remi': self.emit(f'remi {k} {self.rint()}')
            elif w == 'fmtrej': self.emit(f'fmtrej {k} {pos}')
            else:
                x = bytes(c for c in self.rtext(rng.randrange(0, 5)) if c != 37)
                self.emit(f'pfrej {k} {pos} {hx(x)}')
                if x: self.txt[k] = t[:pos] + x
        elif r < 0.895: self.emit(f'len {k}')
        elif r < 0.905: self.emit(f'cstr {k}')
        elif r < 0.93: self.emit(f'cmp {k} {hx(self.operand(t))}')
        elif r < 0.945: self.emit(f'eq {k} {hx(self.operand(t))}')
        elif r < 0.975: self.emit(f'mem {k} {hx(self.operand(t))}')
        elif r < 0.98 and others: self.emit(f'cmps {k} {rng.choice(others)}')
        else: self.emit(f'hash {k}')
    def run(self, nops):
        while len(self.lines) < nops: self.step()
        return self.lines

BLOCK_EDGES = (7, 8, 9, 15, 16, 17, 23, 24, 25, 31, 32, 33)
# byte classes for the systematic families: printable ASCII, bytes >= 0x80, control bytes, everything (no NUL: operands are C strings)
HASH_ALPHABETS = (bytes(range(32, 127)), bytes(range(0x80, 0x100)), bytes(range(1, 32)), bytes(range(1, 256)),
                  b'a\x01\x1f\x7f\x80\xff', b'ab')
CMP_BYTES = (0x01, 0x09, 0x1f, 0x20, 0x41, 0x7e, 0x7f, 0x80, 0x81, 0xa5, 0xfe, 0xff)
MUT_KINDS = ('new', 'assign', 'assigns', 'copy', 'concat', 'append', 'concats', 'resize', 'rem', 'rems', 'fmt', 'fmtl', 'print', 'printL',
             'pf', 'show', 'pfrej', 'look', 'unchanged')

def hash_lengths(rng, tier):
    ls = list(range(0, 41)) + [47, 48, 49, 63, 64, 65]
    more = [127, 128, 129, 255, 256, 257, 1023, 1024, 1025, 4095, 4096]
    ls += [rng.choice(more), rng.randrange(41, 4097)] if tier == 'quick' else more + [rng.randrange(41, 4097) for _ in range(12)]
    return ls

def noesc(rng, al, n):
    """n bytes of the alphabet that String_Show prints as themselves and that are not `%`"""
    ok = [c for c in al if c not in ESC and c != 37] or [97]
    return bytes(rng.choice(ok) for _ in range(n))

def mutation_to(rng, kind, T, al):
    """op lines that leave object 0 (live, any text) holding the text T — by the given kind of mutation —, or None when this
    kind cannot produce T; objects 1, 2 are free before and after.  Every mutation is followed by the harness's dump, which
    judges len / c_str / eq / cmp / hash (value) of the result; the caller adds the `hash` / `len` observers for the O lines."""
    n = len(T); rt = lambda k: bytes(rng.choice(al) for _ in range(k))
    cut = rng.choice([0, n, n // 2, max(0, n - 1), 8 * (n // 8), max(0, 8 * (n // 8) - 1), rng.randrange(n + 1)])
    cut = min(cut, n)
    if kind == 'new': return ['del 0', f'new 0 {hx(T)}'] if n else ['del 0', 'new0 0']
    if kind == 'assign': return [f'assign 0 {hx(T)}']
    if kind == 'assigns': return [f'new 1 {hx(T)}', 'assigns 0 1', 'del 1']
    if kind == 'copy': return [f'new 1 {hx(T)}', 'del 0', 'copy 0 1', 'del 1']
    if kind in ('concat', 'append'): return [f'assign 0 {hx(T[:cut])}', f'{kind} 0 {hx(T[cut:])}']
    if kind == 'concats': return [f'assign 0 {hx(T[:cut])}', f'new 1 {hx(T[cut:])}', 'concats 0 1', 'del 1']
    if kind == 'resize': return [f'assign 0 {hx(T + rt(rng.choice([1, 7, 8, 9, 40])))}', f'resize 0 {n}'] if rng.random() < 0.8 else [f'assign 0 {hx(T)}', f'resize 0 {n + rng.choice([0, 1, 8, 64])}']
    if kind in ('rem', 'rems'):
        # U with its FIRST occurrence of X removed is T: put X at `cut` and retry until no earlier occurrence exists
        for _ in range(20):
            X = rt(rng.choice([1, 2, 3, 7, 8, 9])); U = T[:cut] + X + T[cut:]
            if U.find(X) == cut:
                return [f'assign 0 {hx(U)}', f'rem 0 {hx(X)}'] if kind == 'rem' else [f'assign 0 {hx(U)}', f'new 1 {hx(X)}', 'rems 0 1', 'del 1']
        return None
    junk = rt(rng.choice([0, 1, 9, 20]))
    if kind == 'fmt': return [f'assign 0 {hx(T[:cut] + junk)}', f'fmt 0 {cut} {hx(T[cut:])}']
    if kind == 'fmtl': return None if 37 in T[cut:] else [f'assign 0 {hx(T[:cut] + junk)}', f'fmtl 0 {cut} {hx(T[cut:])}']
    if kind == 'print': return [f'assign 0 {hx(T[:cut] + junk)}', f'print 0 {cut} S{hx(T[cut:])}']
    if kind == 'printL':
        tail = T[cut:]
        if not tail or 37 in tail: return None
        h = len(tail) // 2
        return [f'assign 0 {hx(T[:cut] + junk)}', f'print 0 {cut} L{hx(tail[:h])} S{hx(tail[h:])}' if h else f'print 0 {cut} L{hx(tail)}']
    if kind == 'pf':
        tail = T[cut:]; h = len(tail) // 2; lit = tail[:h]
        if 37 in lit: lit = b''; h = 0
        return [f'assign 0 {hx(T[:cut] + junk)}', f'pf 0 {cut} {hx(lit + b"%s")} s{hx(tail[h:])}']
    if kind == 'show':
        # show_to writes the quoted, escaped text: T must be <prefix> " <chars printed as themselves> "
        if n - cut < 2: cut = max(0, n - 2)
        if n < 2: return None
        body = T[cut + 1:n - 1]
        if T[cut] != 34 or T[n - 1] != 34 or any(c in ESC for c in body): return None
        return [f'assign 0 {hx(T[:cut] + junk)}', f'show 0 {cut} s{hx(body)}']
    if kind == 'look': return look_lines(rng, T, rt)
    if kind == 'pfrej': return None if (37 in T[cut:] or cut == n) else [f'assign 0 {hx(T[:cut] + junk)}', f'pfrej 0 {cut} {hx(T[cut:])}']
    if kind == 'unchanged':       # the refused calls leave the text alone: the hash after them is the hash before
        return [f'assign 0 {hx(T)}', f'remi 0 {rng.choice([0, 7, -1, 2**40])}', 'assignself 0', f'fmtrej 0 {rng.choice([0, n])}'] + ([f'rem 0 {hx(T + b"a")}'])
    return None

def look_lines(rng, T, rt):
    pre = rt(rng.choice([0, 0, 3]))
    return [f'new 1 {hx(pre + shown(T) + rt(rng.choice([0, 2])))}', f"{rng.choice(['look', 'look', 'looks'])} 0 1 {len(pre)}", 'del 1']

def look_family(rng, tier):
    """String_Look: every byte value as a one-character text and inside a longer one, through show_to and back (the escape table in
    both directions); every byte value after a backslash; every length 0..40; shown Strings cut short at every position"""
    lines = ['new0 0', 'new0 1']
    for c in range(1, 256):
        x = bytes([c]); lines += [f'show 1 0 s{hx(x)}', 'look 0 1 0', f'eq 0 {hx(x)}']
        y = b'p' + x + b'q' + x; lines += [f'assign 1 {hx(b"ab")}', f'show 1 2 s{hx(y)}', 'looks 0 1 2', f'eq 0 {hx(y)}', 'hash 0']
        z = bytes([34, 107, 92, c, 109, 34]); lines += [f'assign 1 {hx(z)}', 'look 0 1 0', 'len 0']
    for L in range(0, 41 if tier == 'quick' else 130):
        al = HASH_ALPHABETS[L % len(HASH_ALPHABETS)]; x = bytes(rng.choice(al) for _ in range(L))
        lines += [f'assign 1 {hx(shown(x) + b"tail")}', 'look 0 1 0', f'eq 0 {hx(x)}', 'hash 0', 'len 0']
    x = bytes(rng.choice(b'ab"\\\n\t?z') for _ in range(12)); sx = shown(x)
    for cut in range(len(sx)):
        if sx[:cut]: lines += [f'assign 1 {hx(sx[:cut])}', 'look 0 1 0', 'len 0']
    lines += ['del 1', 'del 0']
    return [lines]

def hash_family(rng, tier):
    """every length 0..40 (and longer ones) x every kind of mutation, the byte class rotating (quick) or every class (thorough);
    then, per length, texts of that length that differ in ONE byte (first, last, around the last 8-byte boundary) — the pairs
    a hash that skips part of the text confuses"""
    quick = tier == 'quick'; lines = ['new0 0']; i = 0
    for L in hash_lengths(rng, tier):
        for kind in MUT_KINDS:
            als = [HASH_ALPHABETS[(i + L) % len(HASH_ALPHABETS)]] if quick else HASH_ALPHABETS
            i += 1
            if L > 300 and not quick: als = als[:2] if kind in ('new', 'concat', 'rem', 'fmt', 'pf', 'resize') else ()
            for al in als:
                if kind == 'show':
                    if L < 2: continue
                    pre = rng.choice([0, 0, (L - 2) // 2]); T = bytes(rng.choice(al) for _ in range(pre)) + b'"' + noesc(rng, al, L - 2 - pre) + b'"'
                    ls = ([f'assign 0 {hx(T[:pre] + b"zz")}', f'show 0 {pre} s{hx(T[pre + 1:L - 1])}'])
                else:
                    T = bytes(rng.choice(al) for _ in range(L)); ls = mutation_to(rng, kind, T, al)
                if ls: lines += ls + ['hash 0'] + (['len 0'] if i % 5 == 0 else [])
        if L == 0: lines += ['clear 0', 'hash 0']; continue
        al = HASH_ALPHABETS[(i + L) % 4]; base = bytearray(rng.choice(al) for _ in range(L))
        lines += [f'assign 0 {hx(bytes(base))}', 'hash 0', f'new 1 {hx(bytes(base))}']
        for p in sorted({0, L - 1, 8 * (L // 8) if L % 8 else L - 1, max(0, 8 * (L // 8) - 1), L // 2}):
            v = bytearray(base); v[p] = rng.choice([c for c in (base[p] ^ 1, base[p] ^ 0x80, (base[p] % 255) + 1) if c != 0 and c != base[p]])
            lines += [f'assign 0 {hx(bytes(v))}', 'hash 0', f'eq 0 {hx(bytes(base))}', f'cmp 0 {hx(bytes(base))}', 'cmps 0 1']
        lines += ['del 1', 'clear 0', 'hash 0']
    out = []; cur = []
    for l in lines:
        cur.append(l)
        if len(cur) >= 2500 and l == 'hash 0': out.append(cur); cur = ['new0 0']
    if len(cur) > 1: out.append(cur)
    return out

def cmp_family(rng, tier):
    """the byte ORDER: at one position of otherwise equal texts, every ordered pair out of control / ASCII / 0x7f / >= 0x80 bytes,
    and each of them against the terminator (a proper prefix), through cmp, eq, mem (stack operand) and cmps (two heap Strings)"""
    quick = tier == 'quick'; lines = []
    shapes = [(1, 0), (8, 7), (9, 8), (17, 0)] if quick else [(L, p) for L in (1, 2, 7, 8, 9, 16, 17, 33) for p in sorted({0, L // 2, L - 1})]
    for L, p in shapes:
        al = rng.choice(HASH_ALPHABETS[:4]); base = bytearray(rng.choice(al) for _ in range(L))
        lines.append(f'new 0 {hx(bytes(base))}'); lines.append(f'new 1 {hx(bytes(base))}')
        for a in CMP_BYTES:
            x = bytearray(base); x[p] = a; lines.append(f'assign 0 {hx(bytes(x))}')
            lines += [f'cmp 0 {hx(bytes(x[:p]))}', f'eq 0 {hx(bytes(x[:p]))}', f'cmp 0 {hx(bytes(x) + bytes([a]))}']      # against the terminator, both ways
            lines += [f'assign 1 {hx(bytes(x[:p]))}', 'cmps 0 1', 'cmps 1 0']
            for b in CMP_BYTES:
                y = bytearray(base); y[p] = b
                lines += [f'cmp 0 {hx(bytes(y))}', f'eq 0 {hx(bytes(y))}']
                if not quick or (a >= 0x80) != (b >= 0x80): lines += [f'mem 0 {hx(bytes(y[p:]))}', f'assign 1 {hx(bytes(y))}', 'cmps 0 1']
        lines += ['del 0', 'del 1']
    out = []; cur = []
    for l in lines:
        cur.append(l)
        if len(cur) >= 2500 and l == 'del 1': out.append(cur); cur = []
    if cur: out.append(cur)
    return out

def words(alphabet, maxlen):
    for n in range(maxlen + 1):
        for w in itertools.product(alphabet, repeat=n): yield bytes(w)

class OracleBlindNote(Exception):
    """raised once per run by C16.stats AFTER all its accounting: the runner turns it into an entry of the evidence's `notes`"""

class C16(Spec):
    id = 'C16'; engine = 'str'; harness = 'h_str'; driver = 'drv_str'
    generators = ('Str', 'Hash')
    harness_timeout = 300
    technique = ('Lean 4 proof: a buffer-level model of src/String.c (the allocation itself, every libc call with explicit offsets, an access log) '
                 'refines the abstract byte string for every history; allocation sizes and the memmove count regenerated from the source each run; '
                 'formatted writes that reach a String through print_to / print_to_with / show_to are a machine over the format_to calls whose '
                 'position arithmetic is regenerated from src/Show.c each run; '
                 'white-box differential check (whole allocation, exact size from ASan) against the real library and a libc reference '
                 '(snprintf of the same format at the same offset of a reference buffer); String_Look and the alloc checks of non-heap receivers are model functions over '
                 'terms extracted from the source (escape table, quote tests, guard positions)')
    level_text = ('Theorems C16_refines_bytes / C16_terminated / C16_rem_first_occurrence / C16_rem_absent: for every creation and every history of '
                  'assign, concat, append, resize, clear, rem and formatted writes with NUL-free operands, and every value of the indeterminate bytes realloc '
                  'hands out, the model of src/String.c holds exactly the abstract string computed with list functions, is NUL-terminated at len < cap after '
                  'every operation, never reads or writes outside the allocation current at that moment, and len/c_str/cmp/eq/hash/mem/rem agree with the list '
                  'functions (rem = first occurrence incl. overlapping ones; ValueError and not a byte changed when absent). The size expressions passed to '
                  'realloc/calloc and the byte count of String_Rem are re-extracted from src/String.c on every run (C16_current_source, '
                  'C16_source_shape_as_modelled); the model is tied to the library by comparing the WHOLE allocation (bytes behind the terminator included, '
                  'exact size) after every op on thousands of generated histories. Formatted writes through print_to / print_to_with / show_to '
                  '(C16_print_positions, C16_print_format, C16_print_is_format_history, C16_print_current_source): for every well-formed format and '
                  'argument list (any libc rendering and any Show instance that print C strings), at any pos <= len, the String becomes take pos old ++ '
                  'rendered output, is NUL-terminated at its new len inside the allocation, and the returned position is pos + length written = the new len; '
                  'the position update after every format_to call of print_to_with and after show_to is re-extracted from src/Show.c on every run '
                  '(C16_current_source_positions: each must advance by exactly what format_to returned; `pos += 2` for `%%` is refuted in '
                  'C16_percent_position_refuted), as are the bodies of String_Show, Int_Show, Tuple_Show, show_to, format_to and what String_Format_To returns. '
                  'After e60e6ec / a626877: rem of an operand without a C string raises ClassError and changes nothing (C16_rem_argument), a format libc rejects '
                  'returns a negative value and leaves the String untouched, inside print_to_with FormatError leaves after the steps before it '
                  '(C16_rejected_format); the old behaviours are refuted on explicit old variants of the model functions. '
                  'Reading at a position (scan_from -> String_Format_From) sees exactly the abstract string from pos on (C16_read_at_position). '
                  'Operands: histories are over AOp, whose operands are by value, the target itself, or a view into the target\'s buffer, and every step '
                  'takes the allocator\'s choice (realloc moves the block or not); C16_refines_bytes / C16_terminated / C16_holds_for_current_source hold '
                  'under the explicit decidable hypothesis HistOK (every call AOp.InContract for the text at that moment) for every allocator behaviour: '
                  'by-value operands; assign with the target itself or a view at offset 0 (early return of fix 744a45f, read from the source: '
                  'C16_assign_self, C16_assign_self_current_source, old order refuted in C16_assign_self_old_refuted); rem with ANY operand form. '
                  'The excluded calls — assign from a view at an offset > 0, concat / append / a %s write with the target or a view — are exactly the '
                  'undefined ones for both allocator behaviours (C16_contract_is_exact; known finding '
                  'KF-C16-alias-operand; C16_alias_refuted, C16_alias_operand_refuted, C16_alias_always_undefined; repair proved in C16_alias_repaired). '
                  'Allocation failure of String_Resize (realloc returns NULL) is an outcome of the model (resizeR): OutOfMemoryError before anything is '
                  'written, the object left with val == NULL and the old block unreferenced (C16_resize_alloc_failure; the position of the test is read '
                  'from the source, C16_resize_check_current_source; the order before 63509f2 is a NULL dereference, C16_resize_alloc_failure_old_refuted). '
                  'hash: C16_hash_is_murmur — String_Hash after any history is MurmurHash64A (seed 0xCe110) over exactly the bytes of the abstract '
                  'string, by composition with engine hash\'s (C10) proof about hash_data; the harness prints the library\'s hash value and the driver '
                  'the model\'s; C16_hash_test_vectors pins the model to the three values tests/test.c hard-codes and to values for lengths 8, 9, 16 '
                  '(C16_hash_tail_bytes_count: texts differing only behind the last full block hash differently on the witness pair). '
                  'Direct oracle, independent of model and library: len (strlen and a byte count), c_str (strcmp), cmp / lt / gt / le / ge (sign of strcmp and of the '
                  'first differing bytes as unsigned char), eq / neq (byte comparison), mem (strstr and a try-every-start search), rem (strstr + memmove), '
                  'hash (the harness\'s own MurmurHash64A, two formulations, validated at start-up against tests/test.c\'s constants and Python-computed values) — '
                  'each after every mutation and at every observer op. '
                  'Extension round: String_Look (look_from / scan_from "%$" into a String) is a model function (Cello/StrLook.lean) over the quote tests, escape lead, '
                  'escape table and place of String_Clear extracted from src/String.c (C16_look_current_source): C16_look_is_history — it IS the history '
                  'clear :: concat per character read (same object, outcome, access log), C16_look_refines — on every NUL-free input and position, also when FormatError '
                  'leaves, the target is well-formed, holds the text of that history, is NUL-terminated inside its allocation and no access left it; '
                  'C16_look_reads_back_show — what show_to wrote for any NUL-free text is read back exactly, position returned = behind the closing quote; '
                  'C16_look_without_clear_refuted. Receivers that are not on the heap (Cello/StrRecv.lean): where the CELLO_ALLOC_CHECK test stands in each '
                  'reallocating function is extracted (C16_guards_current_source); C16_non_heap_receiver — on a stack / static String every reallocating '
                  'operation raises ValueError with nothing touched, rem keeps the whole per-step statement in place, assign(s, s) returns at once; '
                  'C16_heap_receiver_runs; C16_missing_alloc_check_refuted.')
    level_note = ('Trusted: Lean kernel; axioms propext/Quot.sound/Classical.choice at most; translate/g_str.py; the harness/driver comparison (testing); '
                  'libc str*/mem*/realloc/vsnprintf are modelled by their ISO C specification, not verified; hash_data is engine hash\'s model (C10: '
                  'MurmurHash64A), composed here in C16_hash_is_murmur and compared value by value with the library; size_t and the int arithmetic of '
                  'pos/size/return value are modelled as Nat (no allocation near SIZE_MAX, no text beyond INT_MAX). The history theorems carry the '
                  'explicit decidable hypothesis HistOK / AOp.InContract (assign: operand by value, the target, or a view at offset 0; concat / append / %s: '
                  'operand by value; rem: any operand, a view starting inside the text); the excluded region is exactly known '
                  'finding KF-C16-alias-operand: modelled (Src.self / Src.view, realloc moving or not), proved undefined in all of it and defined '
                  'everywhere else (C16_contract_is_exact, C16_alias_always_undefined), refuted on witnesses (C16_alias_refuted, C16_alias_operand_refuted), '
                  'and the proposed repair is proved to meet the full statement (C16_alias_repaired). Allocation failure is modelled for String_Resize only '
                  '(the other functions test the result of realloc at the same place — pinned by the extracted shape — but their failing call is not an '
                  'outcome of the model). pos > len / pos < 0 are outside the statement. String_Look: the input is another String (String_Format_From = '
                  'vsscanf at val + pos, `%c` reads one byte, EOF at the terminator -> FormatError), never the target itself; scan_from_with / look_from are '
                  'pinned texts, their `%c` step is modelled as reading one byte. A realloc / free of a non-heap buffer is an opaque `badRealloc` outcome. '
                  'Pinned only (text compared, no theorem): c_str, String_C_Str, String_New body, String_Del, assign, copy, look_from, String_Format_From.')
    rule = ('op files over up to 4 heap Strings: (a) exhaustive: every target over {a,b} up to length 4 (quick) / 5 (thorough) x every operand up to '
            'length 3 / 4 for rem, mem, cmp, eq; (b) random histories over the alphabets {a,b}, {a,b,c}, printable, all 255 byte values, operands chosen '
            'relative to the current text: empty, equal, at the start, middle, end, repeated/overlapping, near miss, longer than the target, absent; '
            '(c) the same with texts up to 4096 bytes; (d) boundary files in corpus/; (e) every format of up to 3 (quick) / 4 (thorough) pieces out of '
            '{literal, %%, %s, %d, %li, %c, %$ of a Tuple} at pos 0 / inside / at len, and in (b),(c) random print_to_with formats (literal runs, %%, '
            '%s %c %d %i %u %x %X %o with flags, width, precision, l, %$ of Int / String / nested Tuples, several in sequence, unused extra arguments, '
            'the empty format), show_to, and scan_from of a word at a position. After every op the whole allocation (size, all bytes) is compared '
            'with the Lean model and the text with a libc reference; (f) rem / mem / cmp with the target itself and with views $S(c_str(s)+k) into it '
            'and assign with the target itself / the view at offset 0 (forked child; by-value libc reference), assign(s, s) inside histories (op assignself); (j) resize '
            'whose realloc fails (injected NULL, forked child): OutOfMemoryError expected; the hash VALUE is compared with the model of hash_data AND judged by the harness\'s own MurmurHash64A; '
            '(g) every length 0..40, 47-49, 63-65 and longer ones up to 4096 x every kind of mutation (new, assign, assigns, copy, concat, append, concats, resize, '
            'rem, rems, fmt, fmtl, print, pf, show, pfrej, refused calls) over printable / >= 0x80 / control / all bytes, each followed by hash, plus per length '
            'texts differing in one byte (first, last, either side of the last 8-byte boundary); lengths 7 8 9 15 16 17 23 24 25 31 32 33 are favoured in (b),(c); '
            '(k) one in five targets of (b),(c) is a String that lives inside an Array (class AllocData; op newin); '
            '(m) look / looks (look_from, scan_from "%$") in (b),(c): round trips through show_to at pos 0 / inside / at len with text behind the closing quote, damaged shown '
            'Strings (unterminated, no opening quote, backslash at the end, unknown / known escape letters, a quote in the middle, empty), whatever the other String holds; '
            'family look: every byte value 1..255 alone and inside a text through show_to and back, every byte value after a backslash, every length 0..40 (thorough ..129), '
            'a shown String cut short at every position; `look` is also a mutation kind of (g); (l) stk: every reallocating call, rem at start / middle / end / absent / whole '
            'and assign(s, s) on stack and static Strings (forked child); '
            '(h) at one position of otherwise equal texts every ordered pair of control / ASCII / 0x7f / >= 0x80 bytes and each against the terminator, through '
            'cmp, eq, mem and cmps; (i) one text doubled up to 65536 bytes, then 65537 and 65535. non-trivial item = a mutating op on a live String; distinct = distinct '
            '(op text, resulting dump) pairs.')
    trusted_base = ('translate/g_str.py (regex/token extractor over src/String.c, and over print_to_with / the Show instances in src/Show.c, Num.c, Tuple.c)',
                    'the scanner of print_to_with (which format_to calls a format produces) is C14\'s subject; here it is the functional parser Cello.Str.parseFmt, '
                    'tied to the code by the correspondence and by the extracted strchr set',
                    'harness/h_str.c + lean/Driver/Str.lean (correspondence is testing); the harness routes the library\'s realloc through a wrapper that fills added bytes with 0xA5',
                    'libc (strlen strcpy strcat strstr strcmp memmove memset realloc calloc vsnprintf vsprintf) modelled by its specification; for operands inside the '
                    'target\'s allocation: ISO C 7.22.3.5 (realloc frees the old block when it moves), 7.24.2.3 / 7.24.3.1 / 7.21.6.6 (strcpy, strcat, vsprintf between '
                    'overlapping objects are undefined)',
                    'lean/Cello/Hash.lean + CelloGen/Hash.lean (engine hash, C10): the model of hash_data that C16_hash_is_murmur composes with, imported read-only',
                    'C `int` (pos, size, return values) and `size_t` as Nat; the preprocessor branch taken (neither CELLO_WINDOWS nor CELLO_MAC) is the one g_str.py extracts',
                    'AddressSanitizer reports the exact requested size of an allocation and every out-of-bounds access',
                    'String_Look reads through scan_from(input, pos, "%c", chr): modelled as one byte of the input String per call, FormatError at its terminator '
                    '(scan_from_with is C14/C15\'s subject; look_from and String_Format_From are pinned texts)')
    assumptions = ('operands are C strings (no NUL); generated histories pass them by value (another object) or, for assign, as the target itself: '
                   'assign from a view at an offset > 0 / concat / append / print_to "%s" with an operand inside the target\'s own allocation is known finding '
                   'KF-C16-alias-operand (witness corpus/kf_c16_alias.ops, modelled, never generated); aliased rem / mem / cmp make no realloc and assign(s, s) / '
                   'assign(s, $S(c_str(s))) return at once (744a45f): they ARE generated and checked by value; '
                   'aliased concat / append / print / show on an EMPTY target (one NUL copied onto itself: undefined on paper only) are not run',
                   'resize(s, n) with n > len reserves room: the code zeroes val[len..n-1] and does not write val[n], the last byte of the new block (mirrored by the '
                   'model: that byte is whatever realloc handed out); harmless for every operation of the property because val[len] is 0, but a caller who then fills '
                   'c_str(s)[0..n) by hand has no terminator — writing through c_str is outside the statement and never generated',
                   'formatted writes at 0 <= pos <= len; pos > len is modelled (text unchanged) but outside the property; negative pos is undefined behaviour and never generated',
                   'lengths up to 4096 in the correspondence, one history per run up to 65537 (theorems have no bound); no allocation failure inside histories (a failing realloc '
                   'is exercised for String_Resize alone, on a fresh String: op `oom resize`; after it the object holds val == NULL and is not used again); size_t arithmetic does not wrap; '
                   '`int pos`, `int size = vsnprintf(…)`, the `int` returned by format_to / print_to and `pos + size + 1` computed in int before it is widened '
                   'for realloc (String.c String_Format_To, Show.c print_to_with) are modelled as Nat: no text, position or formatted fragment beyond INT_MAX (2^31-1)',
                   'only the portable branch of String_Format_To is modelled and exercised (#else of CELLO_WINDOWS / CELLO_MAC). Not modelled: the CELLO_WINDOWS '
                   'branch (_vscprintf, no `size < 0` early return) and the CELLO_MAC branch (vasprintf into a temporary, `s->val[pos] = 0; strcat(s->val, tmp)`, '
                   'returns size) — the Mac branch differs observably for pos > len (it appends after the OLD terminator instead of leaving the text unchanged; '
                   'outside the property) and, formatting before the realloc, does not have the aliasing defect of the portable one; '
                   '"libc rejects the format" is exercised with %lc of U+10FFFF in the C locale',
                   'look_from / scan_from "%$" into a String: the input is ANOTHER heap String and 0 <= pos <= its len (the target as its own input is cleared before it is read: '
                   'FormatError, not generated); a failed look leaves the target holding what was read until then — that this is observable is C15\'s known finding '
                   'KF-C15-look-clobbers-target; for C16 the target is then simply that C string (modelled, generated, judged by value)',
                   'non-heap receivers: stack / static Strings whose buffer is an array of the harness; del of such a String (String_Del\'s check, extracted) is not exercised',
                   'print_to_with on a String: formats of the grammar literal | %% | %[-0+]*[width][.prec][l]conv with conv in s c d i u x X o $ and one argument of the '
                   'right class per specification (Int, String, Tuple of these); %c never prints NUL; floats, %p and Array/List arguments (their text contains an '
                   'address) are left to C14; too few arguments (FormatError after a partial write, KF-C14-partial-write) is never generated')
    ALPHABETS = (b'ab', b'abc', bytes(range(32, 127)), bytes(range(1, 256)), b'a\x80\xff\x7f', b'ab"\\\n?\'%', bytes(range(1, 32)) + b'a', bytes(range(0x80, 0x100)))
    def cases(self, rng, tier, boost=1):
        quick = tier == 'quick'
        cs = []
        # (a) exhaustive small targets x operands
        tl, ol = (4, 3) if quick else (5, 4)
        lines = []
        ops_ = list(words(b'ab', ol))
        for t in words(b'ab', tl):
            lines.append(f'new 0 {hx(t)}')
            for x in ops_:
                lines += [f'copy 1 0', f'rem 1 {hx(x)}', 'del 1', f'mem 0 {hx(x)}', f'cmp 0 {hx(x)}', f'eq 0 {hx(x)}']
            lines.append('del 0')
        chunk, cur = [], []      # cut only at object boundaries
        for l in lines:
            cur.append(l)
            if l == 'del 0' and len(cur) >= 3000: chunk.append(cur); cur = []
        if cur: chunk.append(cur)
        for i, c in enumerate(chunk): cs.append(Case(f'exh{i}', c))
        # (e) every format of up to 3 (quick) / 4 (thorough) pieces out of {literal, %%, %s, %d, %li, %c, %$} at pos 0, inside, at len
        pieces = [(b'ab', None), (b'%%', None), (b'%s', b'xy'), (b'%d', -7), (b'%li', 2**40), (b'%c', 90), (b'%$', (1, b'q'))]
        lines = ['new 0 414243']
        for npc in range(1, (3 if quick else 4) + 1):
            for combo in itertools.product(pieces, repeat=npc):
                fmt = b''.join(f for f, _ in combo); args = [tk for _, a in combo if a is not None for tk in arg_tokens(a)]
                if len([1 for _, a in combo if a is not None]) > 8: continue
                for pos in (0, 1, 3):
                    lines += ['assign 0 414243', ' '.join([f'pf 0 {pos} {hx(fmt)}'] + args)]
                lines += ['mem 0 25', 'hash 0']
        for i in range(0, len(lines), 3000): cs.append(Case(f'fmtexh{i // 3000}', (['new 0 414243'] if i else []) + lines[i:i + 3000]))
        # (b) random histories, short texts
        nh, nops = ((72, 200) if quick else (3000, 300))
        for i in range(nh * boost):
            al = self.ALPHABETS[i % len(self.ALPHABETS)]
            g = Gen(rng, al, maxlen=rng.choice([6, 12, 40, 200]), nobj=rng.choice([1, 2, 4]))
            cs.append(Case(f'rand{i}', g.run(nops)))
        # (c) long texts
        nh, nops = ((8, 80) if quick else (250, 200))
        for i in range(nh * boost):
            al = self.ALPHABETS[i % 4]
            g = Gen(rng, al, maxlen=4096, nobj=2)
            # start long
            x = g.rtext(rng.choice([1000, 4000, 4096])); g.emit(f'new 0 {hx(x)}'); g.txt[0] = x
            cs.append(Case(f'long{i}', g.run(nops)))
        # (f) operands that point into the target's own buffer, for the calls the code defines there: rem, mem, cmp (no realloc) with the
        # target itself and views at the start / inside / at the terminator, incl. a suffix that also occurs earlier; assign with the
        # target itself and the view at offset 0 (c_str(obj) is s->val: early return, 744a45f).  assign from a view at an offset > 0 and
        # the aliased concat / append / print_to are known finding KF-C16-alias-operand (witness corpus/kf_c16_alias.ops), never generated.
        texts = [b'', b'a', b'ab', b'abab', b'aaa', b'abcabc', b'hello world', b'a' * 40]
        for i in range(4 if quick else 40):
            al = self.ALPHABETS[i % len(self.ALPHABETS)]
            texts.append(bytes(rng.choice(al) for _ in range(rng.choice([3, 7, 20, 100, 500]))))
        lines = []
        for t in texts:
            offs = sorted({0, 1, len(t) // 2, max(0, len(t) - 1), len(t)} & set(range(len(t) + 1)))
            for w in ('rem', 'mem', 'cmp'):
                lines.append(f'alias {w} self {hx(t)}')
                lines += [f'alias {w} v{o} {hx(t)}' for o in offs]
            lines += [f'alias assign self {hx(t)}', f'alias assign v0 {hx(t)}']
        cs.append(Case('alias_readonly', lines))
        # (j) resize whose realloc fails (returns NULL, old block untouched): growing / shrinking / same size / to 0 / huge (63509f2)
        lines = []
        for t in texts[:12]:
            n = len(t)
            for m in sorted({0, 1, max(0, n - 1), n, n + 1, n + rng.randrange(2, 100), rng.randrange(0, 1000000)}):
                lines.append(f'oom resize {hx(t[:512])} {m}')
        cs.append(Case('oom_resize', lines))
        # (l) receivers that are not on the heap (header class AllocStack — `$S("…")` — / AllocStatic): every reallocating function must refuse
        # (ValueError, nothing touched), rem edits in place, assign(s, s) returns at once
        lines = []
        for t in texts[:8] + texts[-(2 if quick else 12):]:
            t = t[:400]; n = len(t)
            for cls in ('stack', 'static'):
                x = bytes(rng.choice(b'ab') for _ in range(rng.randrange(0, 4)))
                lines += [f'stk {cls} assign {hx(t)} {hx(x)}', f'stk {cls} concat {hx(t)} {hx(x)}', f'stk {cls} append {hx(t)} {hx(b"")}',
                          f'stk {cls} resize {hx(t)} {rng.choice([0, n, n + 1, max(0, n - 1), rng.randrange(0, 1000)])}', f'stk {cls} clear {hx(t)}',
                          f'stk {cls} fmt {hx(t)} {rng.choice([0, n, rng.randrange(n + 1)])} {hx(x)}', f'stk {cls} assignself {hx(t)}']
                for o in sorted({0, n // 2, max(0, n - 2)}):
                    lines += [f'stk {cls} rem {hx(t)} {hx(t[o:o + rng.choice([1, 2, 5])])}']
                lines += [f'stk {cls} rem {hx(t)} {hx(t + b"q")}', f'stk {cls} rem {hx(t)} {hx(t)}']
        cs.append(Case('nonheap', lines))
        # (g) the hash VALUE at every length 0..40 (+ longer) after every kind of mutation, and one-byte neighbours of equal length;
        # (h) the byte order of cmp / eq / mem at one position: control, ASCII, 0x7f, >= 0x80, terminator
        for r in range(boost if boost > 1 else 1):
            for i, c in enumerate(hash_family(rng, tier)): cs.append(Case(f'hashlen{r}_{i}', c))
            for i, c in enumerate(cmp_family(rng, tier)): cs.append(Case(f'cmpbytes{r}_{i}', c))
            for i, c in enumerate(look_family(rng, tier)): cs.append(Case(f'look{r}_{i}', c))
            # (i) one text grown by doubling through 8192 … 65536 bytes, then 65537 and 65535 (sizes that no longer fit 16 bits)
            for i in range(1 if quick else 3):
                T = bytes(rng.choice(HASH_ALPHABETS[(i + 3) % 4]) for _ in range(4096)); lines = [f'new 0 {hx(T)}', f'new 1 {hx(T)}']
                for _ in range(4): lines += ['concats 0 1', 'hash 0', 'assigns 1 0']
                lines += ['append 0 61', 'hash 0', 'resize 0 65535', 'hash 0', 'len 0', f'rem 0 {hx(T[:9])}', 'hash 0', 'cmps 0 1', 'cmps 1 0', 'del 1', 'del 0']
                cs.append(Case(f'hashhuge{r}_{i}', lines))
        return cs
    def nontrivial_items(self, case, c_out, m_out):
        ops = [l for l in case.lines if l and not l.startswith('#')]
        obs = core.lines_with('O ', c_out)
        items = set()
        for op, o in zip(ops, obs):
            w = op.split(' ')
            if w[0] == 'stk' and 'bad-op' not in o: items.add(hash((op, o)))
            if w[0] in MUTATORS and 'bad-op' not in o:
                items.add(hash((w[0], ' '.join(w[2:]), o.split(' ', 3)[3] if o.count(' ') >= 3 else o)))
        return items
    def stats(self, case, c_out, m_out, acc):
        for l in core.lines_with('O ', c_out):
            w = l.split(' ')
            acc['op_' + w[1]] = acc.get('op_' + w[1], 0) + 1
            if len(w) > 3 and w[3] == 'ValueError': acc['raised_ValueError'] = acc.get('raised_ValueError', 0) + 1
            for f in w:
                if f.startswith('len='): acc['max_len'] = max(acc.get('max_len', 0), int(f[4:]))
        for l in core.lines_with('S ', m_out):
            for f in l.split(' ')[1:]:
                k, v = f.split('=')
                if k in ('remFound', 'grow', 'shrink', 'fmtIn', 'fmtOut', 'pct', 'show', 'calls', 'slack', 'disagree', 'lookOk', 'lookPlain', 'lookEsc', 'lookNoQuote', 'lookEof', 'lookBadEsc', 'stkRefused', 'stkRan'): acc['model_' + k] = acc.get('model_' + k, 0) + int(v)
        for l in core.lines_with('I alias', c_out):
            acc.setdefault('alias_probes', [])
            if len(acc['alias_probes']) < 18: acc['alias_probes'].append(l[2:160])
        # the harness's independent hash reference: how many hash values were judged, how many were wrong, and — a statistic, never a
        # violation — how many pairs of different texts of equal length had the same hash
        for l in core.lines_with('I hashstat', c_out):
            for f in l.split(' ')[2:]:
                k, _, v = f.partition('=')
                if k in ('judged', 'wrong', 'texts', 'equal-length-equal-hash'): acc['hash_' + k.replace('-', '_')] = acc.get('hash_' + k.replace('-', '_'), 0) + int(v)
                if k == 'reference' and v != 'ok': acc['hash_reference_broken'] = acc.get('hash_reference_broken', 0) + 1
        for l in core.lines_with('I hash-equal', c_out):
            acc.setdefault('hash_equal_examples', [])
            if len(acc['hash_equal_examples']) < 6: acc['hash_equal_examples'].append(f'{case.name}: {l[2:200]}')
        for l in core.lines_with('O ', c_out):
            for f in l.split(' '):
                if f.startswith('len=') and f[4:].isdigit() and int(f[4:]) <= 40:
                    acc.setdefault('lengths_0_40_dumped', {}); d = acc['lengths_0_40_dumped']; d[f[4:]] = d.get(f[4:], 0) + 1
        # a case on which model and implementation differ although the direct oracle saw nothing wrong: either the change does not
        # touch the property (e.g. another allocation size) or the oracle does not judge the observer of that line by itself
        if m_out.strip():
            div = core.first_divergence(c_out, m_out)
            if div and not [x for x in core.lines_with('X ', c_out) if 'sig=kf-' not in x]:
                acc['divergent_cases_without_oracle_failure'] = acc.get('divergent_cases_without_oracle_failure', 0) + 1
                w = div[1].split(' '); w2 = div[2].split(' ')
                what = w[1] if len(w) > 1 else '?'
                # a dump line whose outcome / len= / s= fields agree differs only in cap= / fnv=: the representation (allocation size, bytes
                # behind the terminator), which the property does not speak about; anything else is a VALUE the caller sees
                vis = lambda t: [f for f in t if not (f.startswith('cap=') or f.startswith('fnv='))]
                rep_only = any(f.startswith('fnv=') for f in w) and vis(w) == vis(w2)
                key = 'divergent_ops_representation_only' if rep_only else 'divergent_ops_VALUE_without_oracle_failure'
                acc.setdefault(key, {}); d = acc[key]; d[what] = d.get(what, 0) + 1
                flag = 'oracle_note_rep' if rep_only else 'oracle_note_value'
                if not acc.get(flag):
                    acc[flag] = True
                    # the runner has no hook for `notes`; what a Spec's stats hook raises is appended to them
                    head = (f'NOTE (not an error) case {case.name}: model and implementation differ at observation #{div[0]} (op `{what}`: impl `{div[1][:120]}` '
                            f'model `{div[2][:120]}`) but the direct oracle reported nothing on this case: ')
                    raise OracleBlindNote(head + ('only cap= / fnv= differ (allocation size or bytes behind the terminator): the value of the String is the same, '
                                                  'a verdict `no-failing-input-found` is then the expected one for a change that keeps the property' if rep_only else
                                                  f'a VALUE the caller sees differs from the model and the oracle did not object — if the run ends `no-failing-input-found` '
                                                  f'the direct oracle is BLIND to what `{what}` returns (it must judge it against its own reference, not only print it); '
                                                  f'see distribution.divergent_ops_VALUE_without_oracle_failure'))
    def model_selfcheck(self, case, m_out):
        for l in m_out.split('\n'):
            if l.startswith('R ') and 'DISAGREE' in l: return l
        return None

SPEC = C16()
