"""C20 — File streams round-trip data and refuse use when closed (engine file)."""
import re
from ..runner import Spec, Case
from .. import core

WRAPPED = ('popen', 'pclose', 'fopen', 'fclose', 'fseek', 'ftell', 'fflush', 'feof', 'fread', 'fwrite', 'vfprintf', 'vfscanf', '__isoc99_vfscanf')
NFILE = 6
BUF = 4096            # st_blksize: the size of the buffer glibc really allocates for a regular file
BUFSIZ = 8192
MODES_R = ['r', 'rb']
MODES_W = ['w', 'wb']
MODES_RP = ['r+', 'r+b', 'rb+']
MODES_WP = ['w+', 'w+b', 'wb+']
MODES_A = ['a', 'ab']

def interesting_len(rng, maxbuf=4):
    """lengths 0 … maxbuf stdio buffers, biased to the buffer boundaries"""
    r = rng.random()
    if r < 0.15: return rng.choice([0, 1, 2, 3, 7])
    if r < 0.55:
        base = rng.choice([BUF, BUFSIZ]) * rng.randrange(1, maxbuf + 1)
        if base > maxbuf * BUFSIZ: base = maxbuf * BUFSIZ
        return max(0, base + rng.choice([-2, -1, 0, 0, 1, 2]))
    if r < 0.8: return rng.randrange(0, 600)
    return rng.randrange(0, maxbuf * BUFSIZ + 1)

def chunking(rng, total, allow_zero=True):
    """random partition of `total` into chunk sizes (with occasional empty chunks)"""
    out = []; left = total
    style = rng.random()
    while left > 0:
        if style < 0.25: c = rng.randrange(1, 8)
        elif style < 0.5: c = rng.choice([BUF, BUFSIZ, BUF - 1, BUF + 1, 1000])
        elif style < 0.75: c = rng.randrange(1, left + 1)
        else: c = rng.choice([1, 2, 17, 255, 256, 4095, 4096, 4097, 10000])
        c = min(c, left)
        if allow_zero and rng.random() < 0.08: out.append(0)
        out.append(c); left -= c
        if len(out) > 60:                       # keep cases short: finish in one piece
            if left: out.append(left)
            break
    if allow_zero and (not out or rng.random() < 0.1): out.append(0)
    return out

class Sim:
    """approximate bookkeeping used only to make generated histories meaningful (the harness and the model decide what
    really happens; an op outside the supported domain is answered `unsup`/`busy`/`bad-op` by both)"""
    def __init__(self, rng):
        self.rng = rng; self.lines = []
        self.exists = {o: o < 4 for o in range(8)}
        self.open = {o: None for o in range(8)}         # o -> dict(file, mode, pos, last, eof)
        self.flen = {}                                   # file -> length (only when it exists)
        self.inwith = []
    def emit(self, s): self.lines.append(s)
    def objs(self, pred=lambda o: True): return [o for o in range(8) if self.exists[o] and pred(o)]
    def file_busy(self, k, o=None): return any(st and st['file'] == k and oo != o for oo, st in self.open.items())
    def free_file(self, o=None):
        ks = [k for k in range(NFILE) if not self.file_busy(k, o)]
        return self.rng.choice(ks) if ks else None
    def do_close_state(self, o): self.open[o] = None
    def do_open(self, o, k, mode, op='open'):
        if op == 'open': self.emit(f'open {o} {k} {mode}')
        elif op == 'new': self.emit(f'new {o} {k} {mode}')
        # op == 'withnew': the constructor sits in the header of a with block, the caller writes the line
        base = mode[0]; plus = '+' in mode
        ok = True
        if mode == 'x' or k == 90: ok = False
        elif k == 91: ok = base in 'wa' and not plus
        elif base == 'r' and k not in self.flen: ok = False
        if self.file_busy(k, o) and k < NFILE: return       # answered `busy`, nothing happens
        if k == 91 and not (base in 'wa' and not plus): return
        self.do_close_state(o)
        if op != 'open': self.exists[o] = ok
        if not ok: return
        if k < NFILE:
            if base == 'w': self.flen[k] = 0
            elif base == 'a': self.flen.setdefault(k, 0)
        self.open[o] = dict(file=k, mode=mode, pos=(self.flen.get(k, 0) if base == 'a' else 0), last=None, eof=False)
    def can_read(self, o): st = self.open[o]; return st and (st['mode'][0] == 'r' or '+' in st['mode'])
    def can_write(self, o): st = self.open[o]; return st and (st['mode'][0] in 'wa' or '+' in st['mode'])
    def write(self, o, n, seed=None):
        seed = self.rng.randrange(1 << 40) if seed is None else seed
        self.emit(f'write {o} {n} {seed}')
        st = self.open[o]
        if not st or not self.can_write(o) or n == 0: return
        if st['last'] == 'r' and not st['eof']: return
        if st['file'] == 91: st['pos'] += n; st['last'] = 'w'; return
        L = self.flen.get(st['file'], 0)
        p = L if st['mode'][0] == 'a' else st['pos']
        st['pos'] = p + n; self.flen[st['file']] = max(L, p + n); st['last'] = 'w'
    def read(self, o, n):
        self.emit(f'read {o} {n}')
        st = self.open[o]
        if not st or not self.can_read(o) or n == 0 or st['file'] == 91: return
        if st['last'] == 'w': return
        L = self.flen.get(st['file'], 0)
        if st['pos'] + n <= L: st['pos'] += n
        else: st['pos'] = max(st['pos'], L); st['eof'] = True
        st['last'] = 'r'
    def seek(self, o, off, wh):
        self.emit(f'seek {o} {off} {wh}')
        st = self.open[o]
        if not st or st['file'] == 91 or wh == 'bad': return
        L = self.flen.get(st['file'], 0)
        t = off if wh == 'set' else st['pos'] + off if wh == 'cur' else L + off
        if t < 0: return
        st['pos'] = t; st['eof'] = False; st['last'] = None
    def flush(self, o):
        self.emit(f'flush {o}')
        st = self.open[o]
        if st and st['last'] == 'w': st['last'] = None
        if st and st['file'] == 91: st['pos'] = 0
    def close(self, o, how='close'):
        self.emit(f'{how} {o}'); self.do_close_state(o)
    def delete(self, o):
        # del, or (one time in four) the collector: the slot is cleared and a collection forced
        full = self.open[o] and self.open[o]['file'] == 91
        self.emit(f'del {o}' if full or self.rng.random() < 0.75 else f'drop {o}')
        if o >= 4 and o not in self.inwith: self.exists[o] = False; self.do_close_state(o)
    def new(self, o):
        self.emit(f'new {o}')
        if o >= 4 and not self.exists[o]: self.exists[o] = True; self.open[o] = None
    def seek_within(self, o):
        st = self.open[o]; rng = self.rng
        L = self.flen.get(st['file'], 0) if st and st['file'] < NFILE else 0
        pos = st['pos'] if st else 0
        t = rng.choice([0, L, max(0, L - 1), rng.randrange(0, L + 1), rng.randrange(0, L + 1)])
        wh = rng.choice(['set', 'cur', 'end'])
        off = t if wh == 'set' else t - pos if wh == 'cur' else t - L
        self.seek(o, off, wh)

def gen_roundtrip(rng, maxbuf):
    s = Sim(rng)
    o = rng.randrange(8)
    if o >= 4: s.new(o)
    for rep in range(rng.choice([1, 1, 2])):
        k = rng.randrange(NFILE)
        total = interesting_len(rng, maxbuf)
        chunks = chunking(rng, total)
        via_seek = rng.random() < 0.5
        s.do_open(o, k, rng.choice(MODES_WP if via_seek else MODES_W + MODES_WP))
        for c in chunks:
            s.write(o, c)
            if rng.random() < 0.1: s.emit(f'tell {o}')
            if rng.random() < 0.03: s.flush(o)
        s.emit(f'tell {o}')
        if via_seek:
            wh = rng.choice(['set', 'cur', 'end'])
            s.seek(o, 0 if wh == 'set' else -total, wh)
        else:
            how = rng.random()
            if how < 0.5: s.do_open(o, k, rng.choice(MODES_R + MODES_RP))          # reopen closes first
            else:
                s.close(o, rng.choice(['close', 'stop']))
                if rng.random() < 0.3: s.emit(f'dump {k}')
                s.do_open(o, k, rng.choice(MODES_R + MODES_RP))
        s.emit(f'tell {o}'); s.emit(f'eof {o}')
        over = rng.random() < 0.4
        rtotal = total + (rng.choice([1, 2, 100, BUF]) if over else 0)
        if rng.random() < 0.2 and total > 0: rtotal = rng.randrange(0, total + 1)
        for c in chunking(rng, rtotal):
            s.read(o, c)
            if rng.random() < 0.15: s.emit(f'tell {o}')
            if rng.random() < 0.15: s.emit(f'eof {o}')
        s.emit(f'tell {o}'); s.emit(f'eof {o}')
        if rng.random() < 0.5:
            for _ in range(rng.randrange(1, 5)):
                s.seek_within(o); s.read(o, rng.choice([0, 1, 5, 100, BUF, BUF + 1])); s.emit(f'eof {o}')
        end = rng.random()
        if end < 0.4: s.close(o)
        elif end < 0.5: s.close(o); s.close(o); s.read(o, 1)
        elif end < 0.6 and o >= 4: s.delete(o); s.new(o)
        if not s.open[o] and rng.random() < 0.7: s.emit(f'dump {k}')
    return s.lines

LIFE = ['new', 'newopen', 'open', 'openfail', 'close', 'stop', 'with', 'withclose', 'withx', 'del', 'drop', 'write', 'tell', 'openfull',
        'withcont', 'withbrk', 'withret', 'wnew', 'wnewbrk', 'wnewret', 'wcall', 'wnew0', 'wnewfail', 'copyc']
# Known findings (KNOWN_FINDINGS.txt): generated inputs stay out of their regions.
#  KF-C20-with-early-exit: a with block left by break / return / an exception while its File is open -> every generated body
#    that is left early closes the File as its last operation (corpus/kf_c20_with_early_exit.ops holds the open ones);
#  KF-C20-copy-aliases-handle: copy / assign while source or target is open -> every generated copy / assign is directly
#    preceded by `close` of the objects involved (corpus/kf_c20_copy_aliases.ops holds the open ones).
EARLY = ('brk', 'throw', 'ret')
def life_lines(o, k, sym, rng):
    if sym == 'new': return [f'new {o}']
    if sym == 'newopen': return [f'new {o} {k} w']
    if sym == 'open': return [f'open {o} {k} {rng.choice(["w", "w+", "a"])}']
    if sym == 'openfail': return [f'open {o} 90 w'] if rng.random() < .5 else [f'open {o} {k} x']
    if sym == 'close': return [f'close {o}']
    if sym == 'stop': return [f'stop {o}']
    if sym == 'with': return [f'with {o} 1', f'write {o} 3 1']
    if sym == 'withclose': return [f'with {o} 2', f'tell {o}', f'close {o}']
    if sym == 'withx': return [f'withx {o} 2', f'write {o} 2 2', f'close {o}']
    if sym == 'del': return [f'del {o}']
    if sym == 'drop': return [f'drop {o}']          # the collector as the closer (answered `unsup` on /dev/full, like nothing happened)
    if sym == 'withcont': return [f'withv {o} cont 1', f'write {o} 3 1']
    if sym == 'withbrk': return [f'withv {o} brk 2', f'write {o} 2 7', f'close {o}']
    if sym == 'withret': return [f'withv {o} ret 2', f'write {o} 1 3', f'stop {o}']
    # the source expression of with constructs the File (the slot must be free: delete first)
    if sym == 'wnew': return [f'del {o}', f'withnew {o} {k} w fall 1', f'write {o} 3 1']
    if sym == 'wnewbrk': return [f'del {o}', f'withnew {o} {k} w+ brk 2', f'write {o} 2 5', f'close {o}']
    if sym == 'wnewret': return [f'del {o}', f'withcall {o} {k} w ret 2', f'write {o} 3 6', f'close {o}']
    # copy / assign of a File that was closed just before (the default memcpy): the copy is an independent closed File
    if sym == 'copyc':
        p = 4 + (o - 4 + 1) % 4 if o >= 4 else 4
        return [f'close {o}', f'copy {o} {p}', f'close {p}', f'assign {o} {p}', f'open {p} {(k + 1) % NFILE} w', f'write {p} 2 3', f'tell {o}', f'del {p}']
    if sym == 'wcall': return [f'del {o}', f'withcall {o} {k} a cont 1', f'write {o} 4 8']
    if sym == 'wnew0': return [f'del {o}', f'withnew0 {o} fall 1', f'open {o} {k} w']
    if sym == 'wnewfail': return [f'del {o}', f'withnew {o} 90 w fall 1', f'tell {o}']
    if sym == 'write': return [f'write {o} 5 9']
    if sym == 'tell': return [f'tell {o}']
    if sym == 'openfull': return [f'open {o} 91 w', f'write {o} 4 4']
    return []

def gen_lifecycle_exhaustive(maxlen):
    """every order of the life-cycle operations up to `maxlen` on one heap object (and the same on a stack object)"""
    import itertools, random
    alpha = ['newopen', 'open', 'close', 'stop', 'with', 'withx', 'del', 'drop', 'openfull', 'wnew', 'wnewbrk', 'copyc']
    out = []
    rng = random.Random(5)
    for n in range(1, maxlen + 1):
        for seq in itertools.product(alpha, repeat=n):
            lines = ['new 4']
            for sym in seq: lines += life_lines(4, 2, sym, rng)
            out.append(lines)
    return out

def gen_lifecycle_random(rng):
    s = []
    objs = rng.sample(range(8), rng.randrange(1, 4))
    for _ in range(rng.randrange(4, 25)):
        o = rng.choice(objs); k = rng.randrange(NFILE)
        sym = rng.choice(LIFE)
        if o < 4 and sym in ('new', 'newopen', 'del', 'drop'): sym = 'open'
        s += life_lines(o, k if sym != 'open' else (o % NFILE), sym, rng)
    return s

LEAVES = ['fall', 'fall', 'fall', 'cont', 'brk', 'throw', 'ret']
def with_stmt(rng, free, files, depth, maxbuf):
    """one with statement whose source expression is `kind`, on a free heap slot and a free file, followed by the ops that
    look at what it left behind (dump, read back, scan, del); `free` / `files` are consumed while the block is open"""
    o = free.pop(rng.randrange(len(free))); k = files.pop(rng.randrange(len(files)))
    kind = rng.choice(['withnew', 'withnew', 'withnew', 'withcall', 'withcall', 'withnew0', 'withv'])
    leave = rng.choice(LEAVES)
    mode = rng.choice(['w', 'w', 'w+', 'wb', 'a', 'w+b'])
    pre, body, post = [], [], []
    text = rng.random() < 0.4
    if kind == 'withv':
        pre.append(f'new {o} {k} {mode}' if rng.random() < 0.7 else f'new {o}')
        if pre[0] == f'new {o}' and rng.random() < 0.7: pre.append(f'open {o} {k} {mode}')
    if kind == 'withnew0' and rng.random() < 0.8: body.append(f'open {o} {k} {mode}')
    total = 0
    for _ in range(rng.randrange(0, 5)):
        r = rng.random()
        if r < 0.5:
            if text: body.append(f'print {o} {rng.choice([0, 7, -1, 42, 123456789, -10**12, rng.randrange(-10**6, 10**6)])}')
            else:
                n = rng.choice([0, 1, 2, 5, 64, 300, BUF - 1, BUF, BUF + 1]) if rng.random() < 0.8 else interesting_len(rng, maxbuf)
                body.append(f'write {o} {n} {rng.randrange(1 << 30)}'); total += n
        elif r < 0.62: body.append(f'tell {o}')
        elif r < 0.70: body.append(f'flush {o}')
        elif r < 0.76 and free and files and depth < 2: body += with_stmt(rng, free, files, depth + 1, maxbuf)
        elif r < 0.82: body.append(f'close {o}')                       # the step clause then finds a closed File: IOError
        elif r < 0.88 and files:                                       # reopen inside: the step clause closes the second stream
            k2 = rng.choice(files); body.append(f'open {o} {k2} {rng.choice(["w", "a", "w+"])}'); post.append(f'dump {k2}')
        elif r < 0.92: body.append(f'seek {o} 0 set')
        elif r < 0.96: body.append(f'eof {o}')
        else: body.append(f'del {o}')                                   # refused by both sides inside the object's own block
    if leave in EARLY: body.append(f'{rng.choice(["close", "close", "stop"])} {o}')   # left early: never with the File open (KF-C20-with-early-exit)
    hdr = {'withnew': f'withnew {o} {k} {mode} {leave} {len(body)}', 'withcall': f'withcall {o} {k} {mode} {leave} {len(body)}',
           'withnew0': f'withnew0 {o} {leave} {len(body)}', 'withv': f'withv {o} {leave} {len(body)}'}[kind]
    if kind != 'withv' and rng.random() < 0.06:                        # a constructor that throws: the loop is never entered
        hdr = f'{kind if kind != "withnew0" else "withnew"} {o} {rng.choice([90, k])} {rng.choice(["w", "x", "r"]) if rng.random() < .5 else "x"} {leave} {len(body)}'
    post.insert(0, f'tell {o}')
    if leave in EARLY and rng.random() < 0.7: post.append(f'{rng.choice(["close", "stop"])} {o}')
    post.append(f'dump {k}')
    if rng.random() < 0.7:
        post.append(f'open {o} {k} {rng.choice(["r", "r+", "rb"])}')
        if text: post += [f'scan {o}'] * rng.randrange(1, 4)
        else: post += [f'read {o} {c}' for c in chunking(rng, min(total, 3 * BUF) + rng.choice([0, 0, 1]), allow_zero=False)[:6]]
        post += [f'eof {o}', f'close {o}'] if rng.random() < 0.6 else []
    if free and rng.random() < 0.15:                                   # a copy of the File, closed just before: an independent File
        p = free[0]
        post += [f'close {o}', f'copy {o} {p}', f'open {p} {k} a', f'write {p} 1 1', f'tell {o}', f'del {p}', f'dump {k}']
    if rng.random() < 0.8: post.append(f'{"del" if rng.random() < 0.7 else "drop"} {o}'); free.append(o)
    files.append(k)
    return pre + [hdr] + body + post

def gen_with(rng, maxbuf):
    free = [4, 5, 6, 7]; files = list(range(NFILE)); lines = []
    for _ in range(rng.randrange(1, 5)):
        if not free or not files: break
        lines += with_stmt(rng, free, files, 0, maxbuf)
    return lines

def gen_text(rng):
    s = Sim(rng); o = rng.randrange(8)
    if o >= 4: s.new(o)
    k = rng.randrange(NFILE)
    vals = [rng.choice([0, 1, -1, 7, 10, -10, 123456789, -987654321, 10**17, -(10**17), rng.randrange(-10**6, 10**6)]) for _ in range(rng.randrange(0, 12))]
    via_seek = rng.random() < 0.5
    s.do_open(o, k, 'w+' if via_seek else rng.choice(['w', 'w+', 'a']))
    for v in vals:
        s.emit(f'print {o} {v}')
        if rng.random() < 0.1: s.emit(f'tell {o}')
    st = s.open[o]
    if st: st['last'] = 'w'
    if via_seek: s.seek(o, 0, 'set')
    else: s.do_open(o, k, rng.choice(['r', 'r+']))
    for _ in range(len(vals) + rng.choice([0, 1, 2])):
        s.emit(f'scan {o}')
        if rng.random() < 0.2: s.emit(f'tell {o}'); s.emit(f'eof {o}')
    if rng.random() < 0.3:
        # raw bytes and text mixed: white space of every kind, signs, a non-number
        s.do_open(o, k, 'w+')
        s.emit(f'writehex {o} {rng.choice(["20200a2d3435090b0c0d372078", "2b35202d2d35", "2d", "", "616263", "31320031", "2020"])}' if True else '')
        s.seek(o, 0, 'set')
        for _ in range(4): s.emit(f'scan {o}'); s.emit(f'tell {o}')
    s.emit(f'close {o}'); s.emit(f'scan {o}'); s.emit(f'print {o} 1')
    return s.lines

# ---- typed text: print_to / scan_from with every conversion scan_from_with supports (ops tp / ts)
IMODS = ['', 'hh', 'h', 'l', 'll', 'j', 'z', 't', 'q']
ICONVS = ['d', 'i', 'u', 'x', 'X', 'o']
WIDTH = {'': 32, 'hh': 8, 'h': 16}
def int_boundaries():
    vs = {0, 1, 2, 9, 10}
    for k in (7, 8, 15, 16, 31, 32, 63):
        for d in (-1, 0, 1): vs.add(2 ** k + d)
    vs.add(2 ** 64 - 1)
    vs |= {-v for v in vs}
    vs |= {3735928559, 4000000000, 2863311530, 305419896, -559038737}
    return sorted(v for v in vs if -(2 ** 63) <= v < 2 ** 63)
BOUNDS = int_boundaries()
SEPS_TERM = ['20', '0a', '09', '2c', '2c20', '3b', '0d0a', '203a20', '7c', '2020']       # " ", "\n", "\t", ",", ", ", ";", "\r\n", " : ", "|", "  "
def hexs(b): return b.hex() if b else '-'
def dbits(x):
    import struct
    return 'x%016x' % struct.unpack('<Q', struct.pack('<d', x))[0]
FLOATS = [0.0, 1.0, -1.0, 1.5, -2.25, 0.1, 3.141592653589793, 2.718281828459045, 1e10, 123456.789, 1e-5, 2.0 ** -20, 16777216.0, 16777217.0,
          0.30000000000000004, 1e15, -0.0, 5e-324, 1.17549435e-38, 3.4028234663852886e38, 65504.0, 1e22, 9007199254740993.0, 0.5, 255.99609375]
FSPECS = ['f', 'lf', 'e', 'le', 'g', 'lg', 'F', 'lE', 'G', 'lF']
WORDS = [b'a', b'hello', b'x1', b'-', b'%d', b'\xc3\xa9t\xc3\xa9', b'"q"', b'back\\slash', b'0x1f', b'A' * 64, b'\xff\x80', b'tab', b'?']
STRS = WORDS + [b'', b'two words', b'line\nbreak', b'\t\r\x0b\x0c\x07\x08', b"it's", b'a"b', b'q?', b'sp ', b' lead', b'\x01\x7f']
def typed_items_sweep(mod):
    items = []
    for cv in ICONVS:
        for v in BOUNDS: items.append((mod + cv, str(v)))
    return items
def typed_item(rng):
    r = rng.random()
    if r < 0.62:
        mod = rng.choice(IMODS); cv = rng.choice(ICONVS)
        q = rng.random()
        if q < 0.6: v = rng.choice(BOUNDS)
        elif q < 0.8: v = rng.randrange(-(2 ** 63), 2 ** 63)
        else: v = rng.randrange(-(2 ** 33), 2 ** 33)
        return (mod + cv, str(v))
    if r < 0.70: return ('c', str(rng.choice([65, 48, 32, 10, 0, 127, 128, 200, 255, -1, -128, 9, 34, 92, 1000, rng.randrange(-300, 300)])))
    if r < 0.82:
        x = rng.choice(FLOATS) if rng.random() < 0.7 else rng.choice([rng.uniform(-1e6, 1e6), rng.uniform(-1, 1), rng.randrange(-10**6, 10**6) / 64.0, float(rng.randrange(-2**24, 2**24))])
        return (rng.choice(FSPECS), dbits(x))
    if r < 0.88: return ('s', hexs(rng.choice(WORDS)))
    if r < 0.93: return ('$i', str(rng.choice(BOUNDS)))
    if r < 0.96: return ('$f', dbits(rng.choice(FLOATS)))
    return ('$s', hexs(rng.choice(STRS)))
def sep_for(rng, spec, last=False):
    if spec == 's': return rng.choice(['20', '0a', '09', '2020', '0d0a'])
    if spec == 'c' and rng.random() < 0.5: return '-'
    if spec == '$s' and rng.random() < 0.3: return '-'
    if last and rng.random() < 0.3: return '-'
    return rng.choice(SEPS_TERM)
def typed_case(rng, items, o=None, k=None, cross=0.0, extra=True):
    """write every item with tp, go back (seek to the start on the same stream, or close / reopen for reading), read every item with ts"""
    o = rng.randrange(8) if o is None else o; k = rng.randrange(NFILE) if k is None else k
    lines = []
    if o >= 4: lines.append(f'new {o}')
    via_seek = rng.random() < 0.5
    lines.append(f'open {o} {k} {rng.choice(MODES_WP) if via_seek else rng.choice(MODES_W + MODES_WP)}')
    seps = [sep_for(rng, sp, i == len(items) - 1) for i, (sp, _) in enumerate(items)]
    for (sp, v), sep in zip(items, seps):
        lines.append(f'tp {o} {sp} {v} {sep}')
        if rng.random() < 0.03: lines.append(f'tell {o}')
    lines.append(f'tell {o}')
    if via_seek:
        wh = rng.choice(['set', 'set', 'cur', 'end'])
        if wh == 'set': lines.append(f'seek {o} 0 set')
        else: lines += [f'flush {o}', f'seek {o} 0 set'] if rng.random() < 0.5 else [f'seek {o} 0 set']
    else:
        if rng.random() < 0.5: lines.append(f'open {o} {k} {rng.choice(MODES_R + MODES_RP)}')          # reopen closes first
        else: lines += [f'{rng.choice(["close", "stop"])} {o}', f'open {o} {k} {rng.choice(MODES_R + MODES_RP)}']
    for (sp, v), sep in zip(items, seps):
        sp2 = sp
        if cross and rng.random() < cross and sp[-1] in 'diuxXo' and sp not in ('$i',):
            sp2 = rng.choice(IMODS) + rng.choice(ICONVS)           # another conversion on the same text: still libc's verdict
        lines.append(f'ts {o} {sp2} {sep}')
        if rng.random() < 0.04: lines += [f'tell {o}', f'eof {o}']
    if extra:
        lines += [f'ts {o} {rng.choice(["d", "lx", "c", "s", "lf", "$i", "$s"])} -', f'eof {o}', f'tell {o}']
        if rng.random() < 0.3 and items:
            # back into the middle is not meaningful for text; back to the start and once more with the first item
            lines += [f'seek {o} 0 set', f'ts {o} {items[0][0]} {seps[0]}']
    lines += [f'close {o}', f'dump {k}', f'ts {o} d -', f'tp {o} d 1 -']
    return lines
def gen_typed_sweep(rng):
    """every integer conversion × every length modifier × the boundary values of every width, once through seek and once through reopen"""
    out = []
    for mod in IMODS:
        items = typed_items_sweep(mod)
        out.append(typed_case(rng, items, extra=False))
    misc = [('c', str(v)) for v in (0, 1, 9, 10, 32, 34, 65, 92, 127, 128, 200, 255, 256, -1, -128, -129)] + \
           [(fs, dbits(x)) for fs in FSPECS for x in FLOATS] + [('s', hexs(w)) for w in WORDS] + \
           [('$i', str(v)) for v in BOUNDS] + [('$f', dbits(x)) for x in FLOATS] + [('$s', hexs(w)) for w in STRS]
    out.append(typed_case(rng, misc, extra=True))
    return out
def gen_typed(rng):
    n = rng.choice([1, 2, 3, 5, 8, 13, 21, 34])
    return typed_case(rng, [typed_item(rng) for _ in range(n)], cross=rng.choice([0, 0, 0.15]))

def gen_reopen(rng, maxbuf):
    """File_Open branch by branch (extension round: its body is extracted as a program): the File holds a stream or not ×
    fopen succeeds or fails (missing directory, mode x, a missing file opened for reading) × the fclose of the held stream
    fails (/dev/full with buffered bytes: IOError, fopen is never reached).  The held stream has UNFLUSHED bytes most of the
    time and the reopen goes to the SAME path in a truncating mode half of the time: what the old stream still held must be
    in the file before the truncation, not after it.  After a failed reopen the File must be closed (tell refused) and the
    bytes of the old stream on disk (dump)."""
    lines = []
    o = rng.randrange(8); k = rng.randrange(NFILE)
    if o >= 4: lines.append(f'new {o}' if rng.random() < 0.6 else f'new {o} {k} {rng.choice(["w", "w+", "a"])}')
    for _ in range(rng.randrange(2, 7)):
        r = rng.random()
        n1 = rng.choice([1, 2, 7, 10, 100, BUF - 1, BUF, BUF + 1, 5000, 20000]) if rng.random() < 0.8 else interesting_len(rng, maxbuf)
        n2 = rng.choice([0, 1, 2, 3, 100]) if rng.random() < 0.8 else rng.randrange(0, max(1, n1))
        if r < 0.45:
            # held → reopen (same path, truncating | same path, other mode | another path)
            lines += [f'open {o} {k} {rng.choice(MODES_W + MODES_WP)}', f'write {o} {n1} {rng.randrange(1 << 30)}']
            if rng.random() < 0.15: lines.append(f'flush {o}')
            q = rng.random()
            k2 = k if q < 0.6 else rng.choice([x for x in range(NFILE) if x != k])
            lines.append(f'open {o} {k2} {rng.choice(MODES_W + MODES_WP) if q < 0.5 else rng.choice(MODES_A + MODES_RP + MODES_R)}')
            lines += [f'tell {o}', f'write {o} {n2} {rng.randrange(1 << 30)}', f'tell {o}', f'close {o}', f'dump {k}']
            if k2 != k: lines.append(f'dump {k2}')
        elif r < 0.70:
            # held → the new fopen fails: the old stream was closed (its bytes are in the file), the File is closed
            lines += [f'open {o} {k} {rng.choice(MODES_W + MODES_WP + MODES_A)}', f'write {o} {n1} {rng.randrange(1 << 30)}']
            lines.append(rng.choice([f'open {o} 90 w', f'open {o} {k} x', f'open {o} {rng.choice([x for x in range(NFILE) if x != k])} x']))
            lines += [f'tell {o}', f'write {o} 1 1', f'eof {o}', f'close {o}', f'dump {k}']
        elif r < 0.82:
            # free → fopen fails / succeeds
            lines += [f'close {o}', rng.choice([f'open {o} 90 w', f'open {o} {k} x', f'open {o} {k} r']), f'tell {o}', f'open {o} {k} w', f'tell {o}', f'close {o}']
        elif r < 0.92:
            # held on /dev/full with buffered bytes: the fclose inside File_Open fails → IOError, no fopen; the File is closed
            lines += [f'open {o} 91 {rng.choice(["w", "a", "wb"])}', f'write {o} {rng.choice([1, 3, 100, 1024])} 5', f'open {o} {k} w', f'tell {o}',
                      f'open {o} {k} w', f'write {o} 2 2', f'close {o}', f'dump {k}']
        else:
            lines += [f'open {o} {k} w', f'write {o} {n1} 3', f'rm {k}' if rng.random() < 0.3 else f'flush {o}', f'open {o} {k} r+', f'read {o} {min(n1, 300)}', f'eof {o}', f'close {o}']
    if o >= 4: lines.append(f'del {o}')
    return lines

def gen_device(rng):
    lines = []
    o = rng.randrange(8)
    if o >= 4: lines.append(f'new {o}' if rng.random() < .5 else f'new {o} 91 {rng.choice(["w", "a"])}')
    for _ in range(rng.randrange(3, 14)):
        r = rng.random()
        if r < 0.25: lines.append(f'open {o} 91 {rng.choice(["w", "a", "wb", "r", "w+"])}')
        elif r < 0.5: lines.append(f'write {o} {rng.choice([0, 1, 3, 100, 500, 1024, 1025])} {rng.randrange(99)}')
        elif r < 0.6: lines.append(f'flush {o}')
        elif r < 0.7: lines.append(f'{rng.choice(["close", "stop"])} {o}')
        elif r < 0.78: lines += [f'with {o} 1', f'write {o} {rng.choice([0, 2])} 1']
        elif r < 0.84: lines.append(f'open {o} {rng.randrange(NFILE)} w')
        elif r < 0.9: lines += [f'tell {o}', f'eof {o}']
        elif o >= 4: lines += [f'del {o}', f'new {o}']
        else: lines.append(f'seek {o} 0 set')
    return lines

def soup_step(s, rng, maxbuf, depth=0):
    r = rng.random()
    ex = s.objs()
    o = rng.choice(ex)
    st = s.open[o]
    if r < 0.10:
        k = s.free_file(o)
        if k is None or rng.random() < 0.08: k = rng.choice([90, 91, rng.randrange(NFILE)])
        mode = rng.choice(MODES_R + MODES_W + MODES_RP + MODES_WP + MODES_A + MODES_WP + MODES_RP + ['x'])
        s.do_open(o, k, mode)
    elif r < 0.14:
        free = [p for p in range(4, 8) if not s.exists[p]]
        if free:
            p = rng.choice(free)
            if rng.random() < 0.5: s.new(p)
            else:
                k = s.free_file(p)
                if k is None: k = 90
                s.do_open(p, k, rng.choice(['w', 'w+', 'r', 'a', 'r+']), op='new')
    elif r < 0.18 and o >= 4: s.delete(o)
    elif r < 0.25: s.close(o, rng.choice(['close', 'close', 'stop']))
    elif r < 0.29 and depth < 3:
        kind = rng.choice(['with', 'with', 'withx', 'withv', 'withnew', 'withnew', 'withcall', 'withnew0'])
        leave = {'with': 'fall', 'withx': 'throw'}.get(kind) or rng.choice(LEAVES)
        free = [p for p in range(4, 8) if not s.exists[p]]
        entered = True; hdr = None
        if kind in ('withnew', 'withcall', 'withnew0') and free:
            o = rng.choice(free)
            if kind == 'withnew0': s.exists[o] = True; s.open[o] = None; hdr = f'withnew0 {o} {leave}'
            else:
                k = s.free_file(o)
                if k is None or rng.random() < 0.05: k = 90
                mode = rng.choice(['w', 'w+', 'r', 'a', 'r+'])
                s.do_open(o, k, mode, op='withnew'); entered = s.exists[o]
                hdr = f'{kind} {o} {k} {mode} {leave}'
        elif kind in ('withnew', 'withcall', 'withnew0'): kind = 'withv'
        if hdr is None: hdr = f'{kind} {o}' + (f' {leave}' if kind == 'withv' else '')
        at = len(s.lines); s.emit('?'); s.inwith.append(o)
        if entered:
            for _ in range(rng.randrange(0, 4)): soup_step(s, rng, maxbuf, depth + 1)
            if leave in EARLY: s.close(o)              # left early: never with the File open (KF-C20-with-early-exit)
        s.inwith.pop()
        s.lines[at] = f'{hdr} {len(s.lines) - at - 1}'
        if leave in ('fall', 'cont') and s.exists[o]: s.do_close_state(o)
    elif r < 0.50:
        n = rng.choice([0, 1, 2, 5, 64, 300, BUF - 1, BUF, BUF + 1]) if rng.random() < 0.8 else interesting_len(rng, maxbuf)
        if st and st['last'] == 'r' and not st['eof'] and rng.random() < 0.9: s.seek_within(o)
        s.write(o, n)
    elif r < 0.70:
        n = rng.choice([0, 1, 2, 5, 64, 300, BUF - 1, BUF, BUF + 1]) if rng.random() < 0.8 else interesting_len(rng, maxbuf)
        if st and st['last'] == 'w' and rng.random() < 0.9:
            if rng.random() < 0.5: s.flush(o)
            else: s.seek_within(o)
        s.read(o, n)
    elif r < 0.80:
        if rng.random() < 0.8 and st: s.seek_within(o)
        else: s.seek(o, rng.choice([-5, -1, 0, 3, 10000, 70000, -10**12, 10**12]), rng.choice(['set', 'cur', 'end', 'bad']))
    elif r < 0.86: s.emit(f'tell {o}')
    elif r < 0.90: s.emit(f'eof {o}')
    elif r < 0.93: s.flush(o)
    elif r < 0.94:
        k = rng.randrange(NFILE); s.emit(f'{rng.choice(["dump", "dump", "rm"])} {k}')
        if s.lines[-1].startswith('rm') and not s.file_busy(k): s.flen.pop(k, None)
    elif r < 0.955:
        # copy / assign (File: the default memcpy) of Files closed just before (an open one: KF-C20-copy-aliases-handle)
        free = [p for p in range(4, 8) if not s.exists[p]]
        if free and rng.random() < 0.6:
            p = rng.choice(free); s.close(o); s.emit(f'copy {o} {p}'); s.exists[p] = True; s.open[p] = None
        else:
            q = rng.choice(ex)
            if q != o: s.close(o); s.close(q); s.emit(f'assign {o} {q}')
    elif r < 0.975:
        if st and st['last'] == 'r' and not st['eof']: s.seek_within(o)
        s.emit(f'print {o} {rng.randrange(-10**9, 10**9)}')
        if st and s.can_write(o): st['last'] = 'w'; st['pos'] += 5
    else:
        if st and st['last'] == 'w': s.flush(o)
        s.emit(f'scan {o}')
        if st and s.can_read(o): st['last'] = 'r'

def gen_soup(rng, nops, maxbuf):
    s = Sim(rng)
    for _ in range(nops): soup_step(s, rng, maxbuf)
    return s.lines

def gen_copy(rng, maxbuf):
    """copy / assign of closed Files (File has no Copy / Assign instance: alloc + memcpy): every object afterwards is an
    independent File — open both on different files, write, read back; the participants are always closed just before"""
    s = Sim(rng)
    objs = [rng.randrange(4)]
    for _ in range(rng.randrange(2, 9)):
        o = rng.choice(objs); r = rng.random()
        free = [p for p in range(4, 8) if not s.exists[p]]
        if r < 0.3 and free:
            p = rng.choice(free); s.close(o, rng.choice(['close', 'stop'])); s.emit(f'copy {o} {p}'); s.exists[p] = True; s.open[p] = None; objs.append(p)
        elif r < 0.45 and len(objs) > 1:
            a, b = rng.sample(objs, 2); s.close(a); s.close(b); s.emit(f'assign {a} {b}')
        elif r < 0.7:
            k = s.free_file(o)
            if k is not None: s.do_open(o, k, rng.choice(['w', 'w+', 'a', 'r', 'r+']))
        elif r < 0.85:
            s.write(o, rng.choice([0, 1, 5, 300, BUF, BUF + 1]))
        elif r < 0.9 and o >= 4 and len(objs) > 1:
            s.delete(o); objs.remove(o)
        else:
            st = s.open[o]
            if st:
                k = st['file']; s.close(o); s.emit(f'dump {k}'); s.do_open(o, k, 'r'); s.read(o, rng.choice([1, 5, 301])); s.emit(f'eof {o}')
    for o in objs: s.emit(f'tell {o}')
    return s.lines

def gen_closed(rng):
    """every operation on Files that are not open: never opened, closed, closed twice, failed open, after with"""
    lines = []
    o = rng.randrange(8)
    if o >= 4: lines.append(f'new {o}')
    how = rng.randrange(6)
    if o >= 4 and rng.random() < 0.3: lines += [f'new1 {(o - 3) % 4 + 4} {rng.choice([0, 1, 90, 91])}', f'tell {(o - 3) % 4 + 4}']
    if how == 1: lines += [f'open {o} 0 w', f'close {o}']
    elif how == 2: lines += [f'open {o} 0 w', f'stop {o}', f'close {o}']
    elif how == 3: lines += [f'open {o} 90 w']
    elif how == 4: lines += [f'open {o} 1 w', f'with {o} 0']
    elif how == 5: lines += [f'open {o} 91 w', f'write {o} 3 3', f'close {o}']
    ops = [f'close {o}', f'stop {o}', f'seek {o} 0 set', f'seek {o} -3 end', f'tell {o}', f'flush {o}', f'eof {o}', f'read {o} 0', f'read {o} 10',
           f'write {o} 0 1', f'write {o} 9 1', f'writehex {o} -', f'print {o} 42', f'scan {o}', f'with {o} 0', f'with {o} 1\ntell {o}']
    rng.shuffle(ops)
    for x in ops: lines += x.split('\n')
    if o >= 4: lines.append(f'del {o}')
    return lines

PCMDS = [0, 1, 10, 11, 12, 13]
def gen_proc(rng):
    """Process objects (popen / pclose): constructor with 2 / 1 / 0 arguments, commands that end with status 0 (`true`, `cat`) and
    with a non-zero status (`false`: the close path raises IOError and must still drop the handle), every op on a closed
    Process, reopen, del, with blocks, bytes through `cat` in both directions.  Early exits from with close first
    (KF-C20-with-early-exit)."""
    lines = []
    exists = {0: True, 1: True, 2: False, 3: False}
    isopen = {o: False for o in range(4)}
    for k in range(rng.randrange(0, 3)):
        lines.append(f'pgen {rng.randrange(4)} {rng.choice([0, 1, 5, 100, 4095, 4096, 4097, 9000, 65536])} {rng.randrange(1 << 30)}')
    def mode(): return rng.choice(['r', 'r', 'w', 'w', 'r', 'w', 'x', 'r+'])
    def closed_ops(o):
        ops = [f'pclose {o}', f'pstop {o}', f'pseek {o} 0 set', f'ptell {o}', f'pflush {o}', f'peof {o}', f'pread {o} 0', f'pread {o} 7',
               f'pwrite {o} 0 1', f'pwrite {o} 4 1', f'pprint {o} 42', f'pscan {o}', f'pwith {o} fall 0', f'pwith {o} cont 1\nptell {o}']
        rng.shuffle(ops)
        out = []
        for x in ops[:rng.randrange(1, len(ops) + 1)]: out += x.split('\n')
        return out
    def step(depth, inside):
        o = rng.randrange(4); r = rng.random()
        if not exists[o]:
            q = rng.random()
            if q < 0.1: lines.append(f'pnew0 {o}')
            elif q < 0.2: lines.append(f'pnew1 {o} {rng.choice(PCMDS)}')
            else:
                m = mode(); lines.append(f'pnew {o} {rng.choice(PCMDS)} {m}')
                if m in 'rw': exists[o] = True; isopen[o] = True      # approximate: `busy` answers leave the slot free
            return
        if r < 0.18: lines.append(f'popen {o} {rng.choice(PCMDS)} {mode()}'); isopen[o] = True
        elif r < 0.30: lines.append(f'{rng.choice(["pclose", "pclose", "pstop"])} {o}'); isopen[o] = False
        elif r < 0.36 and o >= 2 and o not in inside: lines.append(f'pdel {o}'); exists[o] = False; isopen[o] = False
        elif r < 0.50: lines.append(f'pread {o} {rng.choice([0, 1, 2, 5, 100, 4096, 4097, 70000])}')
        elif r < 0.64: lines.append(f'pwrite {o} {rng.choice([0, 1, 3, 100, 4096, 4097, 20000])} {rng.randrange(1 << 30)}')
        elif r < 0.70: lines.append(f'peof {o}')
        elif r < 0.74: lines.append(f'ptell {o}')
        elif r < 0.78: lines.append(f'pseek {o} {rng.choice([0, -1, 5])} {rng.choice(["set", "cur", "end", "bad"])}')
        elif r < 0.82: lines.append(f'pflush {o}')
        elif r < 0.86: lines.append(f'pprint {o} {rng.randrange(-10**6, 10**6)}')
        elif r < 0.88: lines.append(f'pgen {rng.randrange(4)} {rng.choice([0, 3, 300, 5000])} {rng.randrange(99)}')
        elif r < 0.94 and depth < 2:
            leave = rng.choice(LEAVES)
            at = len(lines); lines.append('?')
            for _ in range(rng.randrange(0, 4)): step(depth + 1, inside + [o])
            if leave in EARLY and exists[o]: lines.append(f'pclose {o}'); isopen[o] = False
            lines[at] = f'pwith {o} {leave} {len(lines) - at - 1}'
            isopen[o] = False
        else:
            if not isopen[o] or rng.random() < 0.3:
                lines.append(f'pclose {o}'); isopen[o] = False
                lines.extend(closed_ops(o))
    for _ in range(rng.randrange(5, 40)): step(0, [])
    return lines

class C20(Spec):
    id = 'C20'; engine = 'file'; harness = 'h_file'; driver = 'drv_file'
    generators = ('File', 'FileScan')
    harness_flags = tuple(f'-Wl,--wrap={f}' for f in WRAPPED)
    technique = ('Lean 4 proofs over an executable model of File.c parameterised by an abstract stdio (closed-handle refusal and close-once for '
                 'every stdio implementation and every history; byte round trip for every chunking under a reference stdio); guard table and '
                 'File_Close facts regenerated from the source each run; differential check of the model and of libc-on-a-twin-file against the '
                 'real library with link-time interposition of the stdio functions')
    level_text = ('Theorems C20_closed_refused (every operation on a File that is not open raises IOError and makes no stdio call, for every stdio '
                  'implementation), C20_close_once (for every history of open/close/reopen/stop/with/del/read/write… on one object the log of stdio '
                  'calls is well bracketed: each successful fopen is followed by exactly one fclose of that handle before the next fopen, no call '
                  'ever uses a handle that is not the live one, a deleted or closed object holds nothing), C20_close_once_system (any number of objects '
                  'over one library, stated OVER HANDLES for the log of the whole process: for every stdio that never hands out a handle that is still '
                  'open and every interleaving of new/del/operations/copy/assign in which no File is copied or assigned while it or its target is open, '
                  'no call is made on a handle that is not open, every fclose ends the life of an open handle, distinct objects hold distinct handles and '
                  'the open handles are exactly the held ones: nothing leaked, nothing stale; plus the per-object form), C20_copy_aliases_refuted '
                  '(known finding KF-C20-copy-aliases-handle: without that hypothesis the statement is false — copy/assign are the default memcpy and '
                  'duplicate or overwrite the FILE*: one fopen, two fcloses, a closed handle passed to fwrite; or a handle never closed), '
                  'C20_wrappers_transparent (for every stdio, what swrite/sread/stell/seof/sseek return is exactly what the one stdio call returned), '
                  'C20_roundtrip_reopen / C20_roundtrip_seek (under the reference stdio, bytes written in any chunking are read back identical in any '
                  'chunking after reopen or seek to any offset from any origin; stell equals the byte count, seof is set exactly by an over-read), '
                  'C20_random_access (seek anywhere, write, seek back, read: identical), C20_print_transport (every fragment print_to hands to the '
                  'File arrives byte for byte), C20_scan_reads_bytes (scan_from is a function of the bytes after the position), '
                  'C20_double_close_refuted (the code before fix b3448e7 violates close-once on two concrete histories). '
                  'Process objects (popen/pclose, the same wrappers): C20_process_same_wrappers / C20_process_guard_table / C20_process_source_shape (source ties), '
                  'C20_process_closed_refused, C20_process_after_close_refused (also after a non-zero exit status the handle is dropped), C20_process_new '
                  '(the constructor always opens; fewer than two arguments: IndexOutOfBoundsError before popen), C20_process_close_once(_system), '
                  'C20_process_close_old_refuted / _repaired (the code before fix 51c301c: pclose(NULL) on a second sclose; a second pclose of one popen after a '
                  'non-zero exit status). '
                  'The `with` construct is modelled as the for loop of with_in, clause by clause, over source expressions with side effects '
                  '(a File constructed in the header) and the four ways out of a body: C20_with_close_once_system (close-once for every program with '
                  'nested with blocks), C20_with_protocol / C20_with_evaluated_once (for every program the source expression of each block is '
                  'evaluated exactly once and every stop_in is applied to the object that evaluation returned), C20_with_close_once_global (the log of '
                  'the whole process over handles, for every program), C20_with_closes_bound_partial and '
                  'C20_with_inline_balanced_partial (for every body, the File constructed in the header ends closed, each fopen matched by one fclose of that '
                  'handle — when the block is left through its step clause: falling off the end or continue), C20_with_early_exit_refuted / '
                  'C20_with_early_exit_leaves_open (known finding KF-C20-with-early-exit: break, return and an exception leave the loop without stop_in, '
                  'the stream stays open; the full statement C20_with_closes_statement is false), '
                  'C20_with_inline_roundtrip_partial (what the body wrote is in the file afterwards, one fopen / one fclose of that handle), '
                  'C20_with_stop_on_expression_refuted (the variant `X = stop_in(S)` re-evaluates the expression: a second File is opened and closed, '
                  'the first never, the file is truncated). C20_with_macro_clauses ties the three clauses to include/Cello.h on every run. '
                  'The facts about File.c the proofs rest on (guard before the first stdio call in every wrapper; File_Close guarded and always dropping '
                  'the handle; open/del close a held handle) are re-extracted from the source on every run (C20_guard_table). '
                  'Text, conversion by conversion: what scan_from_with (src/Show.c) does with what a conversion of vfscanf stored — the chain of tests on fmt_buf, '
                  'the object scanf stores into, the expression of casts that becomes the Int — is read from the source as a term on every run '
                  '(CelloGen.FileScan) and evaluated with C\'s conversion rules (integer promotion, usual arithmetic conversions of ?:). '
                  'C20_scan_int_arms_select (each of the 54 specifications %[hh|h|l|ll|j|z|t|q][diouxX] reaches an arm whose object has the width libc stores), '
                  'C20_scan_int_arms_ok / C20_scan_int_arms_convert (a verified interval evaluator decides on the extracted expressions that every arm delivers, '
                  'for EVERY bit pattern, the pattern read as signed under d i and as unsigned under o u x X), C20_text_int_conversion (for every specification, '
                  'every int64 and every following text that does not continue the number, scan_from_with applied to what printf wrote delivers C\'s conversion '
                  'of the value to the type the specification names), C20_text_int_roundtrip (the identity on the range of that type, in particular %u %x %X %o '
                  'of 2^31..2^32-1), C20_text_int_roundtrip_on_file (the same call on a File over the reference stdio: value, returned position, vfscanf calls on '
                  'the held handle, stream moved), C20_text_char_roundtrip, C20_scan_float_arm (double exactly with l), C20_text_source_shape (the other branches, '
                  'the arguments print_to_with hands to format_to, the formats of Int/Float Show and Look), C20_scan_sign_extending_arm_refuted (the variant '
                  '`tmp = t;`: 4000000000 is read back as -294967296). '
                  'Extension round — source text as programs: File_Open and File_Del are extracted statement by statement (CelloGen.File.openProg / delProg) and '
                  'executed by runOpen (Cello/FileProg.lean): C20_open_source_is_model (for every stdio, configuration, state, path and mode the source\'s statements '
                  'ARE fileOpen / fileDel), C20_open_closes_then_opens (fclose of the held handle precedes fopen; whatever fopen answers the old handle is gone; NULL: '
                  'the File is closed and IOError raised), C20_open_on_closed, C20_open_source_close_once, C20_open_first_refuted / C20_open_first_keeps_old_on_failure '
                  '(the order "fopen first, close afterwards": a second stream while the first is held, log not bracketed; a failed open leaves the File open). '
                  'The header of with_in is extracted as terms over X and S (withProg) and executed by runWith over an abstract world: C20_with_program_cfg, '
                  'C20_with_program_protocol (for every world and body that reaches its end: S evaluated exactly once, start_in on its value, the body once, stop_in on the '
                  'loop variable = that object), C20_with_program_reeval_refuted (`stop_in(S)`: evaluated twice, the bound object never stopped). '
                  'The floating branch of scan_from_with is extracted as a chain of arms like the integer branch (floatArms): C20_scan_float_arms_select (each of '
                  '%[l]{f F e E g G} reaches an arm whose object has the type libc stores: double exactly with l), C20_scan_float_arms_all_reached, C20_text_float_conversion '
                  '(what is delivered is libc\'s conversion at the width the specification names, never an undefined store), C20_scan_float_single_double_arm_refuted '
                  '(the two arms merged into one double: %f is undefined).')
    level_note = ('Trusted: Lean kernel; libc stdio is modelled by a reference implementation validated against glibc on every run (not verified); '
                  'libc\'s conversions themselves (printf of an integer / floating value, the number conversions of scanf) are the executable models of Cello/Text.lean '
                  '(engine C15), validated here on every run by libc\'s own fprintf / fscanf on the twin file; the format scanner is C14; the regex translator for File.c '
                  'and for the branches of scan_from_with; harness/driver comparison is testing. '
                  'Process (the second Stream class of src/File.c) shares the wrapper model: the translator checks that Process_<X> is File_<X> under the '
                  'renaming popen/pclose/p->proc for every function but the constructor (C20_process_same_wrappers); popen/pclose are modelled by a small '
                  'reference (commands true, false, cat) validated each run. '
                  'Not covered: two streams on one file; a+ mode; octal/hex/overflowing %li input; I/O errors other than /dev/full; scan_from on an open pipe; '
                  'commands killed by a signal.')
    rule = ('op files: (a) round trips: lengths 0…4 BUFSIZ biased to buffer boundaries, random chunkings of writes and reads (with empty chunks '
            'and over-reads), reopen or seek to start by SET/CUR/END, then random seeks within the file; (b) every order of the life-cycle ops '
            '(new+open, open, close, stop, with, withx, del, open /dev/full+write, del+with over inline new left normally / by break) up to length 3 (quick) / 4 (thorough) plus random longer ones over several objects; '
            '(c) every operation on Files closed in six different ways; (d) print_to/scan_from of Ints, mixed white space; (e) /dev/full: failing '
            'fflush/fclose; (f) random mixtures over 8 objects and 6 files; (g) run first: with blocks whose source expression constructs the File '
            '(inline new(File, path, mode), new(File), a call-counting function) or is a variable, bodies that write / print / close / reopen / '
            'nest further blocks, left by falling off the end, continue, or — after closing the File — break, return or an exception, then dump + '
            'read back / scan of what they left; (h) copy / assign of Files closed just before, both objects then used independently; '
            'new(File, path) with one argument; (i) Process objects on `true`, `false` (non-zero exit status) and `cat` in both directions: constructor with '
            '2/1/0 arguments and bad modes, every op on a closed Process, reopen, del, with blocks, reads in chunks with over-reads, writes checked against the sink; '
            '(j) `drop`: a heap File is made unreachable and a collection forced — the collector must make exactly the fclose `del` would make; '
            '(k) typed text (ops tp / ts = print_to / scan_from with one specification and a literal run): a sweep over every integer conversion d i u x X o × '
            'every length modifier (none hh h l ll j z t q) × the boundary values of every width (0, ±1, 2^7±1, 2^8±1, 2^15±1, 2^16±1, 2^31±1, 2^32±1, 2^63-1, -2^63, '
            '0xdeadbeef, 4000000000 …), %c over the byte values, the floating conversions f F e E g G with and without l over 25 doubles (float-exact and not), '
            '%s words, %$ on Int / Float / String (with every escape), separators " " "\\n" "\\t" "," ", " ";" "\\r\\n" " : " "|" or none, read back with the same '
            'format on the same stream after sseek(0) or after close / reopen, plus random mixtures (some read with another conversion than they were written with) '
            'and one read beyond the last item; corpus/file_typed_*.ops hold a fixed selection that runs first; '
            '(l) File_Open branch by branch (family reopen): File holding a stream with unflushed bytes or not × fopen succeeds / fails (missing directory, mode x, missing file for r) × '
            'the fclose inside File_Open fails (/dev/full), reopen onto the same path in a truncating mode, then tell / write / dump (branch counters open_* in the statistics; '
            'the driver additionally executes the extracted statements of File_Open on every sopen and reports R opensrc). '
            'The two known-finding regions (early exit with the File open; copy / assign of an open File) are '
            'exercised by corpus/kf_c20_*.ops only. non-trivial item = an op whose observation shows a stdio call or a '
            'refusal on a closed File; distinct = distinct (op text, observation).')
    trusted_base = ('translate/g_file.py (regex over src/File.c, src/Start.c; statement tokeniser for File_Open / File_Del, term parser for the clauses of with_in, chain reader for the arms of scan_from_with)',
                    'harness/h_file.c + lean/Driver/File.lean (correspondence is testing)',
                    'glibc stdio is modelled by Cello.File.refIO (validated each run against libc on a twin file), not verified',
                    'libc\'s printf / scanf conversions: the executable models of Cello/Text.lean (C15), validated each run against libc\'s own fprintf / fscanf on the twin file; C\'s integer conversion rules as modelled in Cello/FileText.lean (conv, promote, uac)',
                    'popen/pclose and stdio on a pipe are modelled by Cello.File.pipeIO (commands true / false / cat; validated each run against the real calls), not verified')
    assumptions = ('one stream per file at a time (the reference stdio has no buffers); modes r w a r+ w+ (+b)',
                   'no read directly after write or write directly after read without fseek/fflush/EOF (undefined in C): such ops are skipped by both sides',
                   'op `scan` (%$ on an Int) only on plain decimal text (no leading zeros / 0x, at most 18 digits); typed scans (op `ts`) are executed when libc converts the text at the position or the file ends there (a matching failure in the middle of the text, inf / nan / hexadecimal floats, a token beyond 4000 bytes, a %s word over 190 bytes: answered unsup by both sides); '
                   'typed text: one specification and one literal run (at most 8 bytes, no %) per call, no flags / width / precision (C15), no %p, no %[ ]; string values up to 64 bytes without NUL; %a / %A are not modelled',
                   '/dev/full: write-only modes, at most 1024 buffered bytes, no seek', 'no write at an offset beyond 1 MiB',
                   'an object is not deleted inside its own with-block (use after free)',
                   'known finding KF-C20-with-early-exit: a with block left by break, return or an exception does not run stop_in (that is what the '
                   'for loop of with_in does): the stream stays open until sclose / del / the collector.  Modelled as such (Leave.brk/.ret/.throw), '
                   'refuted as a statement (C20_with_early_exit_refuted), reported by the oracle under sig=kf-c20-with-early-exit; generated bodies '
                   'that are left early close their File first, the open case is corpus/kf_c20_with_early_exit.ops',
                   'known finding KF-C20-copy-aliases-handle: copy / assign of a File while source or target is open duplicate or overwrite the FILE* '
                   '(File has no Assign / Copy instance: the default memcpy).  Modelled as such (MOp.copy / MOp.assign), excluded from the close-once '
                   'theorems by the explicit hypothesis cleanRun / cleanList, refuted (C20_copy_aliases_refuted), reported under '
                   'sig=kf-c20-copy-aliases-handle; generated copy / assign ops are directly preceded by close of the objects involved, the open '
                   'case is corpus/kf_c20_copy_aliases.ops.  The theorem over handles additionally assumes of stdio that fopen never returns a '
                   'handle that is still open (freshCalls, a hypothesis on the log)',
                   'a File constructed in the header of a with block is kept reachable by the harness (slot objs[o]) so that the collector does not '
                   'finalise it at a time the model cannot predict; the collector as closer is exercised by the op `drop` (slot cleared, stack scrubbed, '
                   'GC_Mark + GC_Sweep forced; not on /dev/full, where File_Del would throw out of the sweep)',
                   'Process: commands true / false / cat only; modes r, w (r+ and x: popen answers NULL); writes only to `cat` sinks (a command that has exited '
                   'would raise SIGPIPE); an input pipe is read to its end inside the interposed pclose before the real one (so that cat is never killed by SIGPIPE '
                   'and the wait status is the exit status); no sflush on an input pipe; no scan_from on an open pipe; one Process per cat input / sink at a time')
    def cases(self, rng, tier, boost=1):
        quick = tier == 'quick'
        cs = []
        maxbuf = 4
        def pack(name, seqs, per):
            # several independent histories per process would share files; keep one history per case, but join short ones
            for i, ls in enumerate(seqs): cs.append(Case(f'{name}{i}', ls))
        # first: the family whose oracle is the sharpest on the `with` macro (a broken macro is then reported in seconds)
        pack('with', [gen_with(rng, maxbuf) for _ in range((120 if quick else 900) * boost)], 1)
        # typed text: the sweep over every conversion × modifier × boundary value (deterministic up to the choice of separators and of
        # seek / reopen), then random mixtures
        for rep in range(1 if quick else 4): pack(f'typedsweep{rep}_', gen_typed_sweep(rng), 1)
        pack('typed', [gen_typed(rng) for _ in range((80 if quick else 700) * boost)], 1)
        pack('reopen', [gen_reopen(rng, maxbuf) for _ in range((80 if quick else 600) * boost)], 1)
        n_rt = (150 if quick else 1200) * boost
        pack('rt', [gen_roundtrip(rng, maxbuf) for _ in range(n_rt)], 1)
        ex = gen_lifecycle_exhaustive(3 if quick else 4)
        # join the exhaustive sequences into files of 64 histories: each starts with `new 4` and must end by deleting it
        joined = []
        for i in range(0, len(ex), 64):
            lines = []
            for seq in ex[i:i+64]:
                lines += seq + ['del 4', 'rm 2']
            joined.append(lines)
        pack('life', joined, 1)
        pack('lifer', [gen_lifecycle_random(rng) for _ in range((100 if quick else 900) * boost)], 1)
        pack('closed', [gen_closed(rng) for _ in range((40 if quick else 250) * boost)], 1)
        pack('copy', [gen_copy(rng, maxbuf) for _ in range((60 if quick else 400) * boost)], 1)
        pack('text', [gen_text(rng) for _ in range((60 if quick else 500) * boost)], 1)
        pack('dev', [gen_device(rng) for _ in range((50 if quick else 350) * boost)], 1)
        pack('proc', [gen_proc(rng) for _ in range((80 if quick else 600) * boost)], 1)
        pack('soup', [gen_soup(rng, rng.randrange(20, 120 if quick else 400), maxbuf) for _ in range((150 if quick else 900) * boost)], 1)
        return cs
    def model_selfcheck(self, case, m_out):
        # the driver evaluates the specification `track` on the model's own log of stdio calls, object by object
        for l in m_out.split('\n'):
            if l.startswith('R bracketed=') and 'true' not in l:
                return 'the model\'s own log of stdio calls is not well bracketed (track = none) on this history'
            if l.startswith('R gbracketed=') and 'gbracketed=true' not in l:
                return ('the model\'s own log of the whole process is rejected by the automaton over handles (gtrack = none) on this '
                        'history: a handle was used after its fclose or closed twice')
            if l.startswith('R opensrc=') and 'opensrc=true' not in l:
                return ('File_Open as the translator extracted it from the source (CelloGen.File.openProg, executed by runOpen) does not do '
                        'what the model\'s fileOpen does on a sopen of this history: the order of fclose / fopen / the NULL test changed')
            if l.startswith('R opensrc=') and 'withsrc=true' not in l:
                return 'the header of with_in as terms (CelloGen.File.withProg) is not the clause model the driver runs'
            if l.startswith('R withproto=') and 'true' not in l:
                return ('the model\'s own with loops break the protocol (wtrack = none) on this history: a source expression was evaluated '
                        'again by the step clause, or stop_in received an object that is not the loop variable')
        return None
    def _pairs(self, case, c_out):
        ops = [l for l in case.lines if l.strip() and not l.startswith('#')]
        return ops, core.lines_with('O ', c_out)
    def nontrivial_items(self, case, c_out, m_out):
        items = set()
        for o in core.lines_with('O ', c_out):
            if ' calls=' in o and (' calls=-' not in o or 'exc=IOError' in o):
                items.add(hash(o))
        return items
    def stats(self, case, c_out, m_out, acc):
        for o in core.lines_with('O ', c_out):
            p = o.split()
            op = p[1] if len(p) > 1 else '?'
            acc['op_' + op] = acc.get('op_' + op, 0) + 1
            if o.endswith(' unsup') or o.endswith(' busy') or o == 'O bad-op': acc['skipped'] = acc.get('skipped', 0) + 1; continue
            m = re.search(r'exc=(\w+)', o)
            if m and m.group(1) != 'none': acc['exc_' + m.group(1)] = acc.get('exc_' + m.group(1), 0) + 1
            if 'exc=IOError' in o and 'st=closed calls=-' in o: acc['refused_on_closed'] = acc.get('refused_on_closed', 0) + 1
            if 'fclose:' in o and 'fopen:' in o: acc['reopen_closed_first'] = acc.get('reopen_closed_first', 0) + 1
            m = re.search(r'got=(\d+)', o)
            if m: acc['max_read'] = max(acc.get('max_read', 0), int(m.group(1))); acc['bytes_read'] = acc.get('bytes_read', 0) + int(m.group(1))
            m = re.search(r'st=h\d+:(\d+):', o)
            if m: acc['max_pos'] = max(acc.get('max_pos', 0), int(m.group(1)))
            if op == 'drop' and 'fclose:' in o: acc['collector_closed'] = acc.get('collector_closed', 0) + 1
            if op == 'open' and ' calls=' in o:
                # branch counters of File_Open: held / free × what fclose and fopen answered
                calls = o.split(' calls=')[1].split()[0]
                held = 'fclose:' in calls
                br = ('held' if held else 'free') + ('-closefailed' if held and 'fopen' not in calls else '-ok' if 'exc=none' in o else '-fopenfailed')
                acc['open_' + br] = acc.get('open_' + br, 0) + 1
            if op in ('pclose', 'pstop', 'pdel', 'pwith-exit', 'popen') and 'exc=IOError' in o and 'pclose:p' in o:
                acc['pclose_nonzero_status'] = acc.get('pclose_nonzero_status', 0) + 1
            if op == 'end':
                m = re.search(r'fopen=(\d+) fail=(\d+) fclose=(\d+)', o)
                if m: acc['fopen'] = acc.get('fopen', 0) + int(m.group(1)); acc['fopen_failed'] = acc.get('fopen_failed', 0) + int(m.group(2)); acc['fclose'] = acc.get('fclose', 0) + int(m.group(3))

SPEC = C20()
