"""C08 — type-class dispatch returns exactly what the type declares (engine disp)."""
import os, sys
from ..runner import Spec, Case
from .. import core

sys.path.insert(0, os.path.join(core.ROOT, 'translate'))

# rows of the statically declared probe types of harness/h_disp.c (the harness checks them against its records)
PROBES = {
    'ProbeS0': [],
    'ProbeS1': [('Show', '10'), ('New', '11'), ('Cmp', '1'), ('Show', '01'), ('Cmp', '0')],
    'ProbeS2': [('Pointer', '10'), ('Cast', '0'), ('Current', '1'), ('C_Float', '1'), ('C_Int', '0'), ('C_Str', '1'), ('Get', '101001'),
                ('Concat', '01'), ('Push', '1100'), ('Iter', '11000'), ('Len', '1'), ('Hash', '1'), ('Mark', '0'), ('Cmp', '1'),
                ('Assign', '1'), ('New', '01'), ('Alloc', '00'), ('Size', '1'), ('Swap', '1'), ('Help', '0'), ('Size', '0')],
    'ProbeS3': [('Copy', '1'), ('Cast', '1'), ('Cast', '0')],
}
LOOKUPS = 'IPMQipmqJKkEHUecdgf'
LIFE = 'NWXY'

def table():
    import importlib, g_disp
    importlib.reload(g_disp)
    try:
        return g_disp.extract(core.REPO)
    except Exception:
        return g_disp.extract_loose(core.REPO)

def fl(bs): return ''.join('1' if b else '0' for b in bs)

def harness_wrappers():
    """the dispatching functions harness/h_disp.c can call: rows `W(function, Class, member, soft, …)` of its WLIST"""
    import re
    src = open(os.path.join(core.ROOT, 'harness', 'h_disp.c')).read()
    m = re.search(r'#define WLIST\(W\)(.*?)\n#define W_DEF', src, flags=re.S)
    return [(a, b, c, d == '1') for a, b, c, d in re.findall(r'\bW\((\w+), (\w+), (\w+), ([01])', m.group(1))] if m else []

class Gen:
    def __init__(self, rng, tab):
        self.rng = rng; self.tab = tab
        self.decl = {n: row for n, f, row in tab['declared']}
        self.names = [n for n, f, row in tab['declared']]
        self.arity = dict(tab['arity'])
        self.cached = [c for i, c in tab['slots']]
        self.gline = 'G ' + ' '.join(f'{i}:{c}' for i, c in tab['slots'])
    def bind(self, tid, name):
        return f'B {tid} {name} ' + ' '.join(f'{c}:{fl(f)}' for c, f in self.decl[name])
    def prelude(self):
        return [self.gline, self.bind(0, 'Type').rstrip()]
    def lookup_ops(self, tid, ctok, arity, upper_only=False, tname=''):
        """all four lookups of one (type, class) with every member index, as separate ops"""
        r = self.rng
        kf = ctok == 'b.Terminal' or tname == 'Terminal'     # known finding KF-C08-terminal-message: no throwing lookups there
        cs = (lambda a, b: a) if upper_only else (lambda a, b: a if r.random() < 0.6 else b)
        ops = [f'{cs("I", "i")} {tid} {ctok}', f'{cs("P", "p")} {tid} {ctok}']
        for k in range(max(arity, 1)):
            if not kf: ops.append(f'{cs("M", "m")} {tid} {ctok} {k}')
            if not kf and r.random() < 0.25: ops.append(f'e {tid} {ctok} {k}')
            ops.append(f'{cs("Q", "q")} {tid} {ctok} {k}')
        return ops

    # ---- (1) the full built-in matrix
    def builtin_cases(self, chunk=6, sample=None, tag=''):
        r = self.rng; cases = []
        names = list(self.names)
        for ci in range(0, len(names), chunk):
            part = names[ci:ci+chunk]
            lines = self.prelude()
            # run-time classes that carry the names of library classes: distinct class objects, same name
            twins = r.sample(self.names, 6)
            for k, nm in enumerate(twins): lines.append(f'C {k} {nm}')
            lines.append('C 6 __Name'); lines.append('C 7 __Size'); lines.append('C 8 NoSuchClass')
            tids = {}
            for j, nm in enumerate(part):
                if nm == 'Type': tids[nm] = 0; continue          # already bound as type number 0
                tids[nm] = j + 1; lines.append(self.bind(j + 1, nm).rstrip())
            ops = []
            for nm in part:
                classes = list(self.names) if sample is None else r.sample(self.names, sample)
                for c in classes:
                    group = self.lookup_ops(tids[nm], 'b.' + c, self.arity.get(c, 1), tname=nm)
                    ops.append(group)
                for k in range(9):
                    cname = twins[k] if k < 6 else None
                    ops.append(self.lookup_ops(tids[nm], f'r.{k}', self.arity.get(cname, 1) if cname else 1, tname=nm))
                noterm = [p for p in part if p != 'Terminal']
                if nm != 'Terminal': ops.append([f'K {tids[nm]} {tids[r.choice(noterm)]}', f'K {tids[nm]} {tids[nm]}', f'K {tids[nm]} 0'])
                ops.append([f'k {tids[nm]} 0', f'k {tids[nm]} {tids[r.choice(noterm)]}', f'k {tids[nm]} {tids[nm] if nm != "Terminal" else 0}'])
                ops.append([f'J {tids[nm]} b.{r.choice(self.names)}'])
                if nm != 'Type' and nm != 'Terminal':
                    ops.append([f'E {r.choice(["null", "dead", "bad", "nontype"])} {tids[nm]} b.{r.choice([c for c in self.names if c not in self.cached])}'])
            # random cold/warm orders: shuffle the groups, sometimes shuffle inside, reset caches now and then
            r.shuffle(ops)
            for g in ops:
                if r.random() < 0.3: r.shuffle(g)
                lines += g
                if r.random() < 0.04: lines.append(f'R {r.choice(list(tids.values()))}')
            cases.append(Case(f'builtin{tag}_{ci//chunk}', lines))
        return cases

    # ---- (2) run-time types
    def class_pool(self, lines, nrt):
        """tokens of classes usable in run-time types: library classes and run-time classes (some share names)"""
        r = self.rng
        pool = [('b.' + c, self.arity.get(c, None), c) for c in self.names]
        rt_names = r.sample(self.cached, 4) + r.sample(self.names, 3) + ['__Name', '__Size', 'Foo', 'Bar', 'Foo', 'Cast', 'Size']
        rt_names = rt_names[:nrt]
        for k, nm in enumerate(rt_names):
            lines.append(f'C {k} {nm}')
            pool.append((f'r.{k}', self.arity.get(nm, None), nm))
        return pool
    def item(self, c):
        r = self.rng
        tok, ar, nm = c
        n = ar if ar is not None else r.randrange(1, 7)
        return f'{tok}:' + ''.join(r.choice('011') for _ in range(n)), n
    def runtime_case(self, name, ntypes, big=False, nops=60):
        r = self.rng
        lines = self.prelude()
        pool = self.class_pool(lines, 14)
        hot = [c for c in pool if c[2] in self.cached]
        tids = []
        rows = {}
        for t in range(ntypes):
            tid = t + 1
            x = r.random()
            if big: n = r.choice([255, 256, 257, 256, 200, 129])
            elif x < 0.08: n = 0
            elif x < 0.2: n = 1
            elif x < 0.85: n = r.randrange(2, 24)
            else: n = r.randrange(24, 70)
            sub = r.sample(pool, min(len(pool), r.randrange(3, 30)))      # few distinct classes → duplicates
            row = []
            for i in range(n):
                c = r.choice(hot) if r.random() < 0.35 else r.choice(sub)
                it, m = self.item(c); row.append((c, it, m))
            lines.append(f'T {tid} RT{tid}_{name} ' + ' '.join(it for c, it, m in row))
            if n <= 256: tids.append(tid); rows[tid] = row
        for tid in tids:
            row = rows[tid]
            present = [c for c, it, m in row]
            for _ in range(nops if not big else nops // 2):
                x = r.random()
                if x < 0.55 and present: c = r.choice(present)
                elif x < 0.8: c = r.choice(hot)
                else: c = r.choice(pool)
                # the member count of the instance the type declares for this class name (first triple with that name)
                first = next(((cc, m) for cc, it, m in row if cc[2] == c[2]), None)
                kmax = first[1] if first else 8
                y = r.random()
                if y < 0.3: lines.append(f'{r.choice("Ii")} {tid} {c[0]}')
                elif y < 0.45: lines.append(f'{r.choice("Pp")} {tid} {c[0]}')
                elif y < 0.7 and c[0] != 'b.Terminal': lines.append(f'{r.choice("Mm")} {tid} {c[0]} {r.randrange(max(kmax, 1))}')
                elif y < 0.80: lines.append(f'{r.choice("Qq")} {tid} {c[0]} {r.randrange(max(kmax, 1))}')
                elif y < 0.85 and c[2] != 'Terminal': lines.append(f'e {tid} {c[0]} {r.randrange(max(kmax, 1))}')
                elif y < 0.89: lines.append(f'R {tid}')
                elif y < 0.93: lines.append(f'K {tid} {r.choice(tids + [0])}')
                elif y < 0.94: lines.append(f'K {tid} {tid}')
                elif y < 0.95: lines.append(f'k {tid} {r.choice([tid, 0, 0, r.choice(tids)])}')
                elif y < 0.97: lines.append(f'J {tid} b.{r.choice(self.names)}')
                else: lines.append(f'E {r.choice(["null", "dead", "bad", "nontype", "nullcls", "nullcls"])} {tid} {r.choice([p for p in pool if p[2] not in self.cached])[0]}')
        return Case(name, lines)

    # ---- (3) statically declared probe types: every class, cold then warm, in several orders
    def static_case(self, name):
        r = self.rng
        lines = self.prelude()
        tids = {}
        for j, (p, row) in enumerate(sorted(PROBES.items())):
            tids[p] = j + 1
            lines.append((f'S {j+1} {p} ' + ' '.join(f'{c}:{f}' for c, f in row)).rstrip())
        # first the lookups that need nothing but the dispatch itself (no exception machinery, no allocation): with a
        # broken scan the oracle speaks here, before the library's own start-up trips over the same bug
        lib = [('b.' + c, self.arity.get(c, 1)) for c in self.names]
        for p in tids:
            for tok, a in lib:
                lines += [f'I {tids[p]} {tok}', f'p {tids[p]} {tok}'] + [f'Q {tids[p]} {tok} {k}' for k in range(a)]
            lines.append(f'R {tids[p]}')
        lines += ['C 0 Show', 'C 1 Cmp', 'C 2 Size', 'C 3 Zzz']
        classes = lib + [(f'r.{k}', a) for k, a in [(0, 2), (1, 1), (2, 1), (3, 1)]]
        for rep in range(2):
            for p in tids:
                groups = [self.lookup_ops(tids[p], tok, a) for tok, a in classes]     # (no M for b.Terminal: known finding)
                groups.append([f'K {tids[p]} {tids[q]}' for q in tids] + [f'K {tids[p]} 0'])
                groups.append([f'k {tids[p]} {tids[q]}' for q in tids] + [f'k {tids[p]} 0'])
                groups.append([f'J {tids[p]} b.Show', f'E nontype {tids[p]} b.Show', f'E dead {tids[p]} b.Doc'])
                r.shuffle(groups)
                for g in groups:
                    if rep: r.shuffle(g)
                    lines += g
                    if r.random() < 0.05: lines.append(f'R {tids[p]}')
                lines.append(f'D {tids[p]}')
                lines.append(f'R {tids[p]}')
        return Case(name, lines)

    # ---- (4) threads on cold caches
    def thread_case(self, name, nthreads, rounds, ntypes):
        r = self.rng
        lines = self.prelude()
        pool = self.class_pool(lines, 14)
        hot = [c for c in pool if c[2] in self.cached]
        lines.append('S 1 ProbeS2 ' + ' '.join(f'{c}:{f}' for c, f in PROBES['ProbeS2']))
        lines.append('S 2 ProbeS1 ' + ' '.join(f'{c}:{f}' for c, f in PROBES['ProbeS1']))
        cl = ' '.join('b.' + c for c in self.cached + ['Show', 'Swap', 'Help', 'Doc'])
        lines.append(f'H 1 {nthreads} {rounds} {cl}')
        lines.append(f'H 2 {nthreads} {rounds} b.Show b.Cmp b.New b.Doc r.0 r.1 r.2')
        lines.append('R 2')
        # library types: their caches are reset and raced for as well (results only: the library itself uses these caches)
        rich = [nm for nm in self.names if len(self.decl[nm]) >= 5]
        for j, nm in enumerate(r.sample(rich, min(4, len(rich)))):
            tid = 100 + j
            lines.append(self.bind(tid, nm).rstrip())
            own = ['b.' + c for c, f in self.decl[nm]]
            absent = ['b.' + c for c in r.sample(self.names, 4) if 'b.' + c not in own]
            lines.append(f'H {tid} {nthreads} {rounds} ' + ' '.join(own + absent))
            for tok in own[:4]: lines.append(f'I {tid} {tok}')
        for t in range(ntypes):
            tid = t + 3
            n = r.choice([0, 1, 3, 8, 8, 16, 16, 30, 40, 256 if t == 0 else 12])
            row = []
            for i in range(n):
                c = r.choice(hot) if r.random() < 0.5 else r.choice(pool)
                it, m = self.item(c); row.append((c, it))
            lines.append(f'T {tid} TH{tid} ' + ' '.join(it for c, it in row))
            present = list({c[0]: c for c, it in row}.values())
            k = min(len(present), r.randrange(2, 12)) if present else 0
            want = r.sample(present, k) + r.sample(hot, 3) + r.sample(pool, 2)
            if n > 64: want = want[:5]
            # which of two same-named class objects ends up memoised is decided by the schedule: either keep the names
            # unique (and look at the memo words afterwards) or let twins race and reset before the next dump
            twins_race = r.random() < 0.5
            seen = []; seen_names = set()
            for c in want:
                if c[0] in seen or (not twins_race and c[2] in seen_names): continue
                seen.append(c[0]); seen_names.add(c[2])
            nt = nthreads if n <= 64 else min(nthreads, 8)
            lines.append(f'H {tid} {nt} {rounds if n <= 64 else max(1, rounds // 8)} ' + ' '.join(seen))
            # the same lookups afterwards, warm, from the main thread
            if twins_race: lines.append(f'R {tid}')
            for tok in seen[:6]: lines.append(f'I {tid} {tok}')
            lines.append(f'R {tid}')
            for tok in seen[:3]: lines.append(f'i {tid} {tok}')
        return Case(name, lines)

    # ---- (11) threaded stress on cold COPIES of records (op U): library types, a static probe, fresh run-time types; every
    #           thread starts with a different class; declared, absent, cached and same-named twin classes
    def stress_case(self, name, nthreads, rounds, nlib=4, nrt=4):
        r = self.rng
        lines = self.prelude()
        pool = self.class_pool(lines, 14)
        pool = [c for c in pool if c[2] != 'Terminal']
        hot = [c for c in pool if c[2] in self.cached]
        lines.append('S 1 ProbeS2 ' + ' '.join(f'{c}:{f}' for c, f in PROBES['ProbeS2']))
        def pick(own_names, k_abs):
            own = [c[0] for c in pool if c[2] in own_names and c[0].startswith('b.')]
            twins = [c[0] for c in pool if c[2] in own_names and c[0].startswith('r.')]
            absent = [c[0] for c in r.sample(pool, min(len(pool), 40)) if c[2] not in own_names][:k_abs]
            want = own + twins[:3] + absent + [c[0] for c in r.sample(hot, 4)]
            seen = []
            for t in want:
                if t not in seen: seen.append(t)
            r.shuffle(seen)
            return seen
        lines.append(f'U 1 {nthreads} {rounds} {r.randrange(1 << 30)} ' + ' '.join(pick({c for c, f in PROBES['ProbeS2']}, 8)))
        rich = [nm for nm in self.names if len(self.decl[nm]) >= 5 and nm != 'Terminal']
        for j, nm in enumerate(r.sample(rich, min(nlib, len(rich)))):
            tid = 100 + j
            lines.append(self.bind(tid, nm).rstrip())
            lines.append(f'U {tid} {nthreads} {rounds} {r.randrange(1 << 30)} ' + ' '.join(pick({c for c, f in self.decl[nm]}, r.choice([4, 8, 16]))))
        for t in range(nrt):
            tid = t + 3
            n = r.choice([1, 3, 8, 16, 16, 30, 40])
            row = []
            for i in range(n):
                c = r.choice(hot) if r.random() < 0.4 else r.choice(pool)
                it, m = self.item(c); row.append((c, it))
            lines.append(f'T {tid} ST{tid}_{name} ' + ' '.join(it for c, it in row))
            lines.append(f'U {tid} {nthreads} {rounds} {r.randrange(1 << 30)} ' + ' '.join(pick({c[2] for c, it in row}, r.choice([2, 6, 12]))))
            # the original was not touched: the same lookups from the main thread, cold
            for c, it in row[:4]: lines.append(f'I {tid} {c[0]}')
        return Case(name, lines)

    # ---- (5) life cycle of run-time types: construction on every kind of storage, re-construction IN PLACE, del
    def life_item(self, c, flags=None):
        it, m = self.item(c)
        return (c, it, m)
    def life_row(self, pool, slot_cls, cold, n_hint=None):
        """an instance list: a random subset of the cached classes (one per cache slot, library class or a same-named
        run-time twin), some uncached ones, some duplicates; random order"""
        r = self.rng
        x = r.random()
        if n_hint is not None: n = n_hint
        elif x < 0.07: n = 0
        elif x < 0.15: n = 1
        else: n = None
        row = []
        if n is None:
            p = r.choice([0.25, 0.5, 0.8, 1.0])
            for cands in slot_cls:
                if r.random() < p: row.append(self.life_item(r.choice(cands)))
            for _ in range(r.randrange(0, 5)): row.append(self.life_item(r.choice(cold)))
            for _ in range(r.randrange(0, 3)):
                if row: row.append(self.life_item(r.choice(row)[0]))          # duplicate class name: the first one wins
            r.shuffle(row)
        else:
            every = [c for cands in slot_cls for c in cands] + cold
            for _ in range(n): row.append(self.life_item(r.choice(every)))
        return row
    def life_mutate(self, row, pool, slot_cls, cold):
        """another declaration for the same storage: classes removed, added, member flags / order changed (the instance
        pointers always change: every construction gets new instance objects)"""
        r = self.rng
        x = r.random()
        if x < 0.08: return []
        if x < 0.16: return [self.life_item(c) for c, it, m in row]                       # same classes, same order, new pointers
        if x < 0.24: return self.life_row(pool, slot_cls, cold)                           # unrelated
        keep = [self.life_item(c) for c, it, m in row if r.random() < r.choice([0.3, 0.6, 0.9])]
        for cands in slot_cls:
            if r.random() < 0.2: keep.append(self.life_item(r.choice(cands)))
        for _ in range(r.randrange(0, 3)): keep.append(self.life_item(r.choice(cold)))
        if r.random() < 0.7: r.shuffle(keep)
        elif r.random() < 0.5: keep.reverse()
        return keep
    def life_lookups(self, tid, row, slot_cls, cold, extra, p_all):
        """lookups on tid: every cached class (prob. p_all: all 18 slots, else a random subset), uncached and removed ones"""
        r = self.rng
        want = []
        allslots = r.random() < p_all
        for cands in slot_cls:
            if allslots or r.random() < 0.4: want.append(r.choice(cands))
        want += r.sample(cold, min(len(cold), r.randrange(1, 4)))
        want += [c for c in extra if r.random() < 0.7]
        r.shuffle(want)
        ops = []
        for c in want:
            # the member count of the instance the type declares for this class name (first triple with that name)
            first = next(((cc, m) for cc, it, m in row if cc[2] == c[2]), None)
            k = r.randrange(max(first[1], 1)) if first else 0
            for _ in range(2 if r.random() < 0.15 else 1):                          # sometimes twice: cold then warm
                y = r.random()
                if y < 0.45: ops.append(f'{r.choice("Ii")} {tid} {c[0]}')
                elif y < 0.75: ops.append(f'{r.choice("Mm")} {tid} {c[0]} {k}')
                elif y < 0.85: ops.append(f'{r.choice("Pp")} {tid} {c[0]}')
                else: ops.append(f'{r.choice("Qq")} {tid} {c[0]} {k}')
        return ops
    def lifecycle_case(self, name, ntypes, rounds, big=False):
        r = self.rng
        lines = self.prelude()
        pool = self.class_pool(lines, 14)
        pool = [c for c in pool if c[2] != 'Terminal']                                   # known finding KF-C08-terminal-message
        # one candidate list per cache slot: the library class and every run-time class object that carries its name
        slot_cls = [[c for c in pool if c[2] == nm] for nm in self.cached]
        cold = [c for c in pool if c[2] not in self.cached]
        gc_live = 0; arena_live = 0
        sizes = [0, 0, 8, 16, 24, 4096]
        for t in range(ntypes):
            tid = t + 1
            mode = r.choice(['raw', 'root', 'alloc', 'junk', 'arena' if arena_live < 6 else 'junk', 'gc' if gc_live < 40 else 'raw'])
            if mode == 'gc': gc_live += 1
            if mode == 'arena': arena_live += 1
            row = self.life_row(pool, slot_cls, cold, n_hint=(r.choice([256, 255, 200]) if big and r.random() < 0.5 else None))
            lines.append((f'N {tid} {mode} L{tid}_{name} {r.choice(sizes)} ' + ' '.join(it for c, it, m in row)).rstrip())
            removed = []
            for rd in range(rounds):
                # cold/warm state before the re-construction: nothing, some, or every slot
                x = r.random()
                if x < 0.1: pass
                else: lines += self.life_lookups(tid, row, slot_cls, cold, removed, 0.6)
                if r.random() < 0.1: lines.append(f'R {tid}')
                if r.random() < 0.1: lines.append(f'Y {tid} {r.choice(["copy", "assign"])}')
                if r.random() < 0.12:
                    # refused: more than CELLO_MAX_INSTANCES instances; the old declaration stays in force
                    every = [c for cands in slot_cls for c in cands]
                    over = [self.life_item(r.choice(every)) for _ in range(r.choice([257, 258, 300]))]
                    lines.append(f'W {tid} Over{tid} {r.choice(sizes)} ' + ' '.join(it for c, it, m in over))
                    lines += self.life_lookups(tid, row, slot_cls, cold, removed, 0.3)
                new = self.life_mutate(row, pool, slot_cls, cold)
                if big and r.random() < 0.4: new = self.life_row(pool, slot_cls, cold, n_hint=r.choice([256, 255, 129, 3]))
                gone = {c[0]: c for c, it, m in row if not any(cc[2] == c[2] for cc, it2, m2 in new)}
                removed = list(gone.values())
                row = new
                lines.append((f'W {tid} L{tid}_{name}_{rd} {r.choice(sizes)} ' + ' '.join(it for c, it, m in row)).rstrip())
                lines += self.life_lookups(tid, row, slot_cls, cold, removed, 0.8)
                if r.random() < 0.2: lines.append(f'K {tid} {r.choice([tid, 0])}')
                if r.random() < 0.1: lines.append(f'k {tid} {r.choice([tid, 0])}')
            y = r.random()
            if y < 0.5:
                lines.append(f'X {tid}')
                if mode == 'gc': gc_live -= 1
                if mode == 'arena': arena_live -= 1
                if y < 0.2 or (mode == 'arena' and y < 0.4):
                    # the next type object; in mode arena it lands on the address of the one just deleted
                    old = row
                    row = self.life_row(pool, slot_cls, cold)
                    m2 = 'arena' if mode == 'arena' else r.choice(["raw", "alloc", "junk"])
                    if m2 == 'arena': arena_live += 1
                    lines.append((f'N {tid} {m2} L{tid}b_{name} 0 ' + ' '.join(it for c, it, m in row)).rstrip())
                    gone = list({c[0]: c for c, it, m in old if not any(cc[2] == c[2] for cc, it2, m2_ in row)}.values())
                    lines += self.life_lookups(tid, row, slot_cls, cold, gone, 0.5)
        return Case(name, lines)

    # ---- (6) a deleted type object and the next one on the SAME ADDRESS (harness arena): nothing the library remembered about
    #          the old type object may answer for the new one
    def reuse_case(self, name, rounds):
        r = self.rng
        lines = self.prelude()
        pool = self.class_pool(lines, 14)
        pool = [c for c in pool if c[2] != 'Terminal']
        slot_cls = [[c for c in pool if c[2] == nm] for nm in self.cached]
        cold = [c for c in pool if c[2] not in self.cached]
        tid = 0; kept = []
        for rd in range(rounds):
            tid += 1
            row = self.life_row(pool, slot_cls, cold)
            extra = [self.life_item(c) for c in r.sample(cold, r.randrange(1, 4))]
            row = row + extra; r.shuffle(row)
            lines.append((f'N {tid} arena A{tid}_{name} {r.choice([0, 8, 16])} ' + ' '.join(it for c, it, m in row)).rstrip())
            lines += self.life_lookups(tid, row, slot_cls, cold, [], 0.3)
            # the last lookups before the deletion: one class (present or absent, mostly uncached), possibly repeated
            last = r.choice(extra)[0] if r.random() < 0.7 else r.choice(pool)
            entry = r.choice(['I', 'i', 'M', 'm', 'P', 'Q'])
            first = next(((cc, m) for cc, it, m in row if cc[2] == last[2]), None)
            k = r.randrange(max(first[1], 1)) if first else 0
            def look(t, e, c, kk): return f'{e} {t} {c[0]}' + (f' {kk}' if e in 'MmQq' else '')
            for _ in range(r.randrange(1, 3)): lines.append(look(tid, entry, last, k))
            lines.append(f'X {tid}')
            # the next type object on the same address: without that class, or with another instance (other flags) for it
            tid += 1
            row2 = [x for x in self.life_mutate(row, pool, slot_cls, cold) if x[0][2] != last[2]]
            if r.random() < 0.5:
                row2.insert(r.randrange(len(row2) + 1), self.life_item(last))
            lines.append((f'N {tid} arena A{tid}_{name} {r.choice([0, 8, 16])} ' + ' '.join(it for c, it, m in row2)).rstrip())
            first2 = next(((cc, m) for cc, it, m in row2 if cc[2] == last[2]), None)
            k2 = r.randrange(max(first2[1], 1)) if first2 else 0
            lines.append(look(tid, entry, last, k2))                       # the very first lookup: the same class, the same entry point
            lines.append(look(tid, r.choice(['I', 'M']), last, k2))
            lines += self.life_lookups(tid, row2, slot_cls, cold, [c for c, it, m in row if c[2] != last[2]][:4], 0.4)
            if r.random() < 0.7: lines.append(f'X {tid}')
            else:
                kept.append(tid)
                if len(kept) >= 5:                                         # keep the arena from filling up
                    for t in kept: lines.append(f'X {t}')
                    kept = []
        return Case(name, lines)

    # ---- (10) a run-time type deleted and the next one created by `new_raw(Type, …)` ON THE SAME ADDRESS (mode heap: Type_Alloc's
    #           calloc served from a LIFO pool, as malloc does outside ASan's quarantine; or the harness arena), the types being USED
    #           through the dispatching functions of the library (`c`), through method / type_method / implements_method call sites
    #           (`d g f`) and through the lookup functions: nothing may remember a type by its address
    def recycle_case(self, name, cycles):
        r = self.rng
        lines = self.prelude()
        pool = self.class_pool(lines, 14)
        pool = [c for c in pool if c[2] != 'Terminal']
        slot_cls = [[c for c in pool if c[2] == nm] for nm in self.cached]
        cold = [c for c in pool if c[2] not in self.cached]
        known = {(fn, C): (k, False) for fn, C, M, k in self.tab.get('method_sites', [])}
        known.update({(fn, C): (k, True) for fn, C, M, k in self.tab.get('instance_sites', [])})
        funcs = [(fn, C, known[(fn, C)][0], soft) for fn, C, M, soft in harness_wrappers() if (fn, C) in known and known[(fn, C)][1] == soft and C in self.arity]
        if not funcs: return Case(name, lines)
        cached_f = [f for f in funcs if f[1] in self.cached]; uncached_f = [f for f in funcs if f[1] not in self.cached]
        def kitem(ctok, C, k, bit):
            n = self.arity[C]
            flags = [r.choice('011') for _ in range(n)]; flags[k] = bit
            return ((ctok, n, C), f'{ctok}:' + ''.join(flags), n)
        def declared_bit(row, C, k):
            first = next((it for c, it, m in row if c[2] == C), None)
            if first is None: return None
            f = first.split(':')[1]
            return f[k] if k < len(f) else None
        def toks_of(C): return [c[0] for c in pool if c[2] == C]
        def uses(tid, row, fn, C, k, soft, first=None, n=4):
            """uses of the type through every entry point, `first` first"""
            out = []
            bit = declared_bit(row, C, k)
            def ok(e): return not (e == 'c' and soft and bit != '1')
            cand = ['c', 'c', 'd', 'g', 'f', 'i', 'I', 'm', 'M', 'q', 'p']
            seq = ([first] if first else []) + [r.choice(cand) for _ in range(n)]
            for e in seq:
                if e in 'cdgf':
                    if ok(e): out.append(f'{e} {tid} {fn}')
                    else: out.append(f'd {tid} {fn}')
                else:
                    tok = r.choice(toks_of(C))
                    out.append(f'{e} {tid} {tok}' + (f' {k}' if e in 'mMqQ' else ''))
            return out
        tid = 0; live = []          # live: (tid, row, mode)
        nheap = 0
        for cyc in range(cycles):
            fn, C, k, soft = r.choice(uncached_f if r.random() < 0.6 and uncached_f else (cached_f or funcs))
            mode = 'arena' if r.random() < 0.2 and sum(1 for t in live if t[2] == 'arena') < 4 else 'heap'
            tid += 1
            base = [x for x in self.life_row(pool, slot_cls, cold) if x[0][2] != C]
            row1 = base + [kitem(r.choice(toks_of(C)), C, k, '1')]; r.shuffle(row1)
            lines.append((f'N {tid} {mode} R{tid}_{name} {r.choice([0, 8, 16])} ' + ' '.join(it for c, it, m in row1)).rstrip())
            if r.random() < 0.4: lines += self.life_lookups(tid, row1, slot_cls, cold, [], 0.2)
            entry = r.choice(['c', 'c', 'c', 'd', 'd', 'g'])
            # the last uses of the type before it goes: the function under test last, through `entry`
            pre = uses(tid, row1, fn, C, k, soft, n=r.randrange(0, 3))
            lines += pre
            for _ in range(r.randrange(1, 3)): lines.append(f'{entry} {tid} {fn}')
            lines.append(f'X {tid}')
            # the next type object: created right away on the address just released
            v = r.choice(['other', 'other', 'absent', 'absent', 'null', 'dupnull', 'twin'])
            tid += 1
            row2 = [x for x in self.life_mutate(base, pool, slot_cls, cold) if x[0][2] != C]
            if v == 'other': row2.insert(r.randrange(len(row2) + 1), kitem(r.choice(toks_of(C)), C, k, '1'))
            elif v == 'null': row2.insert(r.randrange(len(row2) + 1), kitem(r.choice(toks_of(C)), C, k, '0'))
            elif v == 'dupnull':
                row2.insert(r.randrange(len(row2) + 1), kitem(r.choice(toks_of(C)), C, k, '1'))
                row2.insert(0, kitem(r.choice(toks_of(C)), C, k, '0'))                    # the first triple of a class wins
            elif v == 'twin':
                tw = [t for t in toks_of(C) if t.startswith('r.')] or toks_of(C)
                row2.insert(r.randrange(len(row2) + 1), kitem(r.choice(tw), C, k, r.choice('01')))
            lines.append((f'N {tid} {mode} R{tid}_{name} {r.choice([0, 8, 16])} ' + ' '.join(it for c, it, m in row2)).rstrip())
            # the very first use of the new type: the same function through the same entry point
            lines += uses(tid, row2, fn, C, k, soft, first=entry, n=r.randrange(2, 6))
            # other functions of the library on the new type (their call sites last saw other types)
            for _ in range(r.randrange(0, 3)):
                fn2, C2, k2, soft2 = r.choice(funcs)
                b2 = declared_bit(row2, C2, k2)
                if declared_bit(row2, C2, 0) is not None and b2 is None: continue        # member outside the declared instance
                lines.append(f'{"d" if (soft2 and b2 != "1") else r.choice("cdg")} {tid} {fn2}')
            live.append((tid, row2, mode))
            # an older live type is used through the same function again (another address: the call site alternates)
            if len(live) > 1 and r.random() < 0.5:
                t0, rw0, m0 = r.choice(live[:-1])
                b0 = declared_bit(rw0, C, k)
                if not (declared_bit(rw0, C, 0) is not None and b0 is None):
                    lines.append(f'{"d" if (soft and b0 != "1") else entry} {t0} {fn}')
                    lines.append(f'{"d" if (soft and declared_bit(row2, C, k) != "1") else entry} {tid} {fn}')
            while len(live) > 3 or (live and r.random() < 0.5):
                t0, rw0, m0 = live.pop(r.randrange(len(live)))
                lines.append(f'X {t0}')
        for t0, rw0, m0 in live: lines.append(f'X {t0}')
        return Case(name, lines)

    # ---- (7) class names in a prefix relation: the by-name comparison must be an exact one
    PREFIX_PAIRS = [('Show', 'Showable'), ('Hash', 'Hashable'), ('Iter', 'Iterable'), ('Foo', 'FooBar'), ('Cmp', 'Cmpx'),
                    ('C_Str', 'C_Strx'), ('Format', 'FormatError'), ('Get', 'Getter'), ('New', 'Newt'), ('S', 'Size'), ('Len', 'Le')]
    def prefix_case(self, name):
        r = self.rng
        lines = self.prelude()
        pairs = r.sample(self.PREFIX_PAIRS, 5)
        toks = {}          # class name -> list of tokens (library object and/or run-time class objects)
        k = 0
        for short, long_ in pairs:
            for nm in (short, long_):
                toks.setdefault(nm, [])
                if nm in self.names: toks[nm].append('b.' + nm)
                if nm not in self.names or r.random() < 0.5:
                    lines.append(f'C {k} {nm}'); toks[nm].append(f'r.{k}'); k += 1
        def item(nm):
            ar = self.arity.get(nm, None)
            n = ar if ar is not None else r.randrange(1, 4)
            return f'{r.choice(toks[nm])}:' + ''.join(r.choice('011') for _ in range(n)), n
        tid = 0
        for short, long_ in pairs:
            other = [nm for p in pairs for nm in p if nm not in (short, long_)]
            shapes = [[long_], [long_, short], [short, long_], [short], [long_, long_, short], [r.choice(other), long_, r.choice(other)],
                      [r.choice(other), long_, short]]
            for shape in shapes:
                tid += 1
                row = [(nm,) + item(nm) for nm in shape]
                opn = r.choice(['T', 'N'])
                if opn == 'T': lines.append(f'T {tid} P{tid}_{name} ' + ' '.join(it for nm, it, n in row))
                else: lines.append(f'N {tid} {r.choice(["raw", "junk", "arena" if tid % 9 == 0 else "alloc"])} P{tid}_{name} 0 ' + ' '.join(it for nm, it, n in row))
                for rep in range(2):                                                 # cold, then warm
                    order = [short, long_] if r.random() < 0.5 else [long_, short]
                    for nm in order:
                        first = next((n for nm2, it, n in row if nm2 == nm), None)
                        kk = r.randrange(first) if first else 0
                        for tok in toks[nm]:
                            for e in r.sample(['I', 'i', 'P', 'p', 'M', 'm', 'Q', 'q'], 4):
                                lines.append(f'{e} {tid} {tok}' + (f' {kk}' if e in 'MmQq' else ''))
                    if rep == 0 and r.random() < 0.3: lines.append(f'R {tid}')
                if opn == 'N' and tid % 9 == 0: lines.append(f'X {tid}')
        return Case(name, lines)

    # ---- (8) type objects used as CLASSES of other types: re-constructed, renamed, deleted, replaced on the same address —
    #          inside the territory of C08_world_history (a name is written only at an address that no record memoises under
    #          another name: the memoising records are reset first, or the name stays)
    def classlife_case(self, name, rounds):
        r = self.rng
        lines = self.prelude()
        libs = [c for c in self.names if c != 'Terminal']
        cnames = ['Foo', 'Bar', 'Foo', 'Baz', 'Show', 'Hash', 'Qux', 'Widget', 'Cmp', 'Doc']
        lines.append('C 0 Foo'); lines.append('C 1 Show')
        rtok = [('r.0', 'Foo'), ('r.1', 'Show')]
        K = {}            # tid -> current name of a live class-type
        T = {}            # tid -> row: list of (class name at construction, flags)
        mode_of = {}
        nxt = [0]
        arena_live = [0]
        def fresh():
            nxt[0] += 1; return nxt[0]
        def flags(n=None):
            n = n or r.randrange(1, 4); return ''.join(r.choice('011') for _ in range(n))
        def lib_items(k):
            out = []
            for c in r.sample(libs, k):
                out.append((f'b.{c}', c, flags(self.arity.get(c, 1))))
            return out
        def new_class(nm=None):
            tid = fresh(); nm = nm or r.choice(cnames)
            mode = 'arena' if arena_live[0] < 5 and r.random() < 0.7 else r.choice(['raw', 'junk', 'alloc'])
            if mode == 'arena': arena_live[0] += 1
            items = lib_items(r.randrange(0, 3))
            lines.append((f'N {tid} {mode} {nm} {r.choice([0, 8])} ' + ' '.join(f'{t}:{f}' for t, c, f in items)).rstrip())
            K[tid] = nm; mode_of[tid] = mode; T[tid] = [(c, f) for t, c, f in items]
            return tid
        def type_row():
            items = []
            for kt in r.sample(list(K), min(len(K), r.randrange(1, 4))): items.append((f't.{kt}', K[kt], flags()))
            for t, nm in r.sample(rtok, r.randrange(0, 3)): items.append((t, nm, flags()))
            items += lib_items(r.randrange(0, 4))
            if items and r.random() < 0.3: t, nm, f = r.choice(items); items.append((t, nm, flags(len(f))))
            r.shuffle(items)
            return items
        def new_type():
            tid = fresh(); items = type_row()
            lines.append((f'N {tid} {r.choice(["raw", "junk", "alloc", "root"])} T{tid}_{name} {r.choice([0, 8])} ' + ' '.join(f'{t}:{f}' for t, c, f in items)).rstrip())
            T[tid] = [(c, f) for t, c, f in items]; mode_of[tid] = 'raw'
            return tid
        def lookups(n):
            users = [t for t in T if t not in K] or list(T)
            for _ in range(n):
                tid = r.choice(users if r.random() < 0.85 else list(T))
                x = r.random()
                if x < 0.6 and K: kt = r.choice(list(K)); tok, nm = f't.{kt}', K[kt]
                elif x < 0.8: tok, nm = r.choice(rtok)
                else: c = r.choice(libs); tok, nm = f'b.{c}', c
                first = next((f for c, f in T[tid] if c == nm), None)
                kk = r.randrange(len(first)) if first else 0
                e = r.choice('IiPpMmQq')
                lines.append(f'{e} {tid} {tok}' + (f' {kk}' if e in 'MmQq' else ''))
                if r.random() < 0.03: lines.append(f'K {tid} {r.choice(list(T))}')
                if r.random() < 0.03: lines.append(f'k {tid} {r.choice(list(T) + [0, 0])}')
                if r.random() < 0.03: lines.append(f'E nullcls {tid} b.Show')
        def reset_all():
            for t in T: lines.append(f'R {t}')
        for _ in range(3): new_class()
        for _ in range(3): new_type()
        for rd in range(rounds):
            lookups(r.randrange(4, 14))
            x = r.random()
            live_k = list(K)
            if x < 0.2 and live_k:
                # re-constructed under its OLD name while memoised (other instances, other size): harmless
                kt = r.choice(live_k); items = lib_items(r.randrange(0, 3))
                lines.append((f'W {kt} {K[kt]} {r.choice([0, 8, 16])} ' + ' '.join(f'{t}:{f}' for t, c, f in items)).rstrip())
                T[kt] = [(c, f) for t, c, f in items]
            elif x < 0.4 and live_k:
                # renamed while no record memoises it at the time of a LOOKUP: the memoising records are reset before the rename, or
                # right after it (the stale memo words exist for a moment but no lookup meets them: the code answers correctly)
                kt = r.choice(live_k); first = r.random() < 0.5
                if first: reset_all()
                K[kt] = r.choice([n for n in cnames if n != K[kt]])
                items = lib_items(r.randrange(0, 2))
                lines.append((f'W {kt} {K[kt]} 0 ' + ' '.join(f'{t}:{f}' for t, c, f in items)).rstrip())
                T[kt] = [(c, f) for t, c, f in items]
                if not first: reset_all()
            elif x < 0.6 and live_k:
                # deleted once no record memoises it; often another class object lands on its address (arena)
                kt = r.choice(live_k); first = r.random() < 0.5
                if first: reset_all()
                lines.append(f'X {kt}')
                oldname = K.pop(kt); T.pop(kt)
                if not first: reset_all()
                if mode_of[kt] == 'arena': arena_live[0] -= 1
                if r.random() < 0.8: new_class(oldname if r.random() < 0.3 else None)
            elif x < 0.75:
                new_type()
            elif x < 0.9:
                # a type that uses the class objects is itself re-constructed (its own memoised pointers go)
                users = [t for t in T if t not in K]
                if users:
                    tid = r.choice(users); items = [i for i in type_row() if i[0] != f't.{tid}']
                    lines.append((f'W {tid} T{tid}_{name}_{rd} 0 ' + ' '.join(f'{t}:{f}' for t, c, f in items)).rstrip())
                    T[tid] = [(c, f) for t, c, f in items]
            else:
                if len(K) < 5: new_class()
            if len(T) > 14:
                users = [t for t in T if t not in K]
                if users: t = r.choice(users); lines.append(f'X {t}'); T.pop(t)
        lookups(10)
        return Case(name, lines)

    # ---- (9) names that live in the CALLER's buffers (`@b` = $S(buffer b)): Type_New keeps the pointer.  Inside the territory of
    #          C08_names_are_texts_partial: a buffer is written (Z) only while no __Name cell and no triple name word points into
    #          it — name buffers are filled once before their first use and then left alone, scratch buffers are written at any time
    def borrow_case(self, name, rounds):
        r = self.rng
        lines = self.prelude()
        libs = [c for c in self.names if c != 'Terminal']
        texts = ['Foo', 'Bar', 'Show', 'Hash', 'Qux', 'Alpha', 'Cmp', 'Foo']
        nb = r.randrange(3, 8)
        btext = {}
        for b in range(nb): btext[b] = r.choice(texts); lines.append(f'Z {b} {btext[b]}')
        scratch = list(range(40, 44))
        K = {}; T = {}; nxt = [0]; ck = [0]; rt = []
        def fresh():
            nxt[0] += 1; return nxt[0]
        def flags(n=None):
            n = n or r.randrange(1, 4); return ''.join(r.choice('011') for _ in range(n))
        def nm():
            if r.random() < 0.6: b = r.randrange(nb); return f'@{b}', btext[b]
            t = r.choice(texts); return t, t
        for _ in range(r.randrange(1, 4)):
            tok, text = nm(); lines.append(f'C {ck[0]} {tok}'); rt.append((f'r.{ck[0]}', text)); ck[0] += 1
        def new_class():
            tid = fresh(); tok, text = nm()
            lines.append(f'N {tid} {r.choice(["raw", "junk", "alloc"])} {tok} {r.choice([0, 8])}')
            K[tid] = text; T[tid] = []
        def row():
            items = []
            for kt in r.sample(list(K), min(len(K), r.randrange(1, 4))): items.append((f't.{kt}', K[kt], flags()))
            for t, text in r.sample(rt, r.randrange(0, len(rt) + 1)): items.append((t, text, flags()))
            for c in r.sample(libs, r.randrange(0, 3)): items.append((f'b.{c}', c, flags(self.arity.get(c, 1))))
            r.shuffle(items); return items
        def new_type():
            tid = fresh(); tok, text = nm(); items = row()
            lines.append((f'N {tid} {r.choice(["raw", "junk", "alloc", "root"])} {tok} {r.choice([0, 8])} ' + ' '.join(f'{t}:{f}' for t, c, f in items)).rstrip())
            T[tid] = [(c, f) for t, c, f in items]
        def lookups(n):
            users = [t for t in T if t not in K] or list(T)
            for _ in range(n):
                tid = r.choice(users)
                x = r.random()
                if x < 0.5 and K: kt = r.choice(list(K)); tok, text = f't.{kt}', K[kt]
                elif x < 0.75 and rt: tok, text = r.choice(rt)
                else: c = r.choice(libs); tok, text = f'b.{c}', c
                first = next((f for c, f in T[tid] if c == text), None)
                kk = r.randrange(len(first)) if first else 0
                e = r.choice('IiPpMmQq')
                lines.append(f'{e} {tid} {tok}' + (f' {kk}' if e in 'MmQq' else ''))
                if r.random() < 0.15: lines.append(f'Z {r.choice(scratch)} {r.choice(texts)}')      # a buffer nothing points into
                if r.random() < 0.06: b = r.randrange(nb); lines.append(f'Z {b} {btext[b]}')            # a name buffer re-written with the text it holds: no character changes
        for _ in range(3): new_class()
        for _ in range(3): new_type()
        for rd in range(rounds):
            lookups(r.randrange(4, 12))
            x = r.random()
            if x < 0.3: new_type()
            elif x < 0.45 and len(K) < 6: new_class()
            elif x < 0.7:
                # a type re-constructed in place, its name again in a (never rewritten) caller's buffer or a literal
                users = [t for t in T if t not in K]
                if users:
                    tid = r.choice(users); tok, text = nm(); items = [i for i in row() if i[0] != f't.{tid}']
                    lines.append((f'W {tid} {tok} 0 ' + ' '.join(f'{t}:{f}' for t, c, f in items)).rstrip())
                    T[tid] = [(c, f) for t, c, f in items]
            elif x < 0.8:
                users = [t for t in T if t not in K]
                if len(users) > 2: t = r.choice(users); lines.append(f'X {t}'); T.pop(t)
            else:
                for t in list(T):
                    if r.random() < 0.3: lines.append(f'R {t}')
        lookups(8)
        return Case(name, lines)

class C08(Spec):
    id = 'C08'; engine = 'disp'; harness = 'h_disp'; driver = 'drv_disp'
    generators = ('Disp',)
    # -O0 (after the runner's -O1: the last -O wins): every source-level load and store of the library is a machine-level one.  The
    # interleaving theorems are about source-level accesses; an optimiser may keep a shared scratch variable in a register and
    # so hide a race that the plain build of the library has (seed c08_m: invisible at -O1, caught at -O0).
    harness_flags = ('-rdynamic', '-Wl,--wrap=free', '-Wl,--wrap=calloc', '-O0')
    harness_libs = ('-lpthread', '-lm', '-ldl')
    harness_timeout = 150
    technique = ('Lean 4 proof: invariant-based refinement of the lookup code (cache words, memoised class pointers, two-pass scan) to '
                 '"first declared triple with that class name", for all type records, histories and interleavings of atomic steps; the cache table, '
                 'layout constants, declared matrix and the texts of the modelled functions are regenerated from the source on every run; '
                 'Type_New modelled word by word on a raw storage and proved to produce the fresh type object from ANY previous contents, so the '
                 'theorem covers histories with re-construction in place; '
                 'type objects named by identity and an address-erasing spec (history independence over any address assignment); '
                 'white-box differential check against the real library plus a direct oracle from the source-text matrix and a raw record scan, and on which declaration\'s member a dispatching call invoked')
    level_text = ('Theorem C08_lookup_exact: for every run-time type object and every history that interleaves lookups with re-constructions in place '
                  '(destruct + construct with any other instance list, or a refused one with > CELLO_MAX_INSTANCES), every lookup returns what the '
                  'declaration CURRENTLY in force declares; C08_type_new_any_storage / C08_reconstruct_in_place: Type_New, modelled word by word, writes '
                  'the fresh type object (all CELLO_CACHE_NUM cache words NULL, __Name/__Size, triples with NULL cls words, terminator) from ANY '
                  'previous contents of the storage and so re-establishes the invariant "cache word empty or the current declaration\'s instance"; '
                  'C08_storage_view: the raw words read back as the record. '
                  'Theorems C08_lookup_exact_record / C08_current_source: for every type record (any number of triples in any order, duplicate class names, '
                  'distinct class objects sharing a name), every class and every history of lookups, cold or warm, '
                  'instance/type_instance/implements/implements_method/method lookups return exactly what the first triple with that class name '
                  'declares (a function of the declaration only), and the cache/memo invariant is preserved; C08_classerror_partial: ClassError exactly '
                  'for an absent class or NULL member (for types and classes other than Terminal: known finding KF-C08-terminal-message, refuted '
                  'statement kept beside it); C08_cast_exact / C08_bad_self: cast returns self exactly for the object\'s own type, ValueError otherwise, '
                  'ValueError/TypeError for NULL, freed, foreign and non-type selves; C08_world_history: histories over SEVERAL type objects whose '
                  'classes are themselves run-time type objects (names read when the lookup runs, addresses memoised): lookups, resets, casts of objects and of '
                  'type objects, constructions on fresh or re-used addresses, re-constructions in place, deletions — every answer is a function of the '
                  'declarations and names in force, under the executable hypothesis Heap.safe (a name is written at an address only if every memoised '
                  'pointer to it already reads as that name); without it C08_memo_stale_refuted (known finding KF-C08-class-memo-stale); '
                  'C08_world_history_resumes: after ANY prefix, once the executable heap invariant holds again (memoising records reset or re-constructed) the rest is answered by the spec; '
                  'C08_names_are_texts_partial: a heap with the PROVENANCE of its char* words (XHeap: which caller\'s buffer a __Name cell / a triple name word points into; Type_New with $S(buf) and instances given by their class objects; the caller\'s writes) answers as the value-level history under the executable hypothesis XHeap.quiet (a write hits only buffers nothing points into); without it C08_borrowed_name_refuted (known finding KF-C08-borrowed-name); '
                  'C08_history_independent: type objects named by IDENTITY (an id; at the C level address + generation, C08_identity_is_address_and_generation), created by new(Type, …) at ANY address the allocator answers — a fresh one or the address of any number of deleted type objects — , deleted, reset and USED (the four lookups; calls of the library functions written with method(self, C, M, …) — ClassError or the declared member invoked, C08_call_exact — and of those written with instance(self, C) + member test; type_method): the observations equal specIds of the history with the addresses ERASED, every use answered from the instance list that very object was created with (C08_address_assignment_irrelevant: two histories that differ only in the addresses answer alike); C08_address_keyed_memo_refuted: a call site / lookup function that remembers an instance under the ADDRESS of the receiver\'s type violates it; C08_dispatch_sites: the dispatching functions of src/*.c (read from the source each run) name declared classes and members inside their structs; '
                  'C08_ptr_eq_is_value_eq, C08_heap_construct_is_type_new tie the heap level to the pointer comparison and to the word-level Type_New; '
                  'C08_shared_stores_current_source / C08_machine_stores / C08_shared_stores_idempotent / C08_interleaving_exact: the stores of the lookup-path functions to anything but automatic locals are EXTRACTED from src/Type.c each run and are exactly the three stores of the step machine (header type word, cls word, cache word), each idempotent and answer-preserving at any later moment; the interleaving theorem is stated for the machine the extracted store list selects (a static-storage name variable read by the by-name pass is one more shared location: C08_shared_name_refuted shows a two-thread schedule that answers Show with the Cmp instance, warm and cold, for that machine); C08_classerror_text / C08_method_text_refines: the texts of the two ClassErrors (formats and argument lists extracted) for every type, class and member name; C08_builtin_cells: Type_Builtin_Name/_Size read the cells Type_New writes; '
                  'C08_null_class; C08_concurrent / C08_concurrent_complete / C08_wait_free: the same '
                  'results under every interleaving of atomic word accesses of any number of threads, every thread completing within 2n+10 own steps per '
                  'lookup; C08_machine_refines_sequential: the step machine run alone computes the sequential functions. All stated for the '
                  'Type_Cache_Entry table, CELLO_CACHE_NUM, CELLO_NBUILTINS and function texts of the current source (regenerated each run, table facts by '
                  'decide). The model is tied to the library by running the full built-in (type, class, member) matrix, run-time types with 0..257 '
                  'instances, static probe types and 16-thread cold-cache races on both, comparing results and the concrete cache/memo/header words.')
    level_note = ('Trusted: Lean kernel; axioms propext/Quot.sound/Classical.choice at most; the regex translator g_disp.py; harness/driver comparison '
                  '(testing); word-atomic loads and stores of pointers (the concurrency theorem is about interleavings of atomic word accesses, '
                  'not about a weak memory model). Not covered: CELLO_NDEBUG / CELLO_CACHE=0 builds (C18), calling the returned member.')
    rule = ('(1) the full built-in matrix: every declared type object x every declared type object used as class (plus run-time twins of library '
            'classes, __Name/__Size/unknown names) x every member index, with type-level and object-level entry points, in shuffled cold/warm orders '
            'with white-box cache resets; (2) run-time types created with new_raw_with(Type, …): 0..257 instances drawn with repetition from '
            'library and run-time classes (same-name twins), random member flags, random lookups/casts/bad-self probes; (3) four statically declared '
            'probe types (duplicates, NULL members, own cast member, all cached classes) with cache/memo/header dumps after every op; (4) N threads '
            'doing first lookups on caches reset before every round; (5) the life cycle of run-time types through the public API: '
            'new_raw/new_root/new/alloc+construct/construct on junk-filled caller storage, destruct+construct IN PLACE with a mutated instance list '
            '(classes removed, added, reordered, flags changed; instance pointers always new; 0..256 instances; refused with 257+), copy/assign '
            'refused, del, each interleaved with lookups of the classes of every cache slot 0..17 (library class or same-named run-time twin) and of '
            'uncached and removed classes in cold and warm states; the harness keeps the declaration in force and compares every lookup with it; '
            '(6) a type deleted and the next one built on the SAME ADDRESS (harness arena, lowest free slot), the first lookup on the new type being '
            'the last one made on the old type; (7) class names in a prefix relation (Show/Showable, Format/FormatError, S/Size, …; library objects and '
            'run-time classes), the longer one declared alone, before and after the shorter one; (8) type objects used as CLASSES of other types '
            '(class token t.<tid>): re-constructed under the old name while memoised, renamed / deleted / replaced on the same address after the '
            'memoising records were reset, with lookups through old and new names; NULL as the class on records where the answer is defined; (9) type and class names passed as $S(caller\'s buffer) (name token @b; the buffer filled before its first use and then left alone) next to literal names, class objects and types re-constructed with either kind, the caller writing (op Z) into buffers that no __Name cell and no triple name word points into — the O line of Z lists the cells and triples that point into the buffer, from raw pointer comparison in C and from the provenance tables of the model. '
            '(11) threaded stress on COLD COPIES (op U): 8 threads released together by a spinning barrier onto a fresh cold copy of the record of a static probe, of library types and of fresh run-time types (the copy with cache and cls words NULL is word for word what Type_New builds; odd rounds with a NULL header type word), every thread starting with a DIFFERENT class (declared, absent, cached, same-named run-time twins) and walking all of them by type_instance / type_implements / type_method, every answer compared with a by-name scan of the raw declaration list taken BEFORE the threads start, then the warm copy rechecked from one thread (answers, cache words, cls words); 40 (quick) / 400 (thorough) rounds per op with fixed seeds; the harness prints how many rounds had really overlapping lookup phases (I stress …); the library is compiled -O0 in this harness so that every source-level access is a machine-level one; (12) op e: the TEXT of the ClassError of type_method_at_offset against the documented texts and the model\'s rendering of the extracted formats; '
            '(10) run-time types created by new_raw(Type, …) while Type_Alloc\'s calloc is served from a LIFO pool of blocks (link-time --wrap=calloc/free; freed blocks poisoned for ASan until re-used), so that a type deleted with del_raw and the next one created land on the SAME ADDRESS as with malloc outside ASan\'s quarantine (the harness verifies the address and prints how often it was recycled: I heap=… recycled=…), or on the harness arena; every non-NULL member of every instance is one of 256 distinct probe functions, so the oracle knows which declaration\'s member ran; the types are used through ~48 dispatching functions of the library (op c: call_with, len, get, iter_next, push, sclose, start, lock, sort_by, look_from, hash, cmp, copy, show_to, … — classes with and without a cache slot), through method / type_method / implements_method call sites compiled into the harness from the Cello.h under test (ops d g f) and through instance / type_instance / method_at_offset: T1 with an instance of class K, a call, T1 deleted, T2 on its address with another instance of K / none / a NULL member / a shadowing first triple / a same-named run-time class, the same call first, then every other entry point; several live types alternating at one call site; '
            'non-trivial = a lookup whose observation is a found instance, an exception, a '
            'cast result or a thread run; distinct = distinct (declared row of the type, op without type number, observation); a re-construction counts by '
            '(declaration before, declaration after, outcome).')
    trusted_base = ('translate/g_disp.py (regex/bracket matching over src/*.c, include/Cello.h): cache table, constants, declared matrix, function texts, the list of dispatching functions',
                    'harness/h_disp.c + lean/Driver/Disp.lean (correspondence is testing)',
                    'word-atomic loads/stores of pointer-sized words; dlsym to resolve type objects by name')
    assumptions = ('no throwing lookup (method of an absent class/member, failing cast, non-type self) is generated with the Terminal object as the type or the class: known finding KF-C08-terminal-message (witness corpus/kf_c08_terminal.ops)',
                   'type records are well-formed: every triple has a non-NULL name and instance pointer, the list ends with the NULL triple (what Cello()/Type_New build)',
                   'member offsets are offsetof() values inside the class struct (an out-of-struct offset is undefined behaviour and is not generated)',
                   'a cached class is never looked up on a `self` that is not a type object (Type_Instance reads the cache word before any check)',
                   'a type object that other types use as a CLASS is given another NAME (re-construction in place under another name; deletion followed by another type object on its address) only when no type record memoises its address (the generator resets the memoising records first): known finding KF-C08-class-memo-stale (witness corpus/kf_c08_class_renamed.ops; theorem hypothesis Heap.safe of C08_world_history, refuted without it by C08_memo_stale_refuted)',
                   'the characters of a name passed to Type_New ($S(buf), a String object) are not written or released while a __Name cell or a triple name word points at them: Type_New keeps the caller\'s pointer as the type\'s name and copies the class\'s name pointer into every triple — known finding KF-C08-borrowed-name (witness corpus/kf_c08_borrowed_name.ops; theorem hypothesis XHeap.quiet of C08_names_are_texts_partial, refuted without it by C08_borrowed_name_refuted). Names in caller-owned buffers that are left alone, writes into buffers nothing points into, and re-writes of a name buffer with the very text it holds (no character changes; outside the letter of XHeap.quiet, exercised for the provenance lists of the Z observation), ARE generated (family borrow); instance objects live in harness storage that outlives the type (a run-time type keeps the instance pointers it is given)',
                   'NULL is not a class: type_instance(T, NULL) is probed only where Type_Scan does not read through the NULL pointer (C08_null_class says what it answers)',
                   'malloc does not hand out the address of a deleted run-time type object again while a memoised CLASS pointer to it dangles (modes raw/root/gc/alloc/junk get fresh addresses: ASan\'s quarantine); address reuse is exercised deterministically through the harness arena and through mode heap (Type_Alloc\'s calloc served from a LIFO pool), for type objects that are not used as classes of other types',
                   'the default code of a soft dispatching function (hash, cmp, copy, show_to, swap, assign without an own member) is not exercised: these are called only where the declaration in force has the member; dispatching functions take harness probe members that ignore their arguments',
                   'storage handed to construct has the size Type_Alloc reserves (CELLO_NBUILTINS + CELLO_MAX_INSTANCES + 1 cells) and a header naming Type; no lookup is made on a deleted type; GC-managed types (new) are kept reachable from the stack',
                   'default build (CELLO_CACHE on, checks on); loads and stores of pointer-sized words are atomic')
    def cases(self, rng, tier, boost=1):
        tab = table()
        g = Gen(rng, tab)
        quick = tier == 'quick'
        cs = []
        cs.append(g.static_case(f'static{boost}'))
        cs += g.builtin_cases(chunk=6 if quick else 4)
        nrt = (200 if quick else 5000) * boost
        per = 10 if quick else 25
        for i in range(nrt // per):
            cs.append(g.runtime_case(f'rt{boost}_{i}', per, nops=40 if quick else 60))
        for i in range((2 if quick else 12) * boost):
            cs.append(g.runtime_case(f'big{boost}_{i}', 4, big=True, nops=80))
        for i in range((10 if quick else 160) * boost):
            cs.append(g.lifecycle_case(f'life{boost}_{i}', 6 if quick else 8, 3 if quick else 4))
        for i in range((1 if quick else 8) * boost):
            cs.append(g.lifecycle_case(f'lifebig{boost}_{i}', 3, 2, big=True))
        for i in range((6 if quick else 80) * boost):
            cs.append(g.classlife_case(f'cls{boost}_{i}', 25 if quick else 40))
        for i in range((4 if quick else 60) * boost):
            cs.append(g.reuse_case(f'reuse{boost}_{i}', 8 if quick else 12))
        rc = [g.recycle_case(f'recycle{boost}_{i}', 10 if quick else 16) for i in range((8 if quick else 120) * boost)]
        cs = cs[:1] + rc[:2] + cs[1:] + rc[2:]          # two of them right after the static case: a memo keyed on an address shows early
        st = [g.stress_case(f'stress{boost}_{i}', 8, 40 if quick else 400) for i in range((3 if quick else 24) * boost)]
        cs = cs[:1] + st[:1] + cs[1:] + st[1:]          # one of them second: shared scratch state in the lookup path shows early
        for i in range((2 if quick else 20) * boost):
            cs.append(g.prefix_case(f'prefix{boost}_{i}'))
        for i in range((4 if quick else 60) * boost):
            cs.append(g.borrow_case(f'borrow{boost}_{i}', 12 if quick else 20))
        for i in range((2 if quick else 10) * boost):
            cs.append(g.thread_case(f'thr{boost}_{i}', 16, 60 if quick else 600, 6 if quick else 10))
        if boost > 1:
            for i in range(boost): cs += g.builtin_cases(chunk=8, sample=30, tag=f'x{boost}_{i}')
        return cs
    def _walk(self, case, c_out):
        """yield (op line, observation, row signature of the type) for every op that produced an observation"""
        ops = [l for l in case.lines if l.strip() and not l.lstrip().startswith('#')]
        obs = core.lines_with('O ', c_out)
        rows = {}
        for op, o in zip(ops, obs):
            t = op.split(' ')
            if t[0] in 'BST' and len(t) >= 3: rows[t[1]] = ' '.join(t[3:])
            w = o.split(' ')
            if t[0] == 'N' and len(t) >= 5 and len(w) > 4 and w[4] == 'ok': rows[t[1]] = ' '.join(t[5:])
            if t[0] == 'W' and len(t) >= 4 and len(w) > 4 and w[4] == 'ok':            # a refused W keeps the old declaration
                yield op, o, dict(rows, **{'old:' + t[1]: rows.get(t[1], '')})
                rows[t[1]] = ' '.join(t[4:])
                continue
            yield op, o, rows
    def nontrivial_items(self, case, c_out, m_out):
        items = set()
        for op, o, rows in self._walk(case, c_out):
            t = op.split(' ')
            if o == 'O bad-op': continue
            if t[0] == 'W':
                # a re-construction in place: distinct by (declaration before, declaration after / refusal, cache state before)
                w = o.split(' ')
                items.add(hash(('W', rows.get('old:' + t[1], rows.get(t[1], '')), ' '.join(t[4:]), w[4] if len(w) > 4 else ''))); continue
            if t[0] not in LOOKUPS: continue
            res = o.split(' ')[2] if len(o.split(' ')) > 2 else ''
            if t[0] in 'IiJ' and res == 'NULL': continue
            if t[0] in 'PpQqf' and res == '0': continue
            tid = t[2] if t[0] == 'E' else t[1]
            items.add(hash((rows.get(tid, ''), t[0], ' '.join(t[2:]) if t[0] != 'E' else t[1] + ' ' + ' '.join(t[3:]), res)))
        return items
    def stats(self, case, c_out, m_out, acc):
        slot_of = {}
        for l in case.lines:
            if l.startswith('G '): slot_of = {x.split(':')[1]: x.split(':')[0] for x in l.split(' ')[1:]}
        last_c = {}; after_w = set()
        def bump(k, n=1): acc[k] = acc.get(k, 0) + n
        arena_tids = set(); arena_freed = 0; as_class = set(); names = {}
        for il in core.lines_with('I stress ', c_out):
            for kv in il.split(' ')[2:]:
                kk, _, vv = kv.partition('=')
                if vv.isdigit():
                    if kk == 'max-parallel': acc['stress_max_threads_in_their_lookup_phase_at_once'] = max(acc.get('stress_max_threads_in_their_lookup_phase_at_once', 0), int(vv))
                    else: bump({'ops': 'stress_ops', 'rounds': 'stress_rounds', 'overlapping': 'stress_rounds_with_overlapping_lookup_phases'}.get(kk, kk), int(vv))
        for il in core.lines_with('I heap=', c_out):
            for kv in il.split(' ')[1:]:
                kk, _, vv = kv.partition('=')
                if vv.isdigit(): bump({'heap': 'heap_constructions', 'after-free': 'heap_constructions_after_a_deletion', 'recycled': 'heap_constructions_on_the_address_of_a_deleted_type', 'just-freed': 'heap_constructions_on_the_address_released_last'}.get(kk, kk), int(vv))
        for op, o, rows in self._walk(case, c_out):
            t = op.split(' ')
            acc['op_' + t[0]] = acc.get('op_' + t[0], 0) + 1
            # type objects used as classes; address reuse
            for x in t[1:]:
                if x.startswith('t.'): as_class.add(x.split(':')[0][2:])
            if ' m=' in o:
                mpart = o.split(' m=')[1].split(' ')[0]
                if 't.' in mpart: bump('obs_memo_is_a_runtime_type_object')
                if ':dead' in mpart: bump('obs_memo_dangling')
            if t[0] == 'N' and len(t) > 3 and ' ok' in o:
                if t[2] == 'arena':
                    arena_tids.add(t[1])
                    if arena_freed > 0: bump('type_built_on_the_address_of_a_deleted_one'); arena_freed -= 1
                names[t[1]] = t[3]
            if t[0] == 'X' and len(t) > 1:
                if t[1] in arena_tids: arena_tids.discard(t[1]); arena_freed += 1
                if t[1] in as_class: bump('class_object_deleted')
            if t[0] == 'W' and len(t) > 2 and ' ok' in o and t[1] in as_class:
                bump('class_object_renamed' if names.get(t[1]) != t[2] else 'class_object_reconstructed_same_name')
                names[t[1]] = t[2]
            if t[0] == 'E' and len(t) > 1 and t[1] == 'nullcls': bump('null_class_' + ('ub' if ' ub ' in o else 'answered'))
            # life cycle: which cache slots were warm when a type was re-constructed in place, which were looked up afterwards
            if t[0] in 'NW' and o != 'O bad-op':
                w = o.split(' ')
                if t[0] == 'N' and len(t) > 2: bump('construct_' + t[2])
                if t[0] == 'W':
                    if len(w) > 4 and w[4] != 'ok': bump('reconstruct_refused')
                    else:
                        warm = last_c.get(t[1], [])
                        bump('reconstruct_on_warm_cache' if warm else 'reconstruct_on_cold_cache')
                        for sl in warm: bump('reconstruct_warm_slot_' + sl)
                        after_w.add(t[1])
            if t[0] in 'IiMm' and len(t) > 2 and t[1] in after_w and t[2].startswith('b.') and t[2][2:] in slot_of:
                bump('lookup_after_reconstruct_slot_' + slot_of[t[2][2:]])
            if ' c=' in o and t[0] != 'E' and len(t) > 1:
                cpart = o.split(' c=')[1].split(' ')[0]
                last_c[t[1]] = [x.split(':')[0] for x in cpart.split(',') if x]
            if t[0] == 'T':
                n = len(t) - 3; acc['max_instances'] = max(acc.get('max_instances', 0), n)
                names = [x.split(':')[0] for x in t[3:]]
                if len(set(names)) < len(names): acc['types_with_duplicate_class'] = acc.get('types_with_duplicate_class', 0) + 1
            if t[0] in LOOKUPS:
                w = o.split(' ')
                res = w[2] if len(w) > 2 else '?'
                kind = 'found' if res.startswith('#') else res
                if t[0] in 'HU': kind = 'threads'
                if t[0] == 'E': kind = 'badself_' + t[1]
                acc['res_' + kind] = acc.get('res_' + kind, 0) + 1
                if ' c=' in o and ' c= ' not in o: acc['obs_with_filled_cache'] = acc.get('obs_with_filled_cache', 0) + 1
                if ' m=' in o and ' m= ' not in o: acc['obs_with_memo'] = acc.get('obs_with_memo', 0) + 1
    def model_selfcheck(self, case, m_out):
        for l in m_out.split('\n'):
            if 'MODEL-INCONSISTENT' in l: return l
        return None

SPEC = C08()
