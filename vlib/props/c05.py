"""C05 — containers own their elements: each is finalised exactly once (engine own)."""
from ..runner import Spec, Case
from .. import core

NC = 64
WRONG = ['!I', '!S', '!F', '!T', '!N']     # an Int, a String, a Float, a Type object, NULL where a probe element / key / value is expected
# keys with boundary hash values: the probe key type hashes payload BH_BASE + BH_PER*b + r (r < BH_PER) to the b-th of
# 2^64-1, 0, 1, 2^64-2, 2^63, 2^63-1, 2^63+1, 2^32, 2^32-1, 2^32+1, 2^64-2^32, 2^33, 0x7FF8.., 0xFFF8.., 0x7FF0.., 0x3FF0.., L, L-1, L+1, 41L, 41L-1, 2L-1
# (L = product of the table sizes 5..1259); same table in harness/h_own.c (BH[]) and Cello/OwnConc.lean (bhTable)
BH_BASE, BH_PER, BH_N = 1000, 8, 22
def bkey(b, r=0): return BH_BASE + BH_PER * b + r
BOUND_ALL = [bkey(b, r) for b in range(BH_N) for r in range(BH_PER)]
BOUND_FEW = [bkey(0), bkey(0, 1), bkey(1), bkey(4), bkey(17), bkey(17, 1)]   # all-ones x2, zero, 2^63, L-1 x2: in every default key pool


class Sim:
    """payload-level bookkeeping of the generator (lengths, keys): only used to stay inside the contract and to aim
    operations at existing elements/keys; it is not an oracle."""
    def __init__(self, rng, paymax=40, keypool=None, wrong=0.0):
        self.rng = rng; self.k = {}; self.seq = {}; self.map = {}; self.lines = []
        self.paymax = paymax
        self.wrong = wrong                      # rate of calls with a wrong-typed element / key / value
        # keys: several per hash value (probe hash = pay % 16 * 37) so that Table clusters form, and a few keys whose hash is a
        # boundary value of a 64-bit hash (all-ones, zero, 2^63, nslots-1 modulo every table size)
        self.keypool = keypool or ([h + 16 * j for h in (0, 1, 2, 3, 5, 15) for j in range(6)] + BOUND_FEW)
    def free(self):
        fr = [c for c in range(NC) if c not in self.k]
        return self.rng.choice(fr[:12]) if fr else None
    def of(self, kinds):
        return [c for c, k in self.k.items() if k in kinds]
    def pay(self): return self.rng.randrange(1, self.paymax + 1)
    def key(self): return self.rng.choice(self.keypool)
    def emit(self, s): self.lines.append(s)
    def kt(self, kind):
        """kind token with element types: p = small probe, g = large probe (owned pointer beyond the first 16 bytes);
        maps mix the two so that key and value slots have different sizes in both orders"""
        r = self.rng.random()
        if kind in 'AL': return kind + ('' if r < 0.4 else 'g' if r < 0.8 else 'p')
        if kind in 'TR': return kind + ('' if r < 0.2 else self.rng.choice(['pg', 'pg', 'gp', 'gp', 'gg']))
        return kind
    # ---- creation
    def new(self, kind):
        c = self.free()
        if c is None: return
        self.k[c] = kind
        if kind in 'ALBC': self.seq[c] = []
        else: self.map[c] = {}
        self.emit(f'new {c} {self.kt(kind)}')
        return c
    def newv(self, kind, n):
        c = self.free()
        if c is None: return
        ps = [self.pay() for _ in range(n)]
        self.k[c] = kind; self.seq[c] = list(ps)
        kt = self.kt(kind)
        self.emit(f'newv {c} {kt} ' + ' '.join(map(str, ps)) if ps else f'newv {c} {kt}')
    def newm(self, kind, n):
        c = self.free()
        if c is None: return
        kv = [(self.key(), self.pay()) for _ in range(n)]
        self.k[c] = kind; self.map[c] = {}
        for a, b in kv: self.map[c][a] = b
        kt = self.kt(kind)
        self.emit(f'newm {c} {kt} ' + ' '.join(f'{a} {b}' for a, b in kv) if kv else f'newm {c} {kt}')
    def box(self):
        c = self.free()
        if c is None: return
        self.k[c] = 'X'; self.emit(f'box {c} {self.pay()}')
    # ---- calls with a wrong-typed argument: all refused, nothing changes (the non-atomic territory is avoided: Array push /
    #      push_at at an accepted index / concat / constructor with a wrong-typed element — KF-C12-array-push-type,
    #      own-array-new-partial — and List concat with well-typed items before the wrong one)
    def w(self): return self.rng.choice(WRONG)
    def typed_seq_op(self, c):
        r = self.rng; k = self.k[c]; xs = self.seq[c]; n = len(xs)
        if k in 'BC': return False              # Box_Assign takes any object
        ops = ['set', 'set', 'rem', 'pushat_bad', 'concatv_good']
        if k == 'L': ops += ['push', 'push', 'append', 'pushat', 'pushat', 'concatv_wrong']
        op = r.choice(ops)
        if op in ('push', 'append'): self.emit(f'{op} {c} {self.w()}')
        elif op == 'pushat':                    # List: 0 = head, the position of an existing element, or refused by the index first
            i = 0 if (n == 0 or r.random() < 0.3) else self.idx(n, r.random() < 0.2)
            self.emit(f'pushat {c} {i} {self.w()}')
        elif op == 'pushat_bad':                # Array and List alike: the index check comes first
            i = r.choice([n + 2, n + 5, -n - 3, -n - 8])
            self.emit(f'pushat {c} {i} {self.w()}')
        elif op == 'set': self.emit(f'set {c} {self.idx(n, r.random() < 0.2)} {self.w()}')
        elif op == 'rem': self.emit(f'rem {c} {self.w()}')
        elif op == 'concatv_wrong':             # the wrong-typed item first: nothing is pushed
            tail = [str(self.pay()) if r.random() < 0.7 else self.w() for _ in range(r.randrange(0, 4))]
            self.emit(' '.join([f'concatv {c}', self.w()] + tail))
        else:                                   # a Tuple of well-typed elements as the source of concat
            ps = [self.pay() for _ in range(r.randrange(0, 5))]
            xs += ps; self.emit(' '.join([f'concatv {c}'] + [str(p) for p in ps]))
        return True
    def typed_map_op(self, c):
        r = self.rng; m = self.map[c]
        op = r.choice(['key', 'val_old', 'val_new', 'val_new', 'both', 'mrem'])
        if op == 'mrem': self.emit(f'mrem {c} {self.w()}'); return True
        if op == 'key': k, v = self.w(), self.pay()
        elif op == 'both': k, v = self.w(), self.w()
        elif op == 'val_old' and m: k, v = r.choice(list(m)), self.w()
        else:
            fresh = [x for x in self.keypool if x not in m]
            k, v = (r.choice(fresh) if fresh else self.key()), self.w()
        self.emit(f'mset {c} {k} {v}')
        return True
    def typed_ctor(self, kinds):
        """a constructor with a wrong-typed initial element / key / value: refused, the name stays free"""
        c = self.free()
        ks = [k for k in kinds if k in 'LTR']   # not Array: own-array-new-partial
        if c is None or not ks: return False
        kind = self.rng.choice(ks); r = self.rng
        if kind == 'L':
            n = r.randrange(1, 7); j = r.randrange(n)
            args = [self.w() if (q == j or (q > j and r.random() < 0.3)) else str(self.pay()) for q in range(n)]
        else:
            n = r.randrange(1, 6); j = r.randrange(n); args = []
            for q in range(n):
                k = r.choice([a for a in args[::2] if not a.startswith('!')] or [str(self.key())]) if (q < j and r.random() < 0.25) else str(self.key())
                v = str(self.pay())
                if q == j:
                    which = r.random()
                    if which < 0.4: k = self.w()
                    elif which < 0.8: v = self.w()
                    else: k, v = self.w(), self.w()
                elif q > j and r.random() < 0.3: v = self.w()
                args += [k, v]
        self.emit(' '.join([f'newv {c} {self.kt(kind)}' if kind == 'L' else f'newm {c} {self.kt(kind)}'] + args))
        return True
    # ---- aliased arguments: the element / key / value argument is an object stored in a container (`@d[i]`, `@d.kK`, `@d.vK`) —
    #      of the receiver itself (set(t, k, get(t, k)), rem(t, key_from_iteration), push(l, get(l, 0)), set(a, i, get(a, j))) or of
    #      another container.  NOT generated: push / push_at of an Array's own element (KF-C04-push-own-element: bad-op here).
    def ref(self, c, own=0.6, kinds='ALTR'):
        """(token, payload) of a stored element, preferably of container c itself; None when nothing is stored anywhere"""
        r = self.rng
        cands = [d for d in self.of(kinds) if (self.seq.get(d) or self.map.get(d))]
        if not cands: return None
        others = [d for d in cands if d != c]
        d = c if (c in cands and (r.random() < own or not others)) else (r.choice(others) if others else None)
        if d is None: return None
        if self.k[d] in 'AL':
            xs = self.seq[d]; j = r.randrange(len(xs))
            return f'@{d}[{j if r.random() < 0.6 else j - len(xs)}]', xs[j]
        m = self.map[d]; k = r.choice(list(m))
        return (f'@{d}.k{k}', k) if r.random() < 0.5 else (f'@{d}.v{k}', m[k])
    def alias_seq_op(self, c):
        r = self.rng; k = self.k[c]; xs = self.seq[c]; n = len(xs)
        if k not in 'AL': return False
        op = r.choice(['set', 'set', 'set', 'rem', 'push', 'push', 'pushat'])
        pushy = op in ('push', 'pushat')
        ref = self.ref(c, own=0.0 if (k == 'A' and pushy) else 0.65, kinds='AL' if r.random() < 0.7 else 'ALTR')
        if ref is None or (k == 'A' and pushy and ref[0].startswith(f'@{c}[')): return False
        tok, p = ref
        if op == 'set':
            i = self.idx(n, r.random() < 0.08); j = i + n if i < 0 else i
            if 0 <= j < n: xs[j] = p
            self.emit(f'set {c} {i} {tok}')
        elif op == 'rem':
            if p in xs: xs.remove(p)
            self.emit(f'rem {c} {tok}')
        elif op == 'push':
            xs.append(p); self.emit(f'{r.choice(["push", "append"])} {c} {tok}')
        else:
            if k == 'A':
                j = r.randrange(n + 1); i = j if r.random() < 0.6 else j - (n + 1); xs.insert(j, p)
            elif n == 0 or r.random() < 0.3: i = 0; xs.insert(0, p)
            else:
                j = r.randrange(n); i = j if (j > 0 and r.random() < 0.6) else j - n
                if i == 0: i = -n
                xs.insert(j, p)
            self.emit(f'pushat {c} {i} {tok}')
        return True
    def alias_map_op(self, c):
        r = self.rng; m = self.map[c]
        if self.k[c] not in 'TR': return False
        shape = r.choice(['back', 'back', 'backk', 'kv', 'kfresh', 'vown', 'cross', 'other', 'rem', 'rem', 'remv'] if m else ['other', 'other', 'rem'])
        if shape == 'back':                      # set(t, k, get(t, k)) with a fresh key object: the value argument IS the stored value
            k = r.choice(list(m)); kt, kp, vt, vp = str(k), k, f'@{c}.v{k}', m[k]
        elif shape == 'backk':                   # ... with the stored key object (foreach (k in t) set(t, k, get(t, k)))
            k = r.choice(list(m)); kt, kp, vt, vp = f'@{c}.k{k}', k, f'@{c}.v{k}', m[k]
        elif shape == 'kv':                      # stored key object, the value of another entry
            k, k2 = r.choice(list(m)), r.choice(list(m)); kt, kp, vt, vp = f'@{c}.k{k}', k, f'@{c}.v{k2}', m[k2]
        elif shape == 'kfresh':                  # stored key object, fresh value
            k = r.choice(list(m)); kt, kp = f'@{c}.k{k}', k; vp = self.pay(); vt = str(vp)
        elif shape == 'vown':                    # any key (existing or new), a stored value / key object of the same map as value
            kp = r.choice(list(m)) if r.random() < 0.5 else self.key(); kt = str(kp)
            k2 = r.choice(list(m)); vt, vp = (f'@{c}.v{k2}', m[k2]) if r.random() < 0.7 else (f'@{c}.k{k2}', k2)
        elif shape == 'cross':                   # a stored VALUE object as key argument (its payload may or may not be a key)
            k2 = r.choice(list(m)); kt, kp = f'@{c}.v{k2}', m[k2]
            k3 = r.choice(list(m)); vt, vp = (f'@{c}.v{k3}', m[k3]) if r.random() < 0.5 else (str(self.pay()), None)
            if vp is None: vp = int(vt)
        elif shape == 'other':                   # objects stored in other containers
            a, b = self.ref(c, own=0.0), self.ref(c, own=0.2)
            if a is None and b is None: return False
            if a is None or r.random() < 0.3: kp = self.key(); kt = str(kp)
            else: kt, kp = a
            if b is None: vp = self.pay(); vt = str(vp)
            else: vt, vp = b
            if '@' not in kt + vt: return False
        else:
            if shape == 'remv' and m:            # a stored value object as the key of rem
                k2 = r.choice(list(m)); tok, kp = f'@{c}.v{k2}', m[k2]
            elif m and r.random() < 0.75:
                k = r.choice(list(m)); tok, kp = f'@{c}.k{k}', k
            else:
                a = self.ref(c, own=0.0)
                if a is None: return False
                tok, kp = a
            m.pop(kp, None); self.emit(f'mrem {c} {tok}')
            return True
        m[kp] = vp; self.emit(f'mset {c} {kt} {vt}')
        return True
    # ---- stored objects as OPERANDS of concat (Tuple source) and of the constructors: concat(l, tuple(get(l, 0), get(t, k), 7)),
    #      new(List, Probe, get(l, 0), ...), new(Table, Probe, Probe, key_from_iteration, get(u, k), ...).  NOT generated: records of the
    #      receiving Array (KF-C04-push-own-element) and the same stored object twice in one concat (KF-C04-tuple-dup-iter): bad-op.
    def pick_stored(self, avoid=None, prefer=None, own=0.5, used=()):
        """(token, payload, identity) of a stored probe element / key / value; None when there is none"""
        r = self.rng
        cands = [d for d in self.of('ALTR') if d != avoid and (self.seq.get(d) or self.map.get(d))]
        if not cands: return None
        d = prefer if (prefer in cands and r.random() < own) else r.choice(cands)
        for _ in range(6):
            if self.k[d] in 'AL':
                xs = self.seq[d]; j = r.randrange(len(xs))
                ident = (d, 'e', j); tok = f'@{d}[{j if r.random() < 0.5 else j - len(xs)}]'; p = xs[j]
            else:
                m = self.map[d]; k = r.choice(list(m)); sel = r.choice('kv')
                ident = (d, sel, k); tok = f'@{d}.{sel}{k}'; p = k if sel == 'k' else m[k]
            if ident not in used: return tok, p, ident
        return None
    def operand_op(self, c=None):
        r = self.rng
        if c is not None and self.k.get(c) in ('A', 'L') and r.random() < 0.8:
            k = self.k[c]; used = set(); toks = []; ps = []
            for _ in range(r.randrange(1, 5)):
                got = self.pick_stored(avoid=c if k == 'A' else None, prefer=c if k == 'L' else None, own=0.6, used=used) if r.random() < 0.7 else None
                if got is None: p = self.pay(); toks.append(str(p)); ps.append(p)
                else: toks.append(got[0]); ps.append(got[1]); used.add(got[2])
            if not used: return False
            self.seq[c] += ps; self.emit(' '.join([f'concatv {c}'] + toks))
            return True
        c = self.free()
        kinds = sorted({k for k in self.k.values() if k in 'ALTR'})
        if c is None or not kinds or len(self.k) > 9 or r.random() < 0.4: return False
        kind = r.choice(kinds); n = r.randrange(1, 6); nref = 0
        def operand(keyish):
            nonlocal nref
            got = self.pick_stored() if r.random() < 0.65 else None
            if got is None:
                p = self.key() if keyish else self.pay(); return str(p), p
            nref += 1; return got[0], got[1]
        if kind in 'AL':
            ops = [operand(False) for _ in range(n)]
            if not nref: return False
            self.k[c] = kind; self.seq[c] = [p for _, p in ops]
            self.emit(' '.join([f'newv {c} {self.kt(kind)}'] + [t for t, _ in ops]))
        else:
            ops = [(operand(True), operand(False)) for _ in range(n)]
            if not nref: return False
            self.k[c] = kind; self.map[c] = {}
            for (kt_, kp), (vt_, vp) in ops: self.map[c][kp] = vp
            self.emit(' '.join([f'newm {c} {self.kt(kind)}'] + [t for kv in ops for t, _ in kv]))
        return True
    # ---- sequences
    def idx(self, n, fail):
        """an index for a sequence of length n: valid (both signs) or, when `fail`, out of range"""
        if fail or n == 0: return self.rng.choice([n, n + 1, n + 7, -n - 1, -n - 5])
        i = self.rng.randrange(n)
        return i if self.rng.random() < 0.6 else i - n
    def seq_op(self, c, fail=0.08, big=False):
        r = self.rng; k = self.k[c]; xs = self.seq[c]; n = len(xs)
        f = r.random() < fail
        ops = ['push'] * (8 if big else 4) + ['append', 'pop', 'popat', 'set', 'rem', 'resize', 'pushat', 'pushat', 'sort']
        op = r.choice(ops)
        if k in 'BC' and op in ('set', 'rem', 'sort'): op = 'push' if r.random() < 0.6 else 'pushat'   # Box elements: see assumptions
        if op == 'sort' and k != 'A': op = 'pop'
        if op in ('push', 'append'):
            p = self.pay(); xs.append(p); self.emit(f'{op} {c} {p}')
        elif op == 'pop':
            if xs: xs.pop()
            self.emit(f'pop {c}')
        elif op == 'popat':
            i = self.idx(n, f); j = i + n if i < 0 else i
            if 0 <= j < n: del xs[j]
            self.emit(f'popat {c} {i}')
        elif op == 'set':
            i = self.idx(n, f); j = i + n if i < 0 else i; p = self.pay()
            if 0 <= j < n: xs[j] = p
            self.emit(f'set {c} {i} {p}')
        elif op == 'rem':
            p = r.choice(xs) if xs and not f else self.paymax + 1 + r.randrange(5)
            if p in xs: xs.remove(p)
            self.emit(f'rem {c} {p}')
        elif op == 'resize':
            m = r.choice([0, n, max(n - 1, 0), n // 2, r.randrange(n + 1)])
            if k in 'AB' and r.random() < 0.3: m = n + r.randrange(1, 9)          # Array: capacity only
            if m < n: del xs[m:]
            self.emit(f'resize {c} {m}')
        elif op == 'pushat':
            p = self.pay()
            if k in 'AB':
                if f: i = r.choice([n + 1, n + 3, -n - 2, -n - 9])
                else:
                    j = r.randrange(n + 1); i = j if r.random() < 0.6 else j - (n + 1)
                    xs.insert(j, p)
            else:
                # List_Push_At: 0 = head, otherwise the position of an existing element (the end is not a position)
                if f: i = r.choice([n, n + 2, -n - 1, -n - 4]) if n else r.choice([1, 3, -1, -2])
                elif n == 0 or r.random() < 0.3: i = 0; xs.insert(0, p)
                else:
                    j = r.randrange(n); i = j if (j > 0 and r.random() < 0.6) else j - n
                    if i == 0: i = -n
                    xs.insert(j, p)
            self.emit(f'pushat {c} {i} {p}')
        elif op == 'sort':
            xs.sort(); self.emit(f'sort {c}')
    # ---- maps
    def map_op(self, c, fail=0.08):
        r = self.rng; m = self.map[c]
        op = r.choice(['mset'] * 5 + ['mrem'] * 3 + ['resize'])
        if op == 'mset':
            k = r.choice(list(m)) if m and r.random() < 0.35 else self.key()
            v = self.pay(); m[k] = v; self.emit(f'mset {c} {k} {v}')
        elif op == 'mrem':
            k = r.choice(list(m)) if m and r.random() > fail else self.key()
            m.pop(k, None); self.emit(f'mrem {c} {k}')
        else:
            n = len(m)
            if self.k[c] == 'T': t = r.choice([0, n, n + 1, n + 20, 2 * n + 3, max(n - 1, 0)])
            else: t = r.choice([0, 0, 1, n])
            if t == 0: m.clear()
            self.emit(f'resize {c} {t}')
    # ---- between containers
    def pair_op(self):
        r = self.rng
        op = r.choice(['copy', 'copy', 'assign', 'assign', 'assign', 'concat', 'selfassign', 'xassign', 'xassign'])
        seqs, maps = self.of('AL'), self.of('TR')
        if op == 'copy':
            src = r.choice(seqs + maps) if seqs + maps else None
            c = self.free()
            if src is None or c is None: return
            self.k[c] = self.k[src]
            if src in self.seq: self.seq[c] = list(self.seq[src])
            else: self.map[c] = dict(self.map[src])
            self.emit(f'copy {c} {src}')
        elif op == 'assign':
            fam = r.choice([seqs, maps])
            if not fam: return
            d = r.choice(fam)
            tgt = [c for c in (fam + (self.of('BC') if fam is seqs else [])) if c != d]
            if not tgt: return
            c = r.choice(tgt)
            if fam is seqs:
                self.seq[c] = list(self.seq[d])
                if self.k[c] in 'BC': self.k[c] = 'A' if self.k[c] == 'B' else 'L'    # *_Assign takes the element type of the source
            else: self.map[c] = dict(self.map[d])
            self.emit(f'assign {c} {d}')
        elif op == 'xassign':
            # sequence <- Table / Tree.  From an empty map the destination is cleared and the call succeeds.  From a NON-EMPTY map
            # get(obj, $I(0)) raises ValueError: a List (of probes or of Box) has been cleared by then and nothing else happened —
            # ownership stays consistent, the call is in contract and generated (the source is left as it is);
            # an Array has already set len = len(source) over unconstructed records (KF-C05-array-assign-partial): for an Array
            # destination the source is emptied first (or the operation skipped)
            dst = self.of('ALBC')
            if not dst or not maps: return
            c, d = r.choice(dst), r.choice(maps)
            if self.map[d] and self.k[c] in 'AB':
                if r.random() < 0.5: return
                self.map[d].clear(); self.emit(f'resize {d} 0')
            self.seq[c] = []
            if self.k[c] in 'BC': self.k[c] = 'A' if self.k[c] == 'B' else 'L'
            self.emit(f'assign {c} {d}')
        elif op == 'selfassign':
            cs = seqs + maps + self.of('BC')
            if not cs: return
            c = r.choice(cs)
            self.emit(f'assign {c} {c}')                     # `if (self is obj) return;` (fix a3140e4): nothing happens
        else:
            if len(seqs) < 2: return
            c, d = r.sample(seqs, 2)
            self.seq[c] += self.seq[d]; self.emit(f'concat {c} {d}')
    def delete(self, c=None):
        cs = list(self.k)
        if not cs: return
        c = self.rng.choice(cs) if c is None else c
        self.k.pop(c); self.seq.pop(c, None); self.map.pop(c, None)
        self.emit(f'del {c}')


def history(rng, nops, weights, paymax=40, keypool=None, maxlen=40, big=False, fail=0.08, wrong=0.04, alias=0.05):
    s = Sim(rng, paymax, keypool, wrong)
    kinds = [k for k, w in weights.items() for _ in range(w)]
    for _ in range(rng.randrange(2, 6)): s.new(rng.choice(kinds))
    while len(s.lines) < nops:
        r = rng.random()
        if not s.k or r < 0.04:
            q = rng.random()
            if q < 0.5: s.new(rng.choice(kinds))
            elif q < 0.7 and ('A' in kinds or 'L' in kinds): s.newv(rng.choice([k for k in kinds if k in 'AL']), rng.randrange(0, 9))
            elif q < 0.9 and ('T' in kinds or 'R' in kinds): s.newm(rng.choice([k for k in kinds if k in 'TR']), rng.randrange(0, 7))
            elif 'B' in kinds: s.box()
            else: s.new(rng.choice(kinds))
        elif r < 0.10: s.pair_op()
        elif r < 0.10 + wrong / 4 and s.typed_ctor(kinds): pass
        elif r < 0.115: s.emit(f'read {rng.choice(list(s.k))}')
        elif r < 0.14 and len(s.k) > 3: s.delete()
        else:
            c = rng.choice(list(s.k))
            k = s.k[c]
            if k == 'X': continue
            if rng.random() < wrong and (s.typed_seq_op(c) if k in 'ALBC' else s.typed_map_op(c)): continue
            if rng.random() < alias and k in 'ALTR' and rng.random() < 0.3 and len(s.seq.get(c, ())) <= maxlen and s.operand_op(c): continue
            if rng.random() < alias and (s.alias_seq_op(c) if k in 'AL' else s.alias_map_op(c) if k in 'TR' else False): continue
            if k in 'ALBC':
                if len(s.seq[c]) > maxlen and not big:
                    s.seq[c] = s.seq[c][:maxlen // 2]; s.emit(f'resize {c} {maxlen // 2}')
                else: s.seq_op(c, fail, big)
            else:
                if len(s.map[c]) > maxlen and not big and rng.random() < 0.3:
                    s.map[c].clear(); s.emit(f'resize {c} 0')
                else: s.map_op(c, fail)
    return s.lines


def growth(rng, n, kind, types='', keys=None):
    """grow one container to n elements (realloc growth / rehash through the prime table), copy it, shrink it"""
    L = []
    if kind in 'AL':
        L.append(f'new 0 {kind}{types}')
        L += [f'push 0 {rng.randrange(1, 1000)}' for _ in range(n)]
        L += ['copy 1 0', f'new 2 {"L" if kind == "A" else "A"}', 'assign 2 0', 'concat 2 1']
        if kind == 'A': L.append('sort 0')
        L += [f'popat 0 {rng.randrange(-3, 3)}' for _ in range(n // 2)]
        L += [f'resize 0 {n // 4}', 'pop 0', 'assign 1 2', 'resize 2 0']
    else:
        keys = list(keys) if keys else list(range(1, n + 1)); rng.shuffle(keys); n = len(keys)
        L.append(f'new 0 {kind}{types}')
        L += [f'mset 0 {k} {rng.randrange(1, 1000)}' for k in keys]
        L += ['copy 1 0', f'new 2 {"R" if kind == "T" else "T"}', 'assign 2 0']
        L += [f'mset 0 {rng.choice(keys)} {rng.randrange(1, 1000)}' for _ in range(n // 3)]      # replace / in place
        L += [f'mset 0 {k} @0.v{k}' if rng.random() < 0.5 else f'mset 0 @0.k{k} @0.v{k}' for k in rng.sample(keys, min(len(keys), 8))]   # store-back
        rng.shuffle(keys)
        L += [f'mrem 0 {k}' for k in keys[: (3 * n) // 4]]                                      # shrink through the primes
        L += ['assign 1 0', 'resize 2 0']
    return L


class C05(Spec):
    id = 'C05'; engine = 'own'; harness = 'h_own'; driver = 'drv_own'
    generators = ('Own', 'Table', 'Tree')     # Table / Tree: the data of src/Table.c / src/Tree.c that the structural models read and C05_table_source_good / C05_tree_source_good are stated about
    harness_timeout = 300
    technique = ('Lean 4 proof over an ownership-level model of every Array/List/Table/Tree/Box operation (per-operation conservation of '
                 'element identities, invariant over all histories), composed with the structural models of the two map containers '
                 '(robin-hood slot array of C02, red-black tree with word-level predecessor copy of C03) instantiated with token-valued '
                 'records: the ownership steps are proved to be what set / rem / resize / rehash / displacement / back-shift / rotation / '
                 'predecessor copy do to the stored tokens; the model is tied to the C code by running generated histories on the '
                 'real containers with a probe element type and a token ledger, comparing per operation the constructed / finalised / '
                 'in-place-assigned elements and the contents; independent ledger oracle under ASan. Arguments that are objects stored '
                 'in a container (aliased arguments) are a second layer of the model (Cello/OwnAlias.lean: the argument is read when the '
                 'code reads it), proved equal to the plain operation with the payloads resolved before the call; the probe key type '
                 'hashes designated payloads to the boundary values of a 64-bit hash')
    level_text = ('Extension round — C05_concat_operands_read_when_pushed, C05_concat_operands_conservation: concat(list, tuple(operands)) where operands are stored objects — nodes of the receiving List itself (any index sign), elements / key objects / value objects of other containers — '
                  'is modelled item by item (List_Push per operand, operand i read from the list that already holds the elements constructed for the operands before it) and proved equal to the concat of fresh objects with the payloads resolved before the call; '
                  'one fresh element per operand, nothing finalised, old elements in place; the constructors new(Array / List / Table / Tree, ..., stored objects) and Array_Concat with operands of other containers are calls of the same layer (ACall.concat / newSeq / newMap), so '
                  'C05_aliased_as_resolved / C05_conservation_aliased_partial / C05_history_aliased_partial cover histories with them. C05_generic_dispatch: destruct / construct_with / assign / copy of src/Alloc.c, src/Assign.c consult the instance the model assumes and no container type registers Copy or Swap. '
                  'Theorems C05_aliased_as_resolved, C05_aliased_map_set_reads, C05_conservation_aliased_partial, C05_history_aliased_partial, C05_store_back_{tree,table}: '
                  'for every world, receiver and call whose element / key / value argument is an object stored in a container — of the receiver itself '
                  '(set(t, k, get(t, k)), rem(t, key_from_iteration), push(l, get(l, 0)), set(a, i, get(a, j))) or of another one — read by the model WHEN THE CODE READS IT '
                  '(Tree_Set: the value argument after the key was assigned in place; Table_Set_Move: both into the swap space before the resident pair is destructed), '
                  'the call is the plain call with the payloads resolved before it, so conservation, the invariant, exactly-once and live = sum of len hold over every history with such calls; '
                  'the store-back idiom finalises nothing on a Tree (in place) and finalises the replaced pair once, after both reads, on a Table; '
                  'C05_tree_set_destruct_first_refuted: the order destruct / zero / assign violates the same statement. '
                  'C05_boundary_hashes: the hash function of the correspondence takes 2^64-1, 0, 1, 2^63, 2^63-1, 2^32(+-1), float bit patterns and L, L-1, L+1 (L a common multiple of every table size <= 1259 of the Table_Primes the translator reads), all < 2^64 (the model takes % on naturals); C05_moves_* hold for every hash function. '
                  'Theorem C05_moves_array: for every store state (cells, nitems, block) of C04\'s Array model holding token-valued records and every Array operation with any argument, the store-level step (realloc, memmove, record write, eq scan, sort exchanges) reads no unwritten / out-of-block cell, succeeds exactly when the ownership step does and leaves in use exactly the ownership step\'s tokens (sort: a permutation), so records after + finalised = records before + constructed. '
                  'Theorem C05_list_assign_from_map: assign(List, non-empty Table / Tree) — refused after List_Clear — is in contract: nothing constructed, exactly the old elements finalised, invariant and live = sum of len preserved. '
                  'Theorems C05_moves_{table,table_rehash_displace,tree,tree_rotate_copy,histories,constructors} + C05_table_source_good: '
                  'for every hash function and every slot array / red-black tree satisfying the representation invariant of C02 / C03, the '
                  'structural model of Table_Set / Table_Rem / Table_Resize / Table_New / Table_Assign and of Tree_Set / Tree_Rem / Tree_Resize / '
                  'Tree_New / Tree_Assign never fails, constructs / finalises / assigns in place exactly the tokens of the ownership model, and the '
                  'stored tokens afterwards + finalised = stored tokens before + constructed (rehash, displacement, back-shift, rotations, '
                  'predecessor memcpy neither drop nor duplicate), over every history. '
                  'Theorems C05_conservation_{array,list,map,partial}, C05_history_partial, C05_live_count_partial, '
                  'C05_never_while_contained_partial, C05_deep_{partial,assign_partial,independent,no_foreign_finalise}, '
                  'C05_refused_no_effect_{partial,type}, C05_conservation_type_refused: in the ownership model of the container code, every operation conserves element identities '
                  '(contents after + finalised = contents before + constructed), constructed identities are fresh, so over every history of '
                  'in-contract operations each element is finalised at most once, never while contained, the live elements are exactly the '
                  'union of the container contents (live count = sum of sizes), a refused call constructs and finalises nothing — in particular a call '
                  'with an element / key / value of the wrong type (Int, String, Float, a Type object, NULL) on List / Table / Tree, and set / rem / an '
                  'out-of-range push_at on Array, is always refused, issues and retires nothing and leaves every container unchanged; a refused List / '
                  'Table / Tree constructor finalises exactly what it had constructed — and after '
                  'deleting every container every element ever constructed has been finalised exactly once; copy/assign construct one fresh '
                  'element per source element and operations on one side leave the other unchanged. C05_source_profile ties the model to the '
                  'source text (which function calls destruct/assign/memcpy/cast in which order), regenerated every run; C05_type_check_first_{table_set_move,tree_set,table_rem,tree_rem} '
                  'state per function that every key / value argument is cast before the first allocation / assign / destruct / byte move / nitems update and nowhere later, '
                  'C05_type_check_late_array_list records where Array.c / List.c make room before the element\'s own type check, C05_no_unmodelled_helpers that no '
                  'allocation or assignment has moved into a helper the profile does not see. The model is validated '
                  'against the real containers per operation on generated histories; the full statements are refuted for the known findings '
                  '(C05_refused_no_effect_type_refuted, C05_array_new_partial_refuted, C05_type_refused_not_atomic_witnesses list the type-refused calls that are not atomic).')
    level_note = ('Trusted: Lean kernel; harness/driver comparison (testing) for the step correspondence; the probe element type stands for '
                  '"an element type with its own constructor, assignment and destructor that owns heap memory". Known findings excluded from '
                  'the contract: Box_Assign is shallow (F28), List_Resize growing a list links unconstructed elements. '
                  'Array_Assign from a source whose get raises leaves len counting unconstructed records (own-array-assign-partial). '
                  'Array moves (realloc growth / shrink, memmove of push_at / pop_at / rem, the record write of set, sort exchanges) are composed with C04\'s store-level block of records at token-valued records (C05_moves_array: records in use after every operation = contents of the ownership step; for sort a permutation — the two quicksort transcriptions are not identified); List re-linking is still list surgery in the model (C04\'s node-level model is not composed in); '
                  'the Table / Tree layouts are composed in (C05_moves_*), their step-by-step agreement with the C code is checked by the C02 / C03 engines. '
                  'Statements hold after every operation, not inside one.')
    rule = ('histories over up to 12 simultaneously live containers of all kinds (Array, List, Table, Tree of probe elements; Array of Box; '
            'stand-alone Box): (a) mixed, (b) sequence-heavy (push/push_at/pop/pop_at/set/rem/resize/sort/concat/assign Array<->List), '
            '(two probe element types of different size — 24 and 48 bytes, the larger with guard words around its owned pointer — in every key/value/element position); (c) map-heavy with 36 keys sharing 6 hash values (clusters, displacement, replace of existing keys, rem with backward shift, '
            'explicit resize, rehash up and down, assign Table<->Tree), (d) growth to n elements then copy and shrink, (e) Box containers, '
            '(e\') List of Box, push_at of a Box at accepted and refused positions, assignment of an empty Table/Tree to a sequence and of a non-empty Table/Tree to a List (refused after the clear), self-assignment of every kind, '
            '(f) error-heavy (25% failing calls: empty pop, bad index, absent key/element, refused resize), '
            '(h) aliased: 40% of the calls on small Lists / Arrays / Tables / Trees pass an object stored in a container as element / key / value argument — the stored value under the same key '
            '(store-back, with a fresh and with the stored key object), the stored key object (iteration) as key of set and rem, a value object as key, the value / key of another entry, '
            'own elements of a List to push / push_at / set / rem, own records of an Array to set / rem (also i = j), elements of other containers everywhere (5% in every other family; the grow cases store back 8 pairs); '
            '(h\') operands: in the aliased families 30% of the aliased calls are concat(c, tuple(...)) with 1-4 operands of which 70% are stored objects (nodes of the receiving List by positive / negative index mixed with fresh objects; elements, key and value objects of other containers; an Array only from others) '
            'or a constructor of a List / Array / Table / Tree from 1-5 operands / pairs, 65% of them stored objects of other containers (the same object twice allowed there); I-line counters concat_list_own_node, concat_other_only, concat_own_negative_index, concat_own_mixed_fresh, ctor_same_object_twice, operand_refs; '
            '(i) boundary hashes: Tables (and Trees) over keys whose hash is 2^64-1, 0, 1, 2^64-2, 2^63, 2^63+-1, 2^32, 2^32+-1, 2^64-2^32, 2^33, NaN / inf / 1.0 bit patterns, L, L+-1, 41L, 41L-1, 2L-1 '
            '(2-4 keys per value; six of them in every default key pool), and a growth case over all 176 boundary keys through the sizes 5..197; '
            '(g, run first) type-refused: a third of the calls carry an Int / String / Float / Type object / NULL where a probe element, key or value is expected — '
            'push, append, push_at (accepted and refused index), set, rem, concat from a Tuple on List; set, rem, refused-index push_at on Array; set with wrong key, wrong value '
            '(existing key, new key), both, and rem with wrong key on Table and Tree (also on an emptied Table); constructors of List / Table / Tree with the wrong-typed argument '
            'at every position, with repeated keys before it (run as construct_with(alloc(T), args), the half-built object deleted at once); the same at 4% in every other family; '
            'read-only probes (len/iteration/get/mem/hash/eq '
            'must cause no ownership event), plus constructors with initial '
            'elements, copies, self-assignment, deletions in any order; every op file ends with the deletion of all remaining containers. '
            'non-trivial item = one executed operation whose observation shows an ownership event (element constructed, finalised or '
            'assigned in place) or a raised exception; distinct = distinct (operation text, observation) pairs.')
    trusted_base = ('harness/h_own.c + lean/Driver/Own.lean (step correspondence is testing)',
                    'the table of boundary hash values is written twice (BH[] in harness/h_own.c, bhTable in Cello/OwnConc.lean); a mismatch shows as a layout divergence on the first boundary key',
                    'Cello/Table.lean and Cello/RBTree.lean mirror src/Table.c and src/Tree.c slot by slot / node by node: validated by the C02 / C03 engines (h_table, h_tree), imported here',
                    'Cello/SeqStore.lean ArrS mirrors the record block of src/Array.c (realloc, memmove, nitems / nslots): validated cell by cell by the C04 engine (h_seq), imported here for C05_moves_array',
                    'concat operands reach the library in a stack Tuple built by the harness; Tuple iteration itself (Tuple_Iter_Init / Next) is the C04 / C11 engines\' subject',
                    'translate/g_own.py (regex over the container sources: which functions call destruct/assign/memcpy/cast, where the casts stand relative to the first effect)',
                    'a refused constructor: the harness deletes the half-built object at once; that the collector does the same at its next sweep is C06\'s subject',
                    'the probe element type of the harness stands for every element type with New/Assign/Del owning heap memory',
                    'in the world of several containers a Table / Tree is its key-sorted association list; C05_moves_* prove that this is what the slot array / red-black tree holds after every operation')
    assumptions = ('single thread, collector running, containers deleted explicitly with del (collector-driven finalisation is C06)',
                   'Box as source of copy/assign/concat, set over a stored Box and Box-to-Box assign excluded: Box_Assign copies the pointer and drops the old pointee (known finding own-box-assign-shallow, F28); ref(box, x) on a Box that owns an object excluded: Box_Ref overwrites the pointer without del (its own finding KF-C05-box-ref-drops, sig own-box-ref-drops); push / push_at (also refused) / pop / pop_at / resize / del / self-assign on Array and List of Box are in contract',
                   'resize(list, n) with n > len excluded: List_Resize links zero-filled, never constructed elements (known finding own-list-resize-raw)',
                   'assign(Array, non-empty Table or Tree) excluded: refused (ValueError) after Array_Assign has set len = len(source) over unconstructed records (known finding own-array-assign-partial, site Array_Assign); from an empty Table / Tree it is in contract and generated; assign(List, Table or Tree) is in contract and generated for empty AND non-empty sources (a non-empty one raises ValueError after List_Clear: the old elements are finalised once, live = sum of len — C05_list_assign_from_map; that the failed call changed its receiver is C12\'s KF-C12-assign-clears)',
                   'assign(Table or Tree, Array or List) is not modelled (the map takes Int as key type and refuses probe keys afterwards; the model does not track element types), concat(x, x) diverges (KF-C04-self-concat): both are answered bad-op by harness and model and a history containing one is outside the contract (inContract requires that the operation was executed)',
                   'arguments that are stored objects (references @d[i], @d.kK, @d.vK into the receiver or another container) are modelled and generated for push / push_at / set / rem / Table and Tree set / rem; NOT executed (bad-op in harness and model, outside the contract): push / push_at of an element of the SAME Array (Array_Push reads the argument after Array_Reserve_More, Array_Push_At after the memmove: KF-C04-push-own-element, recorded under C04 — excluded also when the Array would not have to grow, the ownership model does not track capacity), references into containers of Box, references that designate nothing; '
                   'references as OPERANDS of concat (from a Tuple) and of the constructors are modelled and generated (extension round) — NOT executed there: records of the receiving Array among the operands of concat (Array_Concat reads them after the realloc: same C04 finding), '
                   'the same stored object twice among the operands of one concat (the operands travel in a Tuple and foreach over a Tuple holding one pointer twice never ends: KF-C04-tuple-dup-iter / KF-C11-tuple-dup), references mixed with wrong-typed operands; assign with operands holding own elements is C04\'s subject',
                   'a stored object passed where `cast` demands the exact key / value type and the object has the other probe type is passed as a converted copy (the two probe types are convertible)',
                   'keys are probe objects whose Hash the harness chooses (boundary values included); Tables keyed by the library\'s own Int / Float / String objects are the C02 / C10 engines\' subject (such keys have no observable finalisation; to Table.c a key is its hash, its size and its Cmp)',
                   'invariants are stated after every operation; nothing is claimed about the states inside one operation',
                   'wrong-typed arguments (Int, String, Float, Type object, NULL) are generated for every call that is atomic on a type error; NOT generated: Array push / push_at at an accepted index / concat with a wrong-typed element (the array grows before the element\'s own type check: KF-C12-array-push-type, recorded under C12 — the model mirrors it, the harness prints that signature if a replay enters it), new(Array, T, ...) with a wrong-typed element (known finding own-array-new-partial), concat(list, ...) with well-typed items before the wrong one (they stay: KF-C12-list-concat-partial; ownership stays consistent, one corpus line); containers of Box take any object (typed calls are bad-op there)',
                   'a type-refused List_Push / List_Push_At / List_Concat / List_New loses the unlinked node (raw calloc memory, never an element): not an ownership event, not observed here',
                   'payloads < 2^31, fewer than 2^63 elements')

    def cases(self, rng, tier, boost=1):
        quick = tier == 'quick'
        cs = []
        def add(name, lines): cs.append(Case(name, lines))
        nh = (12 if quick else 150) * boost
        nops = 300 if quick else 2500
        allk = {'A': 3, 'L': 3, 'T': 3, 'R': 3, 'B': 1, 'C': 1}
        # first (a failing input on an error path ends the run early): histories in which a third of the calls carry a
        # wrong-typed element / key / value, on small containers (existing and new keys, every position of a constructor)
        for i in range(max(nh // 2, 3)):
            add(f'refused{i}', history(rng, nops // 2, {'L': 3, 'T': 3, 'R': 3, 'A': 2}, wrong=0.35, maxlen=10,
                                       keypool=list(range(1, 13)) if i % 2 else None))
        # aliased arguments (stored objects passed back into their own container / into others) on small containers
        for i in range(max(nh // 3, 3)):
            add(f'alias{i}', history(rng, nops // 2, {'L': 3, 'T': 3, 'R': 3, 'A': 2}, alias=0.4, wrong=0.02, maxlen=10,
                                     keypool=(list(range(1, 13)) + BOUND_FEW[:3]) if i % 2 else None))
        # keys with boundary hash values: all-ones, 0, 1, 2^63, 2^32 multiples, float bit patterns, 0 / nslots-1 modulo every table size
        for i in range(max(nh // 3, 3)):
            pool = [bkey(b, r) for b in range(BH_N) for r in range(2 + i % 3)] + [0, 1, 16, 17]
            add(f'hashb{i}', history(rng, nops, {'T': 4, 'R': 1}, keypool=pool, maxlen=30 if i % 2 else 12, alias=0.12))
        add('growTb', growth(rng, 0, 'T', rng.choice(['pg', 'gp', '']), keys=BOUND_ALL))
        for i in range(nh): add(f'mixed{i}', history(rng, nops, allk))
        for i in range(nh): add(f'seq{i}', history(rng, nops, {'A': 3, 'L': 3}, paymax=12))
        for i in range(nh): add(f'map{i}', history(rng, nops, {'T': 3, 'R': 2}, maxlen=30))
        for i in range(max(nh // 2, 2)): add(f'box{i}', history(rng, nops // 2, {'B': 3, 'C': 3, 'A': 1, 'L': 1, 'T': 1}))
        for i in range(max(nh // 2, 2)): add(f'err{i}', history(rng, nops // 2, allk, fail=0.25, maxlen=6))
        for i in range(max(nh // 2, 2)):
            add(f'dense{i}', history(rng, nops, {'T': 2, 'R': 1}, keypool=list(range(1, 13)), maxlen=12))
        sizes = [7, 30, 120] if quick else [7, 30, 120, 700, 2500, 6000]
        for n in sizes:
            for k in 'ALTR':
                if n > 2500 and k in 'TR': continue      # the per-op reference comparison of a map is O(n log n)
                ty = rng.choice(['', 'g']) if k in 'AL' else rng.choice(['pg', 'gp', 'gg', ''])
                add(f'grow{k}{ty}{n}', growth(rng, n * min(boost, 2), k, ty))
        return cs

    @staticmethod
    def _ops(case): return [l for l in case.lines if l.strip() and not l.startswith('#')]

    def nontrivial_items(self, case, c_out, m_out):
        ops = self._ops(case); obs = core.lines_with('O ', c_out)
        items = set()
        for op, o in zip(ops, obs):
            if o.startswith('O r=') and ('r=ok iss=[] ret=[] upd=[] rawd=0' not in o):
                items.add(hash(op + '|' + o))
        return items

    def stats(self, case, c_out, m_out, acc):
        ops = self._ops(case); obs = core.lines_with('O ', c_out)
        for op, o in zip(ops, obs):
            name = op.split()[0]
            acc['op_' + name] = acc.get('op_' + name, 0) + 1
            if o == 'O bad-op': acc['bad_op'] = acc.get('bad_op', 0) + 1; continue
            r = o.split()[1][2:]
            if r != 'ok': acc['raised_' + r] = acc.get('raised_' + r, 0) + 1
            if ' iss=[]' not in o: acc['ops_constructing'] = acc.get('ops_constructing', 0) + 1
            if ' ret=[]' not in o: acc['ops_finalising'] = acc.get('ops_finalising', 0) + 1
            if ' upd=[]' not in o: acc['ops_assigning_in_place'] = acc.get('ops_assigning_in_place', 0) + 1
            if name == 'mset' and ' ret=[]' not in o: acc['table_replace'] = acc.get('table_replace', 0) + 1
            if '@' in op:
                acc['aliased_calls'] = acc.get('aliased_calls', 0) + 1
                acc['aliased_' + name] = acc.get('aliased_' + name, 0) + 1
                c0 = op.split()[1]
                if any(t.startswith(f'@{c0}[') or t.startswith(f'@{c0}.') for t in op.split()[2:]): acc['aliased_own_container'] = acc.get('aliased_own_container', 0) + 1
                if name in ('concatv', 'newv', 'newm'):          # branch counters of the operand paths
                    refs = [t for t in op.split()[2:] if t.startswith('@')]
                    acc['operand_refs'] = acc.get('operand_refs', 0) + len(refs)
                    own = [t for t in refs if t.startswith(f'@{c0}[')]
                    if name == 'concatv':
                        br = 'concat_list_own_node' if own else 'concat_other_only'
                        acc[br] = acc.get(br, 0) + 1
                        if any('[-' in t for t in own): acc['concat_own_negative_index'] = acc.get('concat_own_negative_index', 0) + 1
                        if own and any(not t.startswith('@') for t in op.split()[2:]): acc['concat_own_mixed_fresh'] = acc.get('concat_own_mixed_fresh', 0) + 1
                    if name == 'newm' and len(set(refs)) < len(refs): acc['ctor_same_object_twice'] = acc.get('ctor_same_object_twice', 0) + 1
                    if name == 'newv' and len(set(refs)) < len(refs): acc['ctor_same_object_twice'] = acc.get('ctor_same_object_twice', 0) + 1
            if name in ('mset', 'mrem') and any(t.isdigit() and BH_BASE <= int(t) < BH_BASE + BH_PER * BH_N for t in op.split()[2:3]):
                acc['boundary_hash_key_ops'] = acc.get('boundary_hash_key_ops', 0) + 1
            if '!' in op:
                acc['wrong_typed_calls'] = acc.get('wrong_typed_calls', 0) + 1
                acc['wrong_typed_' + name] = acc.get('wrong_typed_' + name, 0) + 1
                if r == 'ok': acc['wrong_typed_ACCEPTED'] = acc.get('wrong_typed_ACCEPTED', 0) + 1
            try:
                lv = int(o.split(' live=')[1].split()[0]); acc['max_live'] = max(acc.get('max_live', 0), lv)
            except Exception: pass
        for l in core.lines_with('S ', m_out):
            for kv in l.split()[1:]:
                k, v = kv.split('=')
                if k == 'out-of-contract': acc['ops_out_of_contract'] = acc.get('ops_out_of_contract', 0) + int(v)
                if k == 'tokens': acc['elements_constructed'] = acc.get('elements_constructed', 0) + int(v)

    def model_selfcheck(self, case, m_out):
        # the driver reports `live` after the final deletions; a model that leaks by itself shows up here
        for l in core.lines_with('O end', m_out):
            if l.strip() != 'O end live=0' and not any(k in case.name for k in ('kf_',)):
                return f'the model itself ends with `{l}` on an in-contract history'
        return None


SPEC = C05()
