"""C10 — equal values hash equally; copy and assign produce equal values; swap exchanges (engine hash)."""
import struct
from ..runner import Spec, Case
from .. import core

MAXPROBE = 41                                # plain-struct probe types P1..P41 of the harness: P<n> is n bytes; type code = str(n)
SIZES = list(range(1, MAXPROBE + 1))
RAW_ANY = [str(n) for n in SIZES]            # element / Table key and value types of every size 1..41 (Table and Array round up to words)
RAW_TREE = [str(n) for n in SIZES if n % 8 == 0]   # 8, 16, 24, 32, 40: a Tree takes multiples of 8 only (KF-C19-tree-misaligned-header)
RAW_ODD = [str(n) for n in SIZES if n % 8]   # sizes that are not a whole number of words (and, among them, not of half words)
SCALARS3 = ['I', 'F', 'S']
def is_raw(ty): return ty.isdigit()
def raw_or(rng, base, raws):
    """one of the built-in codes in `base` (a string of one-letter codes) or one of the plain-struct sizes in `raws`, each group equally likely per member"""
    return rng.choice(list(base) + list(raws))
# key / value type pairs of different sizes: narrow key with wide value, wide key with narrow value, both wide and different
WIDTH_PAIRS_TREE = [('I', '24'), ('I', '40'), ('I', '16'), ('40', 'I'), ('24', 'I'), ('16', '24'), ('24', '16'), ('8', '40'), ('40', '8'), ('S', '24'), ('S', '40'),
                    ('24', 'S'), ('16', 'F'), ('I', '32'), ('32', '8')]
WIDTH_PAIRS_TABLE = WIDTH_PAIRS_TREE + [('I', '12'), ('4', '24'), ('12', '4'), ('1', '40'), ('40', '1'), ('4', '12'), ('12', 'S'), ('S', '12'), ('1', 'I'),
                                        ('5', '7'), ('6', 'I'), ('I', '13'), ('3', '21'), ('41', '2'), ('9', '15'), ('S', '6'), ('7', 'F'), ('33', '5')]
BUILTINS = ['Int', 'Float', 'String', 'Array', 'List', 'Table', 'Tree', 'Tuple', 'Ref', 'Box', 'Type', 'Range', 'Slice', 'File']
LCM = 5 * 11 * 23 * 53            # Int keys congruent modulo every small Table size collide in all of them
I64MIN, I64MAX = -2**63, 2**63 - 1
INT_EDGES = [0, 1, -1, 2, 55, 2**31 - 1, 2**31, -2**31, 2**32, -2**32, 2**32 + 1, 2**53, I64MAX, I64MIN, I64MAX - 1, I64MIN + 1]
FLOAT_EDGES = [0x0000000000000000, 0x8000000000000000, 0x0000000000000001, 0x8000000000000001, 0x000fffffffffffff,
               0x0010000000000000, 0x3ff0000000000000, 0xbff0000000000000, 0x3ff0000000000001, 0x7fefffffffffffff,
               0xffefffffffffffff, 0x7ff0000000000000, 0xfff0000000000000, 0x4000000000000000, 0x3fb999999999999a]

def fbits(x): return struct.unpack('<Q', struct.pack('<d', x))[0]

class G:
    """value and op-line helpers over one rng"""
    def __init__(self, rng): self.rng = rng; self.next_id = 1
    def fresh(self):
        i = self.next_id; self.next_id += 1; return i
    def int_(self):
        r = self.rng
        c = r.random()
        if c < 0.35: return r.choice(INT_EDGES)
        if c < 0.7: return r.randrange(-40, 40)
        if c < 0.85: return r.randrange(0, 6) + LCM * r.randrange(0, 8)
        return r.randrange(I64MIN, I64MAX + 1)
    def float_bits(self):
        r = self.rng
        c = r.random()
        if c < 0.4: return r.choice(FLOAT_EDGES)
        if c < 0.7: return fbits(r.randrange(-50, 50) / 4.0)
        while True:
            b = r.getrandbits(64)
            if (b & 0x7fffffffffffffff) <= 0x7ff0000000000000: return b      # NaN is known-finding territory
    def str_bytes(self, maxlen=20):
        r = self.rng
        n = r.choice([0, 1, 2, 3, 7, 8, 9, 15, 16, 17]) if r.random() < 0.5 else r.randrange(0, maxlen + 1)
        if r.random() < 0.6: return bytes(r.choice(b'abcxyzAB') for _ in range(n))
        return bytes(r.randrange(1, 256) for _ in range(n))
    def spec(self, ty):
        r = self.rng
        if ty == 'I': return f'i:{self.int_()}'
        if ty == 'F': return f'f:{self.float_bits():016x}'
        if ty == 'S': return 's:' + self.str_bytes().hex()
        if ty == 'T': return r.choice(['t:', 'u:']) + r.choice(BUILTINS)
        if is_raw(ty):
            n = int(ty)
            b = bytes(r.randrange(256) for _ in range(n)) if r.random() < 0.6 else bytes([r.choice([0, 1, 255])] * n)
            return f'p{n}:' + b.hex()
        raise ValueError(ty)

def spec_key(ety, sp):
    """position of a spec in the order sort() must produce among values of one type"""
    if ety == 'I': return int(sp[2:])
    if ety == 'F':
        b = int(sp[2:], 16); m = b & 0x7fffffffffffffff
        return -m if b >> 63 else m
    return bytes.fromhex(sp.split(':', 1)[1])
def sorted_specs(ety, content): return sorted(content, key=lambda sp: spec_key(ety, sp))

# sizes in the order in which a broken byte-wise move shows first: not a whole number of words with more than a half word left
# (5, 6, 7 modulo 8), then the other sizes that are not a multiple of 4, then of 8, then the whole words
SIZES_ODD_FIRST = sorted(SIZES, key=lambda n: (0 if n % 8 >= 5 else 1 if n % 4 else 2 if n % 8 else 3, n))

# ---------------------------------------------------------------------------------------------------------------- case families
def size_sweep_case(rng, name, sizes, reps=1):
    """every plain-struct size in `sizes`: two different structs of that size on the stack, on the heap and embedded in an Array are
    swapped pairwise across all allocation classes (swap(a, b) must exchange them: each byte position carries a value that names the
    object and the position, with bytes >= 0x80), swapped with themselves, copied, assigned; an Array of such structs in descending,
    random and repeated order is sorted (quicksort: every element move is a swap of two element structs) and compared with the Array
    built in order; the same Array as the value of a Ref-free Table slot (rounded up to words) is left to the other families."""
    g = G(rng); L = []
    def struct(n, tag):
        r = rng.random()
        if r < 0.4: b = bytes(((tag << 6) | (j & 0x3f)) & 0xff for j in range(n))        # names object and position; tag 2, 3: high bytes
        elif r < 0.8: b = bytes(rng.randrange(256) for _ in range(n))
        else: b = bytes([rng.choice([0x00, 0x7f, 0x80, 0xff])] * (n - 1) + [rng.randrange(256)])
        return f'p{n}:' + b.hex()
    for n in sizes:
        for _ in range(reps):
            ids = {}
            for tag, (nm, cls) in enumerate([('a', 'S'), ('b', 'H'), ('c', 'E'), ('d', 'E'), ('e', 'S'), ('f', 'H')]):
                i = g.fresh(); ids[nm] = i; L.append(f'new {i} {cls} {struct(n, tag % 4)}')
            a, b, c, d, e, f = (ids[k] for k in 'abcdef')
            L += [f'swap {a} {b}', f'swap {b} {c}', f'swap {c} {d}', f'swap {d} {a}', f'swap {a} {e}', f'swap {b} {f}', f'swap {c} {e}', f'swap {a} {a}', f'swap {c} {c}',
                  f'eq {a} {b}', f'eq {c} {d}']
            k = g.fresh(); L += [f'copy {k} {c}', f'eq {k} {c}', f'assign {b} {d}', f'eq {b} {d}', f'assign {c} {a}', f'eq {a} {c}', f'swap {k} {b}', f'swap {k} {b}',
                                 f'put {a} {struct(n, 1)}', f'swap {a} {c}']
            # sort
            m = rng.choice([2, 3, 4, 5, 7, 9])
            elems = [struct(n, rng.randrange(4)) for _ in range(m)]
            if m > 3 and rng.random() < 0.5: elems[rng.randrange(m)] = elems[rng.randrange(m)]
            order = rng.choice(['desc', 'rand', 'asc'])
            if order == 'desc': elems = list(reversed(sorted_specs(str(n), elems)))
            elif order == 'asc': elems = sorted_specs(str(n), elems)
            x = g.fresh(); L.append(f'arr {x} {rng.choice("SH")} {n}' + ''.join(' ' + sp for sp in elems))
            y = g.fresh(); L.append(f'arr {y} H {n}' + ''.join(' ' + sp for sp in sorted_specs(str(n), elems)))
            L += [f'heq {x} {y}', f'sort {x}', f'eq {x} {y}', f'sort {x}', f'eq {y} {x}']
            z = g.fresh(); L += [f'copy {z} {x}', f'eq {z} {y}', f'pushat {z} 0 {struct(n, 3)}', f'sort {z}', f'popat {z} {rng.randrange(m + 1)}', f'H {z}']
    return Case(name, L)

def align_lines(rng, lens):
    """hash_data over every length in `lens`; the harness hashes each input at every start alignment 0..7 inside a larger buffer
    (with three kinds of neighbouring bytes) and compares with MurmurHash64A of the bytes. Contents: all bytes >= 0x80; a single byte
    >= 0x80 at every position among low bytes; a single low byte at every position among high bytes; random."""
    L = []
    for n in lens:
        L.append('D ' + bytes(0x80 | (j & 0x7f) for j in range(n)).hex() if n else 'D')
        if not n: continue
        L.append('D ' + bytes([0xff] * n).hex())
        for p in range(n):
            lo = bytearray((j % 0x7f) + 1 for j in range(n)); lo[p] = rng.choice([0x80, 0xff, 0x80 | rng.randrange(128)]); L.append('D ' + bytes(lo).hex())
        for p in rng.sample(range(n), min(n, 4)):
            hi = bytearray(0x80 | rng.randrange(128) for _ in range(n)); hi[p] = rng.randrange(128); L.append('D ' + bytes(hi).hex())
        L.append('D ' + bytes(rng.randrange(256) for _ in range(n)).hex())
    return L

def align_cases(rng, quick, boost):
    lines = align_lines(rng, range(0, 65))
    for _ in range((10 if quick else 100) * boost):       # longer inputs: several blocks and a tail, high bytes everywhere
        n = rng.randrange(65, 300); lines.append('D ' + bytes(0x80 | rng.randrange(128) for _ in range(n)).hex())
    return [Case(f'align{i // 600}', lines[i:i + 600]) for i in range(0, len(lines), 600)]

def hashdata_cases(rng, quick, boost):
    lines = ['D']
    reps = (10 if quick else 16) * boost
    for n in range(0, 65):
        for _ in range(reps):
            lines.append('D ' + bytes(rng.randrange(256) for _ in range(n)).hex())
        for fill in (0, 0xff, 0x80):
            lines.append('D ' + bytes([fill] * n).hex())
    # one-bit / one-byte neighbours and longer inputs
    for _ in range((40 if quick else 400) * boost):
        n = rng.randrange(1, 65); b = bytearray(rng.randrange(256) for _ in range(n))
        lines.append('D ' + b.hex()); b[rng.randrange(n)] ^= 1 << rng.randrange(8); lines.append('D ' + b.hex())
    for _ in range((30 if quick else 300) * boost):
        n = rng.randrange(65, 400 if quick else 1500)
        lines.append('D ' + bytes(rng.randrange(256) for _ in range(n)).hex())
    out = []
    for i in range(0, len(lines), 400): out.append(Case(f'hashdata{i//400}', lines[i:i+400]))
    return out

def scalar_case(rng, name, rounds):
    g = G(rng); L = []
    for _ in range(rounds):
        ty = rng.choice(['I', 'I', 'F', 'F', 'S', 'S', 'T'] + [rng.choice(RAW_ANY) for _ in range(6)])
        sp = g.spec(ty)
        ids = []
        for cls in (['S', 'H'] if ty == 'T' else ['S', 'H', 'E']):
            i = g.fresh(); L.append(f'new {i} {cls} {sp}'); ids.append(i)
        for a in ids:
            for b in ids:
                if a < b or rng.random() < 0.2: L.append(f'eq {a} {b}')
        # float: the other zero / int: a neighbour / string: a prefix
        sp2 = g.spec(ty)
        if ty == 'F' and int(sp[2:], 16) << 1 & (2**64 - 1) == 0: sp2 = 'f:%016x' % (int(sp[2:], 16) ^ (1 << 63))
        j = g.fresh(); L.append(f'new {j} {rng.choice("SH")} {sp2}'); L.append(f'eq {ids[0]} {j}'); L.append(f'eq {j} {ids[-1]}')
        # copy, assign, put, swap
        c = g.fresh(); L.append(f'copy {c} {rng.choice(ids)}')
        if ty != 'T':
            L.append(f'eq {c} {ids[0]}')
            tgt = rng.choice(ids + [c]); L.append(f'assign {tgt} {j}'); L.append(f'eq {tgt} {j}')
            L.append(f'put {rng.choice(ids + [c])} {g.spec(ty)}')
            a, b = rng.choice(ids + [c, j]), rng.choice(ids + [c, j])
            L.append(f'swap {a} {b}'); L.append(f'eq {a} {b}')
            if ty == 'S':      # undo: a String swapped across allocation classes holds the other's buffer (KF-C10-swap-foreign-buffer: no mutation in that state)
                L.append(f'swap {a} {b}')
            # two objects whose buffers are both the allocator's (heap, embedded in an Array): swapped, then both assigned to
            h1, h2 = rng.sample([ids[1], ids[2], c], 2)
            L += [f'swap {h1} {h2}', f'put {h1} {g.spec(ty)}', f'put {h2} {g.spec(ty)}', f'assign {h1} {h1}', f'eq {h1} {h2}']
            # two different types: swap raises TypeError and nothing moves
            if rng.random() < 0.4:
                oty = rng.choice([t for t in ['I', 'F', 'S', rng.choice(RAW_ANY)] if t != ty]); o = g.fresh()
                L += [f'new {o} {rng.choice("SHE")} {g.spec(oty)}', f'swap {rng.choice(ids)} {o}', f'swap {o} {rng.choice(ids)}', f'H {o}']
            # Ref / Box to these objects
            if rng.random() < 0.5:
                t = rng.choice(ids); k = rng.choice('rb')
                r1, r2, r3 = g.fresh(), g.fresh(), g.fresh()
                L += [f'new {r1} S {k}:{t}', f'new {r2} H {k}:{t}', f'new {r3} H {k}:{j}', f'eq {r1} {r2}', f'eq {r1} {r3}']
                r4 = g.fresh(); L += [f'copy {r4} {r1}', f'assign {r3} {r1}', f'eq {r3} {r2}', f'swap {r2} {r3}', f'put {r2} {k}:{j}', f'eq {r2} {r3}']
        else:
            L.append(f'put {ids[0]} {sp2}'); L.append(f'assign {ids[0]} {j}')
    return Case(name, L)

def build_seq(g, L, kind, ety, content, style):
    """bind a new container of `kind` (arr/lst/tup) holding `content` (list of specs) through history `style`; returns its id"""
    rng = g.rng
    cid = g.fresh()
    cls = rng.choice('SH') if kind != 'tup' else 'H'
    def item(sp):
        if kind != 'tup': return sp
        i = g.fresh(); L.append(f'new {i} {rng.choice("SHE")} {sp}'); return str(i)
    hdr = f'{kind} {cid} {cls}' + (f' {ety}' if kind != 'tup' else '')
    n = len(content)
    if style == 'ctor' or n == 0:
        L.append(hdr + ''.join(' ' + item(s) for s in content))
    elif style == 'push':
        L.append(hdr)
        for s in content: L.append(f'push {cid} {item(s)}')
    elif style == 'front':       # built back to front with pushat 0
        L.append(hdr + ' ' + item(content[-1]))
        for s in reversed(content[:-1]): L.append(f'pushat {cid} 0 {item(s)}')
    elif style == 'junk':        # a superset first, then removals by index, then a reserve
        full = [(s, False) for s in content]
        for _ in range(rng.randrange(1, 4)): full.insert(rng.randrange(0, len(full) + 1), (g.spec(ety), True))
        L.append(hdr + ''.join(' ' + item(s) for s, _ in full))
        for p in reversed([i for i, (_, junk) in enumerate(full) if junk]): L.append(f'popat {cid} {p}')
        if kind == 'arr' and rng.random() < 0.7: L.append(f'resize {cid} {n + rng.randrange(0, 9)}')
    elif style == 'halves' and kind != 'tup':
        h = rng.randrange(0, n + 1); other = g.fresh()
        L.append(hdr + ''.join(' ' + s for s in content[:h]))
        L.append(f'{rng.choice(["arr", "lst"])} {other} H {ety}' + ''.join(' ' + s for s in content[h:]))
        L.append(f'concat {cid} {other}')
    elif style == 'trunc':       # longer, then cut by resize / pop, with an in-place overwrite
        extra = [g.spec(ety) for _ in range(rng.randrange(1, 4))]
        first = list(content)
        k = rng.randrange(n)
        if kind != 'tup': first[k] = g.spec(ety)
        L.append(hdr + ''.join(' ' + item(s) for s in first + extra))
        if rng.random() < 0.5: L.append(f'resize {cid} {n}')
        else:
            for _ in extra: L.append(f'pop {cid}')
        if kind != 'tup': L.append(f'set {cid} {k} {content[k]}')
    else:
        return build_seq(g, L, kind, ety, content, 'push')
    return cid

def seq_case(rng, name, rounds, maxlen):
    g = G(rng); L = []
    for _ in range(rounds):
        ety = rng.choice('IIFS') if rng.random() < 0.6 else rng.choice(RAW_ANY)      # elements of 1 … 41 bytes
        n = rng.choice([0, 1, 2, 3]) if rng.random() < 0.3 else rng.randrange(0, maxlen + 1)
        content = [g.spec(ety) for _ in range(n)]
        if n >= 2 and rng.random() < 0.3: content[rng.randrange(n)] = content[rng.randrange(n)]       # repeated elements
        ids = []; flat = []
        for _ in range(rng.randrange(2, 5)):
            kind = rng.choice(['arr', 'arr', 'lst', 'lst', 'tup'])
            ids.append(build_seq(g, L, kind, ety, content, rng.choice(['ctor', 'push', 'front', 'junk', 'halves', 'trunc'])))
            if kind != 'tup': flat.append(ids[-1])
        if not flat: flat.append(build_seq(g, L, 'arr', ety, content, 'push')); ids.append(flat[-1])
        for a in ids:
            for b in ids:
                if a != b and (a < b or rng.random() < 0.3): L.append(f'eq {a} {b}')
        # copies and assignments (Tuple sources only into Tuples)
        for _ in range(2):
            src = rng.choice(ids); c = g.fresh(); L.append(f'copy {c} {src}'); L.append(f'eq {c} {rng.choice(ids)}'); ids.append(c)
            if src in flat: flat.append(c)
        ty2 = rng.choice('IFS')
        tgt = build_seq(g, L, rng.choice(['arr', 'lst']), ty2, [g.spec(ty2) for _ in range(rng.randrange(0, 4))], 'ctor')
        L.append(f'assign {tgt} {rng.choice(flat)}'); L.append(f'eq {tgt} {ids[0]}'); L.append(f'assign {tgt} {rng.choice(flat)}'); L.append(f'eq {ids[0]} {tgt}')
        # a permutation / a changed element: unequal in general, the permutation hashes the same
        if n >= 2:
            perm = list(content); rng.shuffle(perm)
            p = build_seq(g, L, rng.choice(['arr', 'lst', 'tup']), ety, perm, 'ctor'); L.append(f'eq {ids[0]} {p}'); L.append(f'heq {ids[0]} {p}')
            ch = list(content); ch[rng.randrange(n)] = g.spec(ety)
            q = build_seq(g, L, rng.choice(['arr', 'lst']), ety, ch, 'push'); L.append(f'eq {q} {ids[0]}')
            pre = build_seq(g, L, rng.choice(['arr', 'lst']), ety, content[:rng.randrange(n)], 'ctor'); L.append(f'eq {pre} {ids[0]}'); L.append(f'eq {ids[0]} {pre}')
        # swap two containers of one kind
        a = build_seq(g, L, 'arr', ety, content, 'push'); b = build_seq(g, L, 'arr', rng.choice('IFS'), [], 'ctor')
        L.append(f'swap {a} {b}'); L.append(f'eq {b} {ids[0]}')
        # sort: the sorted Array hashes like the unsorted one and is eq to the Array built from the sorted contents (NaN-free)
        if not (ety == 'F' and any((int(c[2:], 16) & 0x7fffffffffffffff) > 0x7ff0000000000000 for c in content)):
            so = build_seq(g, L, 'arr', ety, content, rng.choice(['ctor', 'push', 'front'])); L.append(f'sort {so}'); L.append(f'heq {so} {ids[0]}')
            L.append(f'sort {so}')
            ref = build_seq(g, L, 'arr', ety, sorted_specs(ety, content), 'ctor')
            if ety != 'F': L.append(f'eq {so} {ref}')
            else: L.append(f'heq {so} {ref}')
        x = build_seq(g, L, 'lst', ety, content, 'ctor'); y = build_seq(g, L, 'lst', ety, content[: n // 2], 'push')
        L.append(f'swap {x} {y}'); L.append(f'eq {y} {ids[0]}'); L.append(f'swap {x} {x}')
        if rng.random() < 0.5:
            u = build_seq(g, L, 'tup', ety, content, 'ctor'); v = build_seq(g, L, 'tup', ety, content[:1], 'push')
            L.append(f'swap {u} {v}'); L.append(f'eq {v} {ids[0]}'); L.append(f'pop {v}' if n else f'H {v}')
    return Case(name, [l for l in L if l])

def map_keys(g, kty, n, colliding):
    rng = g.rng; keys = []
    while len(keys) < n:
        if kty == 'I':
            if colliding: k = rng.choice([0, 4, 3]) + LCM * rng.randrange(0, 40) * rng.choice([1, 1, -1])
            else: k = g.int_()
            sp = f'i:{k}'
        elif kty == 'S': sp = 's:' + g.str_bytes(6).hex()
        else:      # plain struct keys: mostly differing in one late byte (equal prefixes: the comparison must look at the whole key)
            nb = int(kty)
            if rng.random() < 0.5: b = bytearray(nb); b[rng.randrange(nb)] = rng.randrange(256); b[-1] ^= rng.randrange(4)
            else: b = bytearray(rng.randrange(256) for _ in range(nb))
            sp = f'p{nb}:' + bytes(b).hex()
        if sp not in keys: keys.append(sp)
    return keys

def build_map(g, L, kind, kty, vty, entries, style, allow_resize=True):
    """bind a new Table/Tree holding `entries` (list of (kspec, vspec), unique keys) through history `style`"""
    rng = g.rng; cid = g.fresh(); hdr = f'{kind} {cid} {rng.choice("SH")} {kty} {vty}'
    es = list(entries)
    if style == 'ctor':
        L.append(hdr + ''.join(f' {k} {v}' for k, v in es))
    elif style in ('set', 'rev', 'shuffle'):
        if style == 'rev': es.reverse()
        if style == 'shuffle': rng.shuffle(es)
        L.append(hdr)
        for k, v in es: L.append(f'set {cid} {k} {v}')
    elif style == 'update':      # wrong values first, then the right ones
        L.append(hdr + ''.join(f' {k} {g.spec(vty)}' for k, v in es))
        rng.shuffle(es)
        for k, v in es: L.append(f'set {cid} {k} {v}')
    elif style == 'junk':        # extra keys inserted in between and removed again, optional reserve
        extra = [k for k in map_keys(g, kty, rng.randrange(1, 5), kty == 'I' and rng.random() < 0.7) if k not in [e[0] for e in es]]
        allk = es + [(k, g.spec(vty)) for k in extra]; rng.shuffle(allk)
        L.append(hdr)
        for k, v in allk: L.append(f'set {cid} {k} {v}')
        rng.shuffle(extra)
        for k in extra: L.append(f'rem {cid} {k}')
        if kind == 'tab' and allow_resize and rng.random() < 0.5: L.append(f'resize {cid} {len(es) + rng.randrange(0, 30)}')
    elif style == 'refill':      # filled, emptied (resize 0 or removals), filled again
        L.append(hdr + ''.join(f' {k} {v}' for k, v in es[: len(es) // 2]))
        if rng.random() < 0.5: L.append(f'clear {cid}')
        else:
            for k, v in es[: len(es) // 2]: L.append(f'rem {cid} {k}')
        rng.shuffle(es)
        for k, v in es: L.append(f'set {cid} {k} {v}')
    else:
        return build_map(g, L, kind, kty, vty, entries, 'set', allow_resize)
    return cid

MAP_STYLES = ['ctor', 'set', 'rev', 'shuffle', 'update', 'junk', 'refill']

def map_case(rng, name, rounds, maxn):
    """Tree: every history, eq/copy/assign.  Table: hashes of every history (heq), against each other and against Trees;
    eq/copy/assign only for Tables whose slot order is a function of the contents (≤ 4 Int keys, distinct modulo 5, never reserved):
    anything else is the territory of known finding KF-C10-table-cmp."""
    g = G(rng); L = []
    for _ in range(rounds):
        if rng.random() < 0.45: kty = rng.choice('IIS'); vty = rng.choice('ISF')
        elif rng.random() < 0.7: kty, vty = rng.choice(WIDTH_PAIRS_TREE)                  # key and value of different sizes
        else: kty = raw_or(rng, 'IS', RAW_TREE); vty = raw_or(rng, 'ISF', RAW_TREE)
        n = rng.randrange(0, 4) if rng.random() < 0.25 else rng.randrange(0, maxn + 1)
        keys = map_keys(g, kty, n, kty == 'I' and rng.random() < 0.6)
        entries = [(k, g.spec(vty)) for k in keys]
        trees = [build_map(g, L, 'tre', kty, vty, entries, rng.choice(MAP_STYLES)) for _ in range(rng.randrange(2, 4))]
        tabs = [build_map(g, L, 'tab', kty, vty, entries, rng.choice(MAP_STYLES)) for _ in range(rng.randrange(2, 4))]
        for a in trees:
            for b in trees:
                if a != b: L.append(f'eq {a} {b}')
        for a in tabs:
            for b in tabs + trees:
                if a != b: L.append(f'heq {a} {b}')
        c = g.fresh(); L.append(f'copy {c} {trees[0]}'); L.append(f'eq {c} {trees[-1]}')
        L.append(f'assign {trees[-1]} {c}'); L.append(f'swap {trees[0]} {trees[-1]}'); L.append(f'eq {trees[0]} {trees[-1]}')
        if tabs: L.append(f'swap {tabs[0]} {tabs[-1]}'); L.append(f'heq {tabs[0]} {tabs[-1]}')
        # one value changed / one entry less: not eq
        if n:
            ch = list(entries); i = rng.randrange(n); ch[i] = (ch[i][0], g.spec(vty))
            t3 = build_map(g, L, 'tre', kty, vty, ch, 'shuffle'); L.append(f'eq {t3} {trees[0]}')
            t4 = build_map(g, L, 'tre', kty, vty, entries[:-1], 'set'); L.append(f'eq {t4} {trees[0]}'); L.append(f'eq {trees[0]} {t4}')
        # layout-independent Tables: ≤ 4 Int keys with distinct residues modulo 5 (slot order = residue order, nslots = 5 or 1)
        m = rng.randrange(0, 5)
        res = sorted(rng.sample(range(5), m))
        aligned = rng.random() < 0.5     # keys descending while residues ascend: the Table's slot order is also the Tree's order
        mult = sorted([rng.randrange(0, 50) for _ in res], reverse=True) if aligned else [rng.randrange(0, 60) for _ in res]   # non-negative: (uint64_t)key % 5 is the residue
        if aligned and len(set(mult)) < len(mult): mult = list(range(len(res), 0, -1))
        sk = [(f'i:{r + LCM * q}', g.spec(vty)) for r, q in zip(res, mult)]
        st = [build_map(g, L, 'tab', 'I', vty, sk, rng.choice(['ctor', 'set', 'rev', 'shuffle', 'update']), allow_resize=False) for _ in range(3)]
        L.append(f'eq {st[0]} {st[1]}'); L.append(f'eq {st[2]} {st[0]}')
        c2 = g.fresh(); L.append(f'copy {c2} {st[0]}'); L.append(f'assign {st[1]} {st[2]}'); L.append(f'eq {c2} {st[1]}')
        if m: L.append(f'rem {st[2]} {sk[0][0]}'); L.append(f'eq {st[2]} {st[0]}'); L.append(f'set {st[2]} {sk[0][0]} {sk[0][1]}'); L.append(f'eq {st[2]} {st[0]}')
        if aligned:
            tr = build_map(g, L, 'tre', 'I', vty, sk, rng.choice(MAP_STYLES))
            L.append(f'eq {tr} {st[0]}'); L.append(f'eq {st[0]} {tr}')
            t5 = build_map(g, L, 'tre', rng.choice('IS'), vty, [], 'ctor'); L.append(f'assign {t5} {st[0]}'); L.append(f'eq {t5} {tr}')
            t6 = build_map(g, L, 'tab', 'I', rng.choice('ISF'), [], 'ctor'); L.append(f'assign {t6} {tr}'); L.append(f'eq {t6} {st[1]}')
    return Case(name, L)

def tree_rem_case(rng, name, rounds, maxn):
    """a Tree filled in random order, then emptied key by key: after every removal (of a leaf, of a node with one child, of a
    node with two children — whose in-order neighbour's key and value are then moved into it) it is compared with a Tree that
    is built directly from the remaining pairs, copied and assigned. Key and value types of different sizes."""
    g = G(rng); L = []
    for _ in range(rounds):
        kty, vty = rng.choice(WIDTH_PAIRS_TREE) if rng.random() < 0.8 else (raw_or(rng, 'IS', RAW_TREE), raw_or(rng, 'ISF', RAW_TREE))
        n = rng.randrange(3, maxn + 1)
        keys = map_keys(g, kty, n, False) if kty != 'I' or rng.random() < 0.5 else [f'i:{k}' for k in rng.sample(range(-300, 500), n)]
        entries = [(k, g.spec(vty)) for k in keys]
        hist = build_map(g, L, 'tre', kty, vty, entries, rng.choice(['ctor', 'set', 'shuffle', 'shuffle', 'update']))
        left = list(entries); order = list(entries); rng.shuffle(order)
        for i, (k, _) in enumerate(order[: rng.randrange(1, n + 1)]):
            L.append(f'rem {hist} {k}'); left = [e for e in left if e[0] != k]
            if i % max(2, n // 12) == 0 or rng.random() < 4.0 / (n + 8):
                ref = build_map(g, L, 'tre', kty, vty, left, rng.choice(['ctor', 'set', 'rev', 'shuffle']))
                L.append(f'eq {hist} {ref}')
                r = rng.random()
                if r < 0.3: c = g.fresh(); L.append(f'copy {c} {hist}'); L.append(f'eq {c} {ref}')
                elif r < 0.5: L.append(f'assign {ref} {hist}'); L.append(f'eq {ref} {hist}')
                elif r < 0.65:
                    tb = build_map(g, L, 'tab', kty, vty, left, 'shuffle'); L.append(f'heq {tb} {hist}')
            if rng.random() < 0.15 and left:      # an insertion or an update in between
                k2, v2 = rng.choice(left); v3 = g.spec(vty); L.append(f'set {hist} {k2} {v3}'); left = [(a, v3 if a == k2 else b) for a, b in left]
    return Case(name, L)

def table_wide_case(rng, name, rounds, maxn):
    """a Table with keys and values of any sizes (also 1, 4, 12 bytes: rounded up to words in the slot) driven through insertions
    into probe clusters, removals with back-shift, growing and shrinking rehashes and reserves; its hash is compared with Tables
    (and, for Tree-compatible types, Trees) built directly from the same pairs, and with its copy."""
    g = G(rng); L = []
    for _ in range(rounds):
        kty, vty = rng.choice(WIDTH_PAIRS_TABLE) if rng.random() < 0.8 else (raw_or(rng, 'IS', RAW_ANY), raw_or(rng, 'ISF', RAW_ANY))
        n = rng.randrange(2, maxn + 1)
        keys = map_keys(g, kty, n, kty == 'I' and rng.random() < 0.7)
        cur = {}
        t = g.fresh(); L.append(f'tab {t} {rng.choice("SH")} {kty} {vty}')
        treeok = all(c in list('ISF') + RAW_TREE for c in (kty, vty))
        for step in range(rng.randrange(n, 3 * n + 1)):
            r = rng.random()
            if r < 0.55 or not cur:
                k = rng.choice(keys); v = g.spec(vty); L.append(f'set {t} {k} {v}'); cur[k] = v
            elif r < 0.9:
                k = rng.choice(list(cur)); L.append(f'rem {t} {k}'); del cur[k]
            else:
                L.append(f'resize {t} {len(cur) + rng.randrange(0, 25)}')
            if step % 4 == 3 or rng.random() < 0.15:
                es = list(cur.items())
                ref = build_map(g, L, 'tab', kty, vty, es, rng.choice(['ctor', 'set', 'shuffle']), allow_resize=False); L.append(f'heq {t} {ref}')
                r = rng.random()
                if r < 0.3: c = g.fresh(); L.append(f'hcopy {c} {t}'); L.append(f'heq {c} {ref}')
                elif r < 0.5 and treeok: tr = build_map(g, L, 'tre', kty, vty, es, 'shuffle'); L.append(f'heq {tr} {t}')
                elif r < 0.65: L.append(f'hassign {ref} {t}'); L.append(f'heq {ref} {t}')
        # the same map on layout-independent Tables (≤ 4 Int keys, distinct residues modulo 5): eq / copy / assign with these value types
        m = rng.randrange(1, 5); res = rng.sample(range(5), m)
        sk = [(f'i:{r + LCM * rng.randrange(0, 60)}', g.spec(vty)) for r in res]
        a = build_map(g, L, 'tab', 'I', vty, sk, rng.choice(['ctor', 'set', 'shuffle']), allow_resize=False)
        extra = [r for r in range(5) if r not in res]
        b = g.fresh(); L.append(f'tab {b} H I {vty}')
        pend = list(sk); rng.shuffle(pend)
        junk = [(f'i:{r + LCM * rng.randrange(0, 60)}', g.spec(vty)) for r in extra[:1]] if len(sk) < 4 else []
        for k, v in pend[:1] + junk + pend[1:]: L.append(f'set {b} {k} {v}')
        for k, _ in junk: L.append(f'rem {b} {k}')
        L.append(f'eq {a} {b}'); c = g.fresh(); L.append(f'copy {c} {b}'); L.append(f'eq {c} {a}'); L.append(f'assign {a} {c}'); L.append(f'eq {b} {a}')
    return Case(name, L)


# ---------------------------------------------------------------------------------------------------------------- nearly equal values
def fadd_ulps(bits, k):
    """the double k steps up (k < 0: down) the number line from `bits` (non-NaN); None when that leaves the doubles"""
    key = -(bits & 0x7fffffffffffffff) if bits >> 63 else bits
    key += k
    if abs(key) > 0x7ff0000000000000: return None
    if key == 0: return 0x8000000000000000 if (bits >> 63 and k < 0) or (k > 0 and bits >> 63) else 0
    return (1 << 63) | -key if key < 0 else key

ARITH_PAIRS = [(0.1 + 0.2, 0.3), (1.0 / 3.0 * 3.0, 1.0), (2.0 ** 0.5 * 2.0 ** 0.5, 2.0), (1e16 + 1.0, 1e16), (0.1 * 3.0, 0.3), (1.1 * 1.1, 1.21),
               (100.0 * 1.1, 110.0), (4.35 * 100.0, 435.0), (1.0 - 0.9, 0.1), (0.7 + 0.1, 0.8), (1e-320 * 3.0, 3e-320), (1.7976931348623157e308 * 0.5 * 2.0, 1.7976931348623157e308),
               (9007199254740993.0, 9007199254740992.0), (3.0 * 1.1, 3.3), (49.0 * (1.0 / 49.0), 1.0)]

def near_float_bases(rng):
    r = rng.random()
    if r < 0.15: return rng.choice([0x0000000000000000, 0x8000000000000000, 0x0000000000000001, 0x8000000000000001, 0x0000000000000002,
                                    0x000fffffffffffff, 0x0010000000000000, 0x0010000000000001, 0x800fffffffffffff, 0x8010000000000000])
    if r < 0.30: return rng.choice([0x7fefffffffffffff, 0xffefffffffffffff, 0x7feffffffffffffe, 0x7ff0000000000000, 0xfff0000000000000, 0x7fe0000000000000])
    if r < 0.50:      # a power of two (also negative): the spacing of the doubles changes there
        return (rng.randrange(0, 2) << 63) | (rng.choice([1, 2, 3, 0x3fe, 0x3ff, 0x400, 0x401, 0x433, 0x434, 0x7fd, 0x7fe] + [rng.randrange(1, 0x7ff)]) << 52)
    if r < 0.65: return fbits(rng.choice(ARITH_PAIRS)[rng.randrange(2)])
    if r < 0.72: return fbits(rng.randrange(-1000, 1000) / rng.choice([1.0, 3.0, 7.0, 10.0, 1000.0]))
    if r < 0.78: return fbits(rng.choice([1.0, -1.0]) * rng.randrange(1, 10) * 10.0 ** rng.randrange(-300, 301))
    if r < 0.90:      # everyday magnitudes: 2^-64 .. 2^64, any mantissa
        return (rng.randrange(0, 2) << 63) | (rng.randrange(0x3ff - 64, 0x3ff + 65) << 52) | rng.getrandbits(52)
    if r < 0.95: return rng.getrandbits(52) | (rng.randrange(0, 2) << 63)           # subnormal
    while True:
        b = rng.getrandbits(64)
        if (b & 0x7fffffffffffffff) <= 0x7ff0000000000000: return b

def near_float_pair(rng):
    if rng.random() < 0.2:
        x, y = rng.choice(ARITH_PAIRS); return fbits(x), fbits(y)
    a = near_float_bases(rng)
    while True:
        k = rng.choice([1, -1, 1, -1, 2, -2, 3, -3, 4, -4, 0])
        if k == 0:
            if (a << 1) & (2**64 - 1) == 0: return a, a ^ (1 << 63)      # the other zero
            if rng.random() < 0.5: return a, a ^ (1 << 63)               # the negation: same magnitude bits
            continue
        b = fadd_ulps(a, k)
        if b is not None: return a, b

def wrap64(v): return (v + 2**63) % 2**64 - 2**63

def near_int_pair(rng):
    a = rng.choice(INT_EDGES + [rng.randrange(-1000, 1000), rng.randrange(I64MIN, I64MAX + 1), rng.randrange(0, 6) + LCM * rng.randrange(0, 8)])
    d = rng.choice([1, -1, 2**31, -2**31, 2**32, -2**32, 2**63, 2**32 + 1, 2**32 - 1, 2**64 - 1, 5, 11, 23, 53])
    return a, wrap64(a + d)

def near_bytes_pair(rng, n=None, nonzero=True):
    """two byte strings that differ in the last byte only (by one, in case, across 0x7f/0x80, 0x01 against 0xff), by one
    trailing byte (0x01: the byte next to NUL; 0xff), or in one late byte"""
    n = rng.choice([0, 1, 2, 3, 7, 8, 9, 15, 16, 17, 24]) if n is None else n
    lo = 1 if nonzero else 0
    a = bytearray(rng.choice(b'abcxyzAB') if rng.random() < 0.6 else rng.randrange(lo, 256) for _ in range(n))
    b = bytearray(a); r = rng.random()
    if r < 0.25 or n == 0: pass
    if n and r < 0.2: b[-1] = a[-1] + 1 if a[-1] < 255 else a[-1] - 1
    elif n and r < 0.35: a[-1] = rng.choice(b'azAZmq'); b[-1] = a[-1] ^ 0x20
    elif n and r < 0.5: a[-1], b[-1] = rng.choice([(0x7f, 0x80), (0x01, 0xff), (0x7f, 0xff), (0x80, 0xff), (0x01, 0x02), (0xfe, 0xff)])
    elif n and r < 0.6: i = rng.randrange(n); b[i] = a[i] ^ (1 << rng.randrange(8)); b[i] = b[i] or 1 if nonzero else b[i]
    elif nonzero and r < 0.8: b.append(rng.choice([0x01, 0x01, 0xff, 0x20, 0x80]))            # one trailing byte more
    elif nonzero and n and r < 0.9: b.pop()
    else:
        if n: i = rng.randrange(n); b[i] = (a[i] + 0x80) % 256; b[i] = b[i] or (1 if nonzero else 0)
        else: b.append(1)
    if not nonzero and len(b) != len(a): b = bytearray(a); b[-1] ^= 1
    return bytes(a), bytes(b)

def near_pair(rng, ty):
    """(spec a, spec b): two values of type `ty` that are neighbours"""
    if ty == 'F': a, b = near_float_pair(rng); return f'f:{a:016x}', f'f:{b:016x}'
    if ty == 'I': a, b = near_int_pair(rng); return f'i:{a}', f'i:{b}'
    if ty == 'S': a, b = near_bytes_pair(rng); return 's:' + a.hex(), 's:' + b.hex()
    k = int(ty); a, b = near_bytes_pair(rng, k, nonzero=False); return f'p{k}:' + a.hex(), f'p{k}:' + b.hex()

def near_case(rng, name, rounds):
    """nearly equal scalars — doubles 1..4 ulp apart at every magnitude, the two zeros, results of arithmetic against the literal
    (0.1 + 0.2 against 0.3); Ints 1, 2^31, 2^32, 2^63 apart; Strings and structs differing in the last byte, in case, by one
    trailing byte, across 0x7f/0x80 — compared as scalars in every allocation class, as elements of Array / List / Tuple at the
    same position, and as keys of a Table and a Tree: a key eq to a stored one is found and overwrites, any other key is absent,
    makes a second entry and can be removed again without touching the first. Self-assignment of every kind."""
    g = G(rng); L = []
    for _ in range(rounds):
        ty = rng.choice(list('FFFFIISS') + ['8', rng.choice(RAW_ANY)])
        sa, sb = near_pair(rng, ty)
        # scalars
        ia = []
        for cls in rng.sample('SHE', 2): i = g.fresh(); L.append(f'new {i} {cls} {sa}'); ia.append(i)
        ib = g.fresh(); L.append(f'new {ib} {rng.choice("SHE")} {sb}')
        ic = g.fresh(); L.append(f'new {ic} {rng.choice("SH")} {sa}')
        L += [f'eq {ia[0]} {ib}', f'eq {ib} {ia[1]}', f'eq {ia[0]} {ic}', f'eq {ia[0]} {ia[0]}']
        if rng.random() < 0.5:
            c = g.fresh(); L += [f'copy {c} {ib}', f'eq {c} {ia[0]}', f'eq {c} {ib}']
            L += [f'assign {c} {c}']
            L += [f'assign {c} {ia[1]}', f'eq {c} {ib}', f'swap {c} {ib}', f'eq {c} {ib}', f'swap {c} {ib}']
        if rng.random() < 0.3: L.append(f'assign {ia[0]} {ia[0]}')
        # the same pair as the elements at one position of two sequences
        n = rng.randrange(1, 6); pos = rng.randrange(n)
        base = [g.spec(ty) for _ in range(n)]
        xa = list(base); xa[pos] = sa; xb = list(base); xb[pos] = sb
        ka, kb, kc = (rng.choice(['arr', 'lst', 'tup']) for _ in range(3))
        ca = build_seq(g, L, ka, ty, xa, rng.choice(['ctor', 'push', 'front']))
        cb = build_seq(g, L, kb, ty, xb, rng.choice(['ctor', 'push', 'junk']))
        cc = build_seq(g, L, kc, ty, xa, rng.choice(['ctor', 'trunc']))
        L += [f'eq {ca} {cb}', f'eq {cb} {ca}', f'eq {ca} {cc}', f'heq {ca} {cb}', f'has {ca} {sa}', f'has {ca} {sb}', f'has {cb} {sa}', f'has {cb} {sb}']
        if ka != 'tup': L += [f'assign {ca} {ca}', f'eq {ca} {cc}']
        else: L += [f'assign {ca} {ca}']
        if kb != 'tup' and rng.random() < 0.5: L += [f'rem {cb} {sa}', f'H {cb}']
        # the same pair as keys
        if ty in SCALARS3 or is_raw(ty):
            for kind in ('tab', 'tre'):
                if kind == 'tre' and is_raw(ty) and ty not in RAW_TREE: continue
                vty = raw_or(rng, 'IFS', RAW_TREE if kind == 'tre' else RAW_ANY) if rng.random() < 0.5 else 'I'
                others = [k for k in {near_pair(rng, ty)[0] for _ in range(rng.randrange(0, 4))} if k not in (sa, sb)]
                if ty == 'F':      # no two eq keys among the others (the two zeros are one key)
                    seen = set(); keep = []
                    for k in others:
                        m = int(k[2:], 16); m = 0 if m << 1 & (2**64 - 1) == 0 else m
                        z = lambda s_: 0 if int(s_[2:], 16) << 1 & (2**64 - 1) == 0 else int(s_[2:], 16)
                        if m not in seen and m != z(sa) and m != z(sb): seen.add(m); keep.append(k)
                    others = keep
                es = [(k, g.spec(vty)) for k in others]
                va, vb, vc = g.spec(vty), g.spec(vty), g.spec(vty)
                ins = es + [(sa, va)]; rng.shuffle(ins)
                m = build_map(g, L, kind, ty, vty, ins, rng.choice(['ctor', 'set', 'shuffle']), allow_resize=False)
                L += [f'has {m} {sa}', f'has {m} {sb}', f'set {m} {sb} {vb}', f'has {m} {sa}', f'has {m} {sb}', f'set {m} {sa} {vc}', f'has {m} {sa}']
                ref = build_map(g, L, kind, ty, vty, es + [(sa, vc), (sb, vb)], rng.choice(['ctor', 'shuffle']), allow_resize=False)
                L += [f'heq {m} {ref}'] + ([f'eq {m} {ref}'] if kind == 'tre' else [])
                L += [f'assign {m} {m}', f'heq {m} {ref}', f'rem {m} {sb}', f'has {m} {sb}', f'has {m} {sa}', f'rem {m} {sb}']
                c = g.fresh(); L += [f'hcopy {c} {m}', f'has {c} {sa}', f'has {c} {sb}']
    return Case(name, [l for l in L if l])

def fuzz_case(rng, name, nops):
    """random op sequences over a pool (invalid combinations are refused alike by both sides)"""
    g = G(rng); L = []
    pool = {}    # id -> (kind, ety, length, cls)
    def pick(kinds=None):
        c = [i for i, v in pool.items() if kinds is None or v[0] in kinds]
        return rng.choice(c) if c else None
    for _ in range(nops):
        r = rng.random()
        if r < 0.15 or len(pool) < 4:
            ty = rng.choice(list('IFSIFS') + [rng.choice(RAW_ANY) for _ in range(7)]); i = g.fresh(); cls = rng.choice('SHE'); L.append(f'new {i} {cls} {g.spec(ty)}'); pool[i] = ('v', ty, 0, cls)
        elif r < 0.25:
            ty = rng.choice(list('IFSIFS') + [rng.choice(RAW_ANY) for _ in range(7)]); kind = rng.choice(['arr', 'lst']); i = g.fresh(); n = rng.randrange(0, 6)
            L.append(f'{kind} {i} {rng.choice("SH")} {ty}' + ''.join(' ' + g.spec(ty) for _ in range(n))); pool[i] = (kind, ty, n, 'H')
        elif r < 0.30:
            items = [j for j, v in pool.items() if v[0] == 'v']; rng.shuffle(items); items = items[:rng.randrange(0, 4)]
            i = g.fresh(); cls = rng.choice('SHH'); L.append(f'tup {i} {cls}' + ''.join(f' {j}' for j in items)); pool[i] = ('tup', '?', len(items), cls)
        elif r < 0.36:
            i = g.fresh(); kty = raw_or(rng, 'IISS', RAW_TREE); vty = raw_or(rng, 'IFS', RAW_TREE); n = rng.randrange(0, 7)
            ks = map_keys(g, kty, n, False)
            L.append(f'tre {i} H {kty} {vty}' + ''.join(f' {k} {g.spec(vty)}' for k in ks)); pool[i] = ('tre', (kty, vty), n, 'H')
        elif r < 0.55:
            c = pick(['arr', 'lst', 'tup', 'tre'])
            if c is None: continue
            kind, ety, n, cls = pool[c]
            if kind == 'tre':
                k = g.spec(ety[0]); L.append(rng.choice([f'set {c} {k} {g.spec(ety[1])}', f'rem {c} {k}', f'set {c} {k} {g.spec(ety[1])}']))
            elif kind == 'tup':
                it = pick(['v'])
                L.append(rng.choice([f'push {c} {it}', f'pop {c}', f'popat {c} {rng.randrange(-2, 4)}', f'pushat {c} {rng.randrange(-2, 4)} {it}', f'resize {c} {rng.randrange(0, 4)}']))
            else:
                sp = g.spec(ety)
                L.append(rng.choice([f'push {c} {sp}', f'push {c} {sp}', f'pop {c}', f'popat {c} {rng.randrange(-3, 6)}', f'pushat {c} {rng.randrange(-3, 6)} {sp}',
                                     f'set {c} {rng.randrange(-3, 6)} {sp}', f'rem {c} {sp}', f'resize {c} {rng.randrange(0, 8)}', f'clear {c}'] +
                                    ([f'sort {c}', f'sort {c}'] if kind == 'arr' else [])))
        elif r < 0.59:
            c = pick(['arr', 'lst', 'tre'])
            if c is None: continue
            kind, ety, n, cls = pool[c]; L.append(f'has {c} {g.spec(ety[0] if kind == "tre" else ety)}')
        elif r < 0.70:
            a, b = pick(), pick()
            if pool[a][0] in ('arr', 'lst', 'tup') and pool[b][0] == 'tre': a, b = b, a      # a sequence against a map: KF-C10-seq-map-eq
            L.append(f'eq {a} {b}')
        elif r < 0.80:
            a = pick(['v', 'arr', 'lst', 'tup', 'tre']); i = g.fresh(); L.append(f'copy {i} {a}'); pool[i] = pool[a][:3] + ('H',)
        elif r < 0.90:
            a, b = pick(['v', 'arr', 'lst', 'tup', 'tre']), pick(['v', 'arr', 'lst', 'tup', 'tre'])
            if pool[a][0] in ('arr', 'lst') and pool[b][0] == 'tup': continue                  # Array / List from a Tuple: KF-C10-assign-from-tuple
            L.append(f'assign {a} {b}')
        elif r < 0.97:
            a, b = pick(), pick()
            holds_buf = lambda v: v[0] == 'tup' or (v[0] == 'v' and v[1] == 'S')
            # a String / Tuple on the stack against one whose header allows realloc: the latter would own a foreign buffer (KF-C10-swap-foreign-buffer)
            if holds_buf(pool[a]) and holds_buf(pool[b]) and (pool[a][3] == 'S') != (pool[b][3] == 'S'): continue
            L.append(f'swap {a} {b}')
        else:
            a = pick(['v'])
            if a is not None: L.append(f'put {a} {g.spec(pool[a][1])}')
    return Case(name, L)

class C10(Spec):
    id = 'C10'; engine = 'hash'; harness = 'h_hash'; driver = 'drv_hash'
    generators = ('Hash',)
    harness_timeout = 240
    technique = ('Lean 4 proofs over an executable model of hash/cmp/assign/copy/swap whose hash_data, Float_Hash shape and container folds are '
                 'regenerated from the C source on every run; differential check of values, Table slot arrays and hashes against the real '
                 'library; independent MurmurHash64A and shadow values (equal-by-construction pairs) as the direct oracle')
    level_text = ('Extension round: hash_data is also run as a program over addressable memory — cursor d, end = d + (size & ~endMask), the loop while (d != end) with a load of loadWidth bytes and a step of loadAdvance, d[idx] in the tail switch, the signedness of d\'s element type, all five read from src/Hash.c (hashDataMem; none = the cursor stepped over end) — and proved equal to hashData of the size bytes at the address for every memory, address and size (C10_hash_data_program_is_hash_data, _is_murmur), hence a function of the byte list alone (C10_hash_data_depends_only_on_bytes, C10_hash_data_at_any_address); C10_hash_data_source_frame is about the generated frame; a cursor over signed bytes and a step unequal to the load width are refuted (C10_hash_data_signed_bytes_refuted, C10_hash_data_wide_step_refuted). The five container hashes are extracted as programs (start value, first index of the counted loop, right-hand side of the loop\'s assignment to h as an expression over h and the hashes of element / key / value: CelloGen.Hash.FoldProg), run by seqHashSrc / mapHashSrc / valHashSrc (which the driver prints) and proved equal to the folds (C10_container_hash_source), so eq implies equal hashes over the extracted programs (C10_eq_hash_source, C10_container_hash_source_perm). '
                  'Round-3 additions: valCmp mirrors the sequence Cmps against a Table/Tree (keys alone): C10_eq_hash carries the explicit hypothesis "not a sequence against a map", the full statement is refuted (C10_eq_hash_seq_map_refuted, KF-C10-seq-map-eq); objects carry the class of the memory their String/Tuple buffer lies in, swap moves it with the struct: C10_swap_exchanges (values, buffers, TypeError for unlike types), C10_swap_keeps_ownership_partial (buffers of one kind: both still own their buffer), C10_swap_foreign_buffer_refuted (KF-C10-swap-foreign-buffer); C10_swap_hashes now covers Tuples (TupleApart); assign(x,x) covers String in every class through the extracted guard of String_Assign (fix 744a45f; the old code is refuted: C10_string_assign_self_old_refuted); Array/List from a Tuple is modelled and refuted (C10_assign_from_tuple_refuted, KF-C10-assign-from-tuple). Theorems (Props/C10.lean): hash_data as extracted from src/Hash.c equals MurmurHash64A for every byte string and reads only the given '
                  'bytes; cmp = 0 implies equal hashes for Int, Float (non-NaN, incl. ±0), String, Type, plain structs and Ref/Box; the container hash is '
                  'invariant under permutation of the elements/entries, hence equal for eq sequences of any kind (Array/List/Tuple) and for Tables and '
                  'Trees a function of the abstract map independent of layout and insertion history; copy/assign yield an eq value with the same hash for '
                  'scalars, Array, List, Tuple and Tree; for Table (any layout, pairwise different keys) the copy holds a permutation of the same entries and '
                  'the same hash — robin-hood re-insertion keeps the multiset of entries — while eq(copy(t), t) itself holds only when the slot orders agree '
                  '(known finding F06, refuted on a witness); every Tree reached from the empty Tree by any history of set/rem is strictly descending, so its copy is eq, and two histories ending in the '
                  'same set of entries give eq Trees with equal hashes; '
                  'swap exchanges the two values: memswap (src/Assign.c) is extracted as a program — blocks over the remaining count (for / while (s >= k) / '
                  'if (s >= k) / while (s--)) of load-temporary, copy-across, store-temporary, cursor-advance and count-decrement statements with their widths — '
                  'that the model runs statement by statement on the bytes of the two structs; swap tests the two types first (sameStruct: TypeError otherwise, C10_swap_type_refused; SwapCompatible is exactly that test); proved: the extracted program has the shape of a swap '
                  '(C10_memswap_source_shape, about the generated definition) and every program of that shape — exchange steps of any widths closed by a '
                  'byte loop — exchanges two n-byte objects for every n and every byte type (C10_memswap_exchanges), also the correct three-stage word-wise '
                  'rewrite (C10_memswap_wordwise_exchanges); a half-word stage that does not advance its cursors is refuted exactly on the sizes 5, 6, 7 '
                  'modulo 8, whole-words-only on every size that is not a multiple of 8 (C10_memswap_stale_cursor_refuted); hence swap(a,b) exchanges values '
                  'and hashes of any two objects of one type, and sort() of an Array (the quicksort of src/Array.c, every element move a swap through that '
                  'memswap) never reads outside the Array, ends, and leaves a permutation of the elements with the same container hash, for elements of any '
                  'size (C10_sort_keeps_elements_and_hash). Elements of any width: keys, values and sequence elements are values of any size (Int, String, '
                  'plain structs of every size 1..41 bytes); the model moves an element a container already holds through an explicit memcpy on 64-bit words '
                  '(blit) with the offsets and widths the translator extracts from Tree_Rem / Tree_Alloc / Tree_Key / Tree_Val, Table_Step / '
                  'Table_Key / Table_Val / Table_Set_Move(move) / Table_Rehash / Table_Rem and Array_Step / Array_Item / Array_Pop_At / Array_Push_At; '
                  'proved for every header/key/value width: those widths cover the element (C10_move_widths_cover, about the generated definitions), '
                  'the memcpy of Tree_Rem leaves the whole in-order neighbour in the node, a slot memcpy of Table_Step and the two memcpys of '
                  'Table_Set_Move(move) carry whole slots, so Table_Set / Table_Rem / Table_Rehash / Table_New compute the slot arrays of the '
                  'entry-level Table model, and the memmoves of Array_Pop_At / Array_Push_At remove / insert exactly one element; Tree_Set and '
                  'Tree_Rem on every search-tree shape act on the iteration sequence as insertion into / removal from a strictly descending list, '
                  'and every shape reached by any history of set / rem / order-preserving relinking (the rotations) keeps the invariant '
                  '(a narrowed relocation is refuted on a witness). The model is tied to the code by the translator (constants, steps, '
                  'folds, widths) and by op files run on both.')
    level_note = ('Independence of eq / hash from address and allocation class: the model\'s hash and cmp take the value only, so this clause is true by the type of the model; its content is carried by the correspondence runs (every scalar at classes stack / heap / embedded-in-Array, containers at stack / heap, class-S Strings over a non-heap buffer, class-S Tuples over a non-heap pointer array), i.e. by testing, not by theorem. Table histories: that a Table reached by set/rem/resize holds pairwise different keys (EntryKeysDistinct, the hypothesis of C10_copy_table_hash / C10_assign_across_maps) is the robin-hood lookup invariant of C02; here it is checked on every sampled Table state of every run (table_keys_not_distinct), not proved. Trusted: Lean kernel; the regex translator g_hash.py; harness/driver comparison (testing); little-endian 8-byte load; the bit-level model '
                  'of Float_Cmp: SubSign (the sign of a - b is the sign of the real difference, no flush-to-zero) is proved for the exact arithmetic sfOps and tested for '
                  'the machine (the driver runs the extracted Float_Cmp on Lean Float and on sfOps for every pair of doubles an op file compares and '
                  'compares sub/mul/fmax/lt results). Not covered: NaN (eq(NaN,x) holds for every x — '
                  'known finding KF-C10-float-nan), nested containers in the executable model (the lifting theorems are polymorphic), Table eq '
                  'outside layout-independent tables (known finding). The Tree of this engine is a search tree of entries without colours: the '
                  'rebalancing (Tree_Set_Fix / Tree_Rem_Fix: relinking and recolouring only, no payload move — checked by the translator) is '
                  'abstracted as any order-preserving relinking, the theorems hold for every shape; the shape and balance the C code produces are '
                  'property C03 (engine tree). Element memory is modelled at word granularity (a struct whose size is not a multiple of 8 is '
                  'zero-padded to the container\'s rounded size). memswap is modelled at byte granularity; the struct of a value that is not a plain '
                  'struct (a number, a buffer pointer, the fields of a container) is followed byte by byte through the program by position only: the values change '
                  'sides when every byte does, any other outcome is reported by the driver as a mixture. Sortedness of the result of sort() is C04\'s; here: no element lost, hash kept.')
    rule = ('op files: (0) every plain-struct size 1..41 bytes (sizes that are not a whole number of words first): two different structs on the stack, on the '
            'heap and embedded in an Array swapped pairwise across the allocation classes and with themselves (oracle: values and hashes exchanged), copied, '
            'assigned, put; an Array of 2..9 such structs (descending, random, ascending, repeated) sorted and compared with the Array built in order (oracle: '
            'same multiset of elements, in order, same hash); (a) hash_data on every length 0..64 (random, constant, one-bit neighbours, all bytes >= 0x80, one '
            'byte >= 0x80 at every position, one low byte among high bytes) and random longer inputs, each hashed at every start alignment 0..7 inside a '
            'larger buffer with three kinds of neighbouring bytes and compared with an independent MurmurHash64A; '
            '(b) scalars of every type in the stack/heap/embedded allocation classes, compared pairwise, copied, assigned, put, swapped, through Ref/Box; '
            '(c) one target sequence built as Array/List/Tuple through 6 histories (constructor, push, push_at front, superset+pop_at+reserve, concat of '
            'halves, truncation+set), all pairs compared across kinds, copies, assignments, permutations, prefixes, swaps; (d) one target map built as Tree '
            'and Table through 7 histories (constructor, insertion orders, updates, extra keys removed, reserve, refill) with Int keys colliding modulo '
            '5/11/23/53 and String keys: Trees compared/copied/assigned, Tables hashed against each other and the Trees, eq/copy only for layout-independent '
            'Tables; (e) random op sequences; (f) element, key and value types of different sizes throughout (c)-(e): Int/String/Float and plain '
            'structs of every size 1..41 bytes (Tree: multiples of 8 only), narrow key with wide value, wide key with narrow value; a Tree filled '
            'in random order and emptied key by key (removals of leaves, one-child and two-children nodes: the in-order neighbour is relocated), '
            'compared after each removal with a directly built Tree, copied, assigned; a Table of such types through insertions into probe clusters, '
            'removals with back-shift, growing/shrinking rehashes and reserves, hashed against directly built Tables/Trees and its copy; '
            '(g) nearly equal values: doubles 1..4 ulp apart at every magnitude (subnormal, around every power of two, next to DBL_MAX and the infinities), '
            'the two zeros, a value and its negation, results of arithmetic against the literal (0.1+0.2 vs 0.3, 1/3*3 vs 1, 1e16+1 vs 1e16), Ints 1, 2^31, '
            '2^32, 2^63 apart, Strings and structs differing in the last byte, in case, across 0x7f/0x80, by one trailing byte — each pair compared as scalars '
            'in every allocation class (oracle: eq holds exactly for the same value, and then the hashes agree), as elements at one position of '
            'Array/List/Tuple, and as keys of a Table and a Tree (Float keys included): has = mem + get before and after set/rem of the neighbour — a key eq '
            'to a stored one is found and overwritten, a neighbour is absent, makes a second entry and is removed alone; assign(x, x) on every kind, '
            'String included in every allocation class (oracle: dump and hash unchanged); swap of two objects of different types (oracle: TypeError, nothing moved), '
            'of Strings across allocation classes (values and hashes exchanged; swapped back before any mutation), of two Strings whose buffers are both the allocator\'s followed by put on both; Arrays/Lists of '
            'such elements through removals and insertions in the middle. Every op prints the value (Table: slot array) and the hash, compared with the Lean model '
            '(which performs every element move with the width extracted from the source); the harness counts two-children removals and shifting '
            'removals on wide entries (I lines). '
            'non-trivial item = a distinct observation line of an eq/heq/copy/assign/swap/sort op that was executed (not refused), or of hash_data with len>0.')
    trusted_base = ('translate/g_hash.py generator Hash (regex over hash_data — now including the declared element type of its cursor, the mask of `end`, the width of the block load, the cursor step and the switch mask, which are data of the model; still compared as text: `h = SEED ^ (size * m)`, `while (d != end)`, the cast `(uint64_t)(d[i])` —, the loops and assignments of the five container hashes as programs; Int_Hash, Float_Hash, String_Hash, Type_Hash, the five container hashes, '
                    'the hash/cmp/assign/swap/copy defaults, Table_Primes; a recursive-descent reader of the body of memswap (guard, cursor declarations, the four '
                    'loop forms, memcpy / *a++ / p[i] statements) and the field counts of the structs swap exchanges; the size/offset expressions of Tree_Alloc/Key/Val/Rem, Table_Step/Key/Val/'
                    'Set_Move/Rehash/Rem, Array_Step/Item/Pop_At/Push_At; the position of `if (val is s->val) { return; }` in String_Assign relative to c_str, the class test and realloc)',
                    'harness/h_hash.c + lean/Driver/Hash.lean (correspondence is testing)',
                    'SubSign for the machine\'s doubles (sign of a - b = sign of the real difference): proved for the exact IEEE-754 model sfOps, which the driver tests against Lean Float on every compared pair',
                    'little-endian memcpy of 8 bytes into a uint64_t (x86-64)')
    assumptions = ('Float values are not NaN (eq(NaN, x) is true for every x: candidate known finding KF-C10-float-nan)',
                   'Table eq/copy-eq only for tables whose slot order is determined by their contents (known finding KF-C10-table-cmp, F06)',
                   'containers hold scalar elements (Int, Float, String, plain structs of 1..41 bytes); Tuples hold distinct scalar objects (a repeated object in a Tuple breaks Tuple iteration: other finding)',
                   'Tree key and value types have sizes that are multiples of 8 (Tree_Alloc does not round: known finding KF-C19-tree-misaligned-header)',
                   'copy/assign of a Table of arbitrary layout is observed through content and hashes only (hcopy/hassign): its cmp is KF-C10-table-cmp territory',
                   'growth of a List by resize is not exercised (KF-C05-list-resize-raw); a String operand that is a VIEW into the target, concat/append/print/show with an aliasing operand: KF-C16-alias-operand (assign(s, s) itself is exercised since fix 744a45f)',
                   'eq of a sequence (left) with a Table / Tree (right) is compared on the keys alone: known finding KF-C10-seq-map-eq — generated inputs put the map on the left (both sides then refuse the pair: Table_Cmp / Tree_Cmp call get(sequence, key) — IndexOutOfBoundsError / TypeError or an unrelated element; not modelled)',
                   'no operation that reallocates or frees the buffer of a heap / embedded String or Tuple while it holds the buffer of a stack one after swap: known finding KF-C10-swap-foreign-buffer (the cross-class swap itself, and everything read-only after it, is generated and checked)',
                   'assign(array or list, tuple) is not generated: known finding KF-C10-assign-from-tuple; assign(tuple, array or list) is outside the model (the Tuple then points into the container\'s storage, the model\'s Tuples hold objects of the store; checked by hand: eq, equal hashes; the aliasing is KF-C01-tuple-aliases-elements)',
                   'the value universe is Int, Float, String, Type, Ref, Box, plain structs, Array, List, Tuple, Table, Tree (the types the property quantifies over). Range, Slice, Zip, Filter, Map are iteration views, not values in the sense of C10: they declare Cmp but no Hash (hash falls back to hash_data over the struct including its cursor pointer, so eq ranges hash differently) and copy raises ValueError (Range_Assign assigns into the NULL member of the fresh object) — reported to the coordinator as an observation, not exercised',
                   'nested containers are not generated (checked by hand: copy of Array<Array<Int>>, Table<String,Array>, Tree<String,List>, List<Tuple> is eq with equal hashes; the lifting theorems C10_seq_eq_hash / C10_map_eq_hash are polymorphic in the element); swap of Type objects is refused by both sides',
                   'strings contain no NUL; hash values compared on a little-endian 64-bit platform')
    def cases(self, rng, tier, boost=1):
        quick = tier == 'quick'
        # first: every plain-struct size under swap / sort / copy / assign, the sizes that are not a whole number of words first
        # (a changed byte-wise move shows there before anywhere else); then hash_data at every length and alignment
        cs = [size_sweep_case(rng, 'sizes_odd', [n for n in SIZES_ODD_FIRST if n % 8], 1 if quick else 3),
              size_sweep_case(rng, 'sizes_words', [n for n in SIZES_ODD_FIRST if n % 8 == 0], 1 if quick else 3)]
        for i in range(boost - 1 if quick else 2 * boost): cs.append(size_sweep_case(rng, f'sizes{i}', SIZES_ODD_FIRST, 2))
        cs += align_cases(rng, quick, boost)
        cs += hashdata_cases(rng, quick, boost)
        for i in range((30 if quick else 100) * boost): cs.append(scalar_case(rng, f'scalar{i}', 30 if quick else 60))
        for i in range((40 if quick else 130) * boost): cs.append(seq_case(rng, f'seq{i}', 12 if quick else 20, 10 if quick else (24 if i % 4 else 120)))
        for i in range((40 if quick else 130) * boost): cs.append(map_case(rng, f'map{i}', 8 if quick else 12, 12 if quick else (30 if i % 4 else 110)))
        for i in range((30 if quick else 100) * boost): cs.append(tree_rem_case(rng, f'treerem{i}', 6 if quick else 10, 16 if quick else (40 if i % 4 else 120)))
        for i in range((24 if quick else 80) * boost): cs.append(table_wide_case(rng, f'tabwide{i}', 5 if quick else 8, 14 if quick else (30 if i % 4 else 120)))
        for i in range((24 if quick else 90) * boost): cs.append(near_case(rng, f'near{i}', 14 if quick else 30))
        for i in range((30 if quick else 100) * boost): cs.append(fuzz_case(rng, f'fuzz{i}', 300 if quick else 800))
        return cs
    def nontrivial_items(self, case, c_out, m_out):
        out = set()
        for l in core.lines_with('O ', c_out):
            w = l.split(' ', 2)
            if len(w) < 3: continue
            if w[1] in ('eq', 'heq', 'copy', 'assign', 'hcopy', 'hassign', 'swap', 'sort') or (w[1] == 'D' and not l.startswith('O D len=0')):
                out.add(hash(l))
        return out
    def model_selfcheck(self, case, m_out):
        """the model departs from its own reference when a Tree state is not strictly descending, a Table holds two eq keys or a
        container holds an element that does not fill the words of its type (the hypotheses the copy/assign/history/move theorems
        make about their source)"""
        for l in core.lines_with('S ', m_out):
            kv = dict(x.split('=') for x in l[2:].split() if '=' in x)
            if int(kv.get('tree_not_descending', 0)) or int(kv.get('table_keys_not_distinct', 0)) or int(kv.get('unsized_states', 0)):
                return f'invariant of the model violated on this input: {l}'
            if int(kv.get('hash_data_mem_ne_bytes', 0)):
                return f'hash_data run as the extracted program on a memory (cursor, end, loads, byte signedness) departs from hash_data over the byte string: the source frame is no longer the one of C10_hash_data_source_frame: {l}'
            if int(kv.get('float_src_ne_model', 0)):
                return f'Float_Cmp as extracted, run on the machine\'s doubles, departs from the bit-level floatCmp of the model (SubSign fails for the machine, or the source no longer compares by the sign of the difference): {l}'
            if int(kv.get('float_sf_ne_hw', 0)):
                return f'the exact IEEE-754 arithmetic sfOps of the model disagrees with the machine\'s doubles: {l}'
        return None
    def stats(self, case, c_out, m_out, acc):
        for l in core.lines_with('O ', c_out):
            w = l.split(' ')
            k = w[1] if len(w) > 1 else '?'
            acc['op_' + k] = acc.get('op_' + k, 0) + 1
            if k == 'eq':
                if ' c=0 ' in l: acc['eq_equal'] = acc.get('eq_equal', 0) + 1
                elif ' c=1 ' in l or ' c=-1 ' in l:
                    acc['eq_unequal'] = acc.get('eq_unequal', 0) + 1
                    ha = l.split(' ha=')[1].split()[0]; hb = l.split(' hb=')[1].split()[0]
                    if ha == hb: acc['unequal_same_hash'] = acc.get('unequal_same_hash', 0) + 1
            if ' ValueError ' in l or ' KeyError ' in l or ' IndexOutOfBoundsError ' in l or ' FormatError ' in l: acc['raised'] = acc.get('raised', 0) + 1
            if k in ('set', 'rem', 'tab', 'copy', 'assign', 'resize') and ' v=T:' in l:
                body = l.split('{', 1)[1].split('|', 1)
                ns = int(body[0]); acc['table_max_nslots'] = max(acc.get('table_max_nslots', 0), ns)
                for e in body[1].rstrip('}').split(','):
                    if e.count(':') >= 2:
                        slot, stored = e.split(':')[:2]
                        d = (int(slot) - (int(stored) - 1)) % ns if ns else 0
                        acc['table_max_probe'] = max(acc.get('table_max_probe', 0), d)
        for l in core.lines_with('I ', c_out):
            for kv in l[2:].split():
                if '=' in kv:
                    k, v = kv.split('='); acc[k] = acc.get(k, 0) + int(v)
        for l in core.lines_with('S ', m_out):
            for kv in l[2:].split():
                if '=' in kv:
                    k, v = kv.split('='); acc['model_' + k] = acc.get('model_' + k, 0) + int(v)

SPEC = C10()
