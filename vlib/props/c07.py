"""C07 — try / catch / throw follow block structure (engine exn)."""
import re
from ..runner import Spec, Case
from .. import core

NK = 6  # exception kinds used by harness/h_exn.c

def gen_filter(rng):
    """a filter *list* of arity 0..4. About a quarter of the filters of arity >= 2 name an object more than once (since
    fix a0ef2da exception_catch walks the filter by index: repeats terminate and match by membership; before it such a
    filter made exception_catch loop for ever — regression inputs corpus/exn_fixed_filter_dup.ops)"""
    k = rng.choice([0, 0, 1, 1, 2, 3, 4])
    if k >= 2 and rng.random() < 0.25:
        pool = rng.sample(range(NK), rng.randrange(1, k))          # fewer distinct objects than positions
        f = pool + [rng.choice(pool) for _ in range(k - len(pool))]
        rng.shuffle(f)
        return ' '.join(map(str, f))
    return ' '.join(map(str, rng.sample(range(NK), k)))

def gen_dup_case(rng):
    """a block whose filter repeats objects, asked about an exception it lists first / after the repeat / not at all, inside
    an enclosing block that does or does not list it; thrower inline, in a callee, or a rethrowing inner handler"""
    k = rng.randrange(2, 5)
    pool = rng.sample(range(NK), rng.randrange(1, k))
    f = pool + [rng.choice(pool) for _ in range(k - len(pool))]
    rng.shuffle(f)
    e = rng.choice(f + [x for x in range(NK) if x not in f]) if rng.random() < 0.6 else rng.choice([x for x in range(NK) if x not in f])
    thrower = rng.choice([f'(t {e})', f'(f (t {e}))', f'(d {rng.choice([1, 7, 30])} (t {e}))', f'(c (t {e}) ({e} {e}) (q (s 4) (r)))'])
    inner = f"(c (q (s 1) {thrower}) ({' '.join(map(str, f))}) {rng.choice(['(s 2)', '(q (s 2) (r))', f'(t {rng.randrange(NK)})'])})"
    outer_f = rng.choice(['', f'{e}', f'{e} {e}', f'{(e + 1) % NK} {(e + 1) % NK}', f'{(e + 1) % NK} {e} {(e + 1) % NK}'])
    return f'(c (q {inner} (s 5)) ({outer_f}) (s 6))'

def gen_prog(rng, depth, size, in_handler=False):
    """random program tree; returns sexp. Inside the object domain: no throw(NULL), no malformed message."""
    if size <= 1 or depth <= 0:
        r = rng.random()
        if r < 0.34: return f'(t {rng.randrange(NK)})'
        if r < 0.40: return f'(g {rng.randrange(4)})'                # a library function raises (KeyError from get, ValueError from rem)
        if r < (0.60 if in_handler else 0.44): return '(r)'          # rethrow of the bound object
        return f'(s {rng.randrange(100)})'
    r = rng.random()
    if r < 0.30:
        a = rng.randrange(1, size); return f'(q {gen_prog(rng, depth, a, in_handler)} {gen_prog(rng, depth, size - a, in_handler)})'
    if r < 0.82:
        a = rng.randrange(1, size)
        return f'(c {gen_prog(rng, depth - 1, a, in_handler)} ({gen_filter(rng)}) {gen_prog(rng, depth - 1, size - a, True)})'
    if r < 0.90: return f'(f {gen_prog(rng, depth, size - 1, in_handler)})'
    if r < 0.96: return f'(d {rng.choice([2, 3, 9, 40, 150])} {gen_prog(rng, depth, size - 1, in_handler)})'   # callee at dynamic depth
    return f'(t {rng.randrange(NK)})'

def gen_handler_chain(rng, n):
    """n blocks, each handler throwing / rethrowing into the next enclosing one; the throw comes from a callee"""
    k = rng.randrange(NK)
    p = f'(d {rng.choice([0, 1, 5, 60])} (q (s 0) (t {k})))'
    for d in range(n):
        act = rng.choice(['r', 'r', 't', 's', 'inner'])
        if act == 'r': h = f'(q (s {10 + d}) (r))'
        elif act == 't': k = rng.randrange(NK); h = f'(q (s {10 + d}) (f (t {k})))'
        elif act == 's': h = f'(s {10 + d})'
        else:  # an inner handled exception overwrites the record's object before the rethrow
            h = f'(q (c (t {rng.randrange(NK)}) ({gen_filter(rng)}) (s {50 + d})) (r))'
        p = f'(c {p} ({gen_filter(rng)}) {h})'
        if rng.random() < 0.3: p = f'(q {p} (s {30 + d}))'
    return p

def gen_reentry(rng):
    """one try site (same filter arity) entered again inside its own body; the inner activation ends, then a throw
    must reach the outer activation (a per-site static jump buffer breaks exactly this: seeded c07_f)"""
    ar = rng.randrange(0, 5)
    f1 = ' '.join(map(str, rng.sample(range(NK), ar))); f2 = ' '.join(map(str, rng.sample(range(NK), ar)))
    inner_body = rng.choice(['(s 1)', f'(t {rng.randrange(NK)})', f'(f (t {rng.randrange(NK)}))'])
    wrap = rng.choice(['{}', '(f {})', '(d 4 {})'])
    inner = wrap.format(f'(c {inner_body} ({f2}) (s 2))')
    return f'(c (q {inner} (t {rng.randrange(NK)})) ({f1}) (q (s 3) (r)))'

def enum_progs(nodes, kinds=(0, 1), filters=((), (0,), (1,), (0, 1), (0, 0)), rethrow=True):
    """every program tree with exactly `nodes` constructor nodes over the given kinds/filters (statements share tag by position)"""
    memo = {}
    def go(n):
        if n in memo: return memo[n]
        out = []
        if n == 1:
            out = ['(s 1)'] + [f'(t {k})' for k in kinds] + (['(r)'] if rethrow else [])
        else:
            for a in range(1, n - 1):
                for x in go(a):
                    for y in go(n - 1 - a):
                        out.append(f'(q {x} {y})')
                        for f in filters:
                            out.append(f"(c {x} ({' '.join(map(str, f))}) {y})")
        memo[n] = out
        return out
    return go(nodes)

def nested(depth, kind, filt_inner, filt_outer):
    """try nested `depth` deep (dynamic nesting through calls), throw at the bottom"""
    p = f'(t {kind})'
    for d in range(depth):
        f = filt_inner if d < depth - 1 else filt_outer
        p = f'(c (f (q (s {d}) {p})) ({f}) (s {1000 + d}))'
    return p


# ---- deep dynamic nesting: the capacity of the jump-buffer stack (seeded change c07_j) ---------------------------------
NEST_BOUND = 2048     # the property's nesting bound (Lean: Cello.Exn.nestBound, harness: C07_NEST_BOUND) — a fixed number,
                      # NOT read from the source under test; nothing is generated beyond it
LADDER = [1, 2, 3, 4, 5, 8, 9, 16, 17, 32, 33, 63, 64, 65, 100, 128, 129, 256, 257, 500, 512, 513, 1024, 1025, 2047, 2048]

def deep_nest(d, kind, catch_at=None, catch_filter=None, handler='(s 7)', wrap='', marks=(), also=None, pass_filter=None):
    """`d` try blocks open at the same time at the innermost point — in the harness every block body is entered through a
    recursive call of run() -> run_try<arity>(), i.e. recursion with a try/catch per level; `wrap` adds callee frames
    ('f': one per level, 'd': three every 64 levels). The innermost body throws `kind` (None: it completes). Level 1 is the
    innermost block, level d the outermost; every block passes the exception on (filter of other kinds) except level
    `catch_at` (filter `catch_filter`, default the kind itself; '' = catch-all) whose handler is `handler`, and the levels of
    `also` = {level: (filter, handler)}."""
    other = (kind + 1) % NK if kind is not None else 0
    p = f'(t {kind})' if kind is not None else '(s 1)'
    for lvl in range(1, d + 1):
        body = p
        if wrap == 'f': body = f'(f {body})'
        elif wrap == 'd' and lvl % 64 == 0: body = f'(d 3 {body})'
        if lvl in marks: body = f'(q (s {lvl % 100}) {body})'
        if lvl == catch_at:
            filt = (str(kind) if catch_filter is None else catch_filter); h = handler
        elif also and lvl in also: filt, h = also[lvl]
        else: filt = (pass_filter(lvl) if pass_filter else str(other)); h = '(s 99)'
        p = f'(c {body} ({filt}) {h})'
    return p

def deep_cases_for(rng, d):
    """the shapes run at nesting depth d (all within the nesting bound, all in the object domain, Type objects only)"""
    k = rng.randrange(NK); k2 = (k + 2) % NK; o = (k + 1) % NK
    tail = f'(c (t {k2}) ({k2}) (s 3))'                 # a construct afterwards: the depth is back where it started
    mid = max(1, d // 2)
    far = lambda lvl: ' '.join(str((k + 1 + (lvl + j) % (NK - 1)) % NK) for j in range(1 + lvl % 3))   # 1-3 other kinds
    out = []
    # thrown at the bottom, passed on by d-1 blocks, handled by the outermost (the recursion of seeded/c07_j/demo.c)
    out.append(f'(q {deep_nest(d, k, catch_at=d, wrap="f")} {tail})')
    # handled by the innermost block: the other d-1 complete normally and the depth returns to the start
    out.append(f'(q {deep_nest(d, k, catch_at=1, marks=(1, mid, d))} {tail})')
    # nothing is thrown: d blocks entered and left
    out.append(f'(q {deep_nest(d, None, marks=(d,))} (q (s 2) {tail}))')
    # nobody lists it: uncaught after d blocks
    out.append(deep_nest(d, k, pass_filter=far, wrap='d'))
    # handled in the middle (catch-all) by a handler that rethrows; the outermost block lists it among others
    if d >= 3:
        out.append(f'(q {deep_nest(d, k, catch_at=mid, catch_filter="", handler="(q (s 7) (r))", also={d: (f"{o} {k} {o}", "(s 8)")}, pass_filter=far)} {tail})')
        # the handler one level above the bottom throws another kind, caught three quarters up; a library raise at the bottom
        q3 = max(3, (3 * d) // 4)
        inner = deep_nest(d, k, catch_at=2, handler=f'(q (s 6) (f (t {k2})))', also={q3: (f'{k2}', '(q (s 5) (g 0))'), d: ('2', '(s 4)')})
        out.append(f'(q {inner} {tail})')
    # the handler of an outermost block runs at the starting depth: a tower of d fits inside it again; then twice in a row
    out.append(f'(c (t {o}) () {deep_nest(d, k, catch_at=d, catch_filter="")})')
    out.append(f'(q {deep_nest(d, k, catch_at=max(1, d - 1))} (q {deep_nest(d, k2, catch_at=1, wrap="d")} {tail}))')
    # a tower that starts inside the body of other blocks: j blocks outside, d - j inside, the same total
    if d >= 4:
        j = rng.randrange(1, d)
        inside = deep_nest(d - j, k, pass_filter=far)
        outer = inside
        for lvl in range(j):
            outer = f'(c {outer} ({k if lvl == j - 1 else o}) (s {20 + lvl % 5}))'
        out.append(f'(q {outer} {tail})')
    # every level with a filter of its own and a handler that completes / rethrows / throws another kind: the throw from
    # the innermost level is caught at whichever level the filters decide, possibly re-raised several times
    p = rng.choice([f'(t {k})', f'(f (t {k}))', f'(g {rng.randrange(2)})', f'(q (s 1) (t {k}))'])
    for lvl in range(1, d):                     # d - 1 levels here, the catch-all around them is level d
        r = rng.random()
        if r < 0.90: f, h = far(lvl), '(s 99)'
        elif r < 0.94: f, h = gen_filter(rng), '(q (s 11) (r))'
        elif r < 0.97: f, h = gen_filter(rng), f'(q (s 12) (t {rng.randrange(NK)}))'
        else: f, h = gen_filter(rng), '(s 13)'
        p = f'(c {p} ({f}) {h})'
    out.append(f'(c (q {p} (s 14)) () (s 15))')
    return out

# ---- exception objects that are not Types (harness kinds 100 + j): Strings "A","B","A","TypeError", Ints 5,7,5 ----------
NX = 7
STR_KINDS = [100, 101, 102, 103]; INT_KINDS = [104, 105, 106]; TYPE_KINDS = list(range(NK))
_CLS = ['T'] * 7 + ['S'] * 4 + ['I'] * 3
_VAL = ['TypeError', 'ValueError', 'KeyError', 'IOError', 'FormatError', 'BusyError', 'ClassError', 'A', 'B', 'A', 'TypeError', 5, 7, 5]
def _canon(k): return 7 + (k - 100) % NX if k >= 100 else k % NK
def _comparable(a, e): return (_CLS[a], _CLS[e]) in (('T', 'T'), ('S', 'S'), ('S', 'T'), ('I', 'I'))
def _lists(a, e): return _VAL[a] == _VAL[e]

def render(t):
    k = t[0]
    if k == 's': return f'(s {t[1]})'
    if k == 't': return f'(t {t[1]})'
    if k == 'r': return '(r)'
    if k == 'q': return f'(q {render(t[1])} {render(t[2])})'
    if k == 'f': return f'(f {render(t[1])})'
    if k == 'd': return f'(d {t[1]} {render(t[2])})'
    return f"(c {render(t[1])} ({' '.join(map(str, t[2]))}) {render(t[3])})"

def ref_run(t, x=0):
    """reference run of a program tree (third implementation, used only to keep generated programs out of the territory of
    KF-C07-filter-eq-raises): -> (escaping object index or None, did a filter walk meet an entry that cannot be compared
    with the arriving exception before an entry listing it)"""
    k = t[0]
    if k == 's': return None, False
    if k == 't': return _canon(t[1]), False
    if k == 'r': return x, False
    if k == 'q':
        e, c = ref_run(t[1], x)
        if e is not None or c: return e, c
        return ref_run(t[2], x)
    if k == 'f': return ref_run(t[1], x)
    if k == 'd': return ref_run(t[2], x)
    e, c = ref_run(t[1], x)
    if e is None or c: return e, c
    m = not t[2]
    for a in map(_canon, t[2]):
        if not _comparable(a, e): return e, True
        if _lists(a, e): m = True; break
    if not m: return e, False
    return ref_run(t[3], e)

def gen_obj_tree(rng, throws, filts, depth, size, in_handler=False):
    if size <= 1 or depth <= 0:
        r = rng.random()
        if r < 0.45: return ('t', rng.choice(throws))
        if in_handler and r < 0.65: return ('r',)
        return ('s', rng.randrange(100))
    r = rng.random()
    if r < 0.28:
        a = rng.randrange(1, size); return ('q', gen_obj_tree(rng, throws, filts, depth, a, in_handler), gen_obj_tree(rng, throws, filts, depth, size - a, in_handler))
    if r < 0.86:
        a = rng.randrange(1, size)
        k = rng.choice([0, 1, 1, 2, 2, 3, 4])
        f = [rng.choice(filts) for _ in range(k)]
        return ('c', gen_obj_tree(rng, throws, filts, depth - 1, a, in_handler), f, gen_obj_tree(rng, throws, filts, depth - 1, size - a, True))
    if r < 0.93: return ('f', gen_obj_tree(rng, throws, filts, depth, size - 1, in_handler))
    return ('d', rng.choice([2, 9, 40]), gen_obj_tree(rng, throws, filts, depth, size - 1, in_handler))

OBJ_POOLS = [
    ('strings', STR_KINDS, STR_KINDS),                                   # equal-valued distinct objects; bind the thrown one
    ('ints', INT_KINDS, INT_KINDS),
    ('str_entries', TYPE_KINDS + STR_KINDS, STR_KINDS),                  # String entries look at Types by name ("TypeError")
    ('mixed', TYPE_KINDS + STR_KINDS + INT_KINDS, TYPE_KINDS + STR_KINDS + INT_KINDS),   # kept only when no walk meets a clash
]
def gen_obj_prog(rng, i):
    """a program over objects of several types whose reference run meets no clash (C07_any_objects: hypothesis noClash);
    `mixed` programs may well name a Type entry and a thrown String — they are kept when that String never arrives there"""
    name, throws, filts = OBJ_POOLS[i % len(OBJ_POOLS)]
    for attempt in range(40):
        t = gen_obj_tree(rng, throws, filts, rng.randrange(1, 5), rng.randrange(2, 18 if name != 'mixed' else 12))
        if not ref_run(t)[1]: return render(t)
    return '(c (t 100) (102) (s 1))'

# ---- extension round: signals as exceptions, the uncaught-exception report -------------------------------------------
NSIG = 6
def gen_sig_prog(rng):
    """a random program tree in which some throws are `raise(signal)` with exception_signals() installed — each signal at
    most once per program (a second raise of one signal in a thread is finding KF-C07-signal-once: never generated)"""
    p = gen_prog(rng, rng.randrange(1, 6), rng.randrange(2, 30))
    sigs = rng.sample(range(NSIG), rng.randrange(1, NSIG + 1))
    parts = re.split(r'(\(t \d+\))', p)
    idx = [i for i, x in enumerate(parts) if x.startswith('(t ')]
    rng.shuffle(idx)
    for i, sg in zip(idx, sigs): parts[i] = f'(k {sg})'
    p = ''.join(parts)
    if '(k ' not in p:
        sg = sigs[0]; own = 200  # (filters cannot name the signal objects in P lines: catch-all or a Type that does not list it)
        p = f'(c (q (s 1) {rng.choice(["(k %d)", "(f (k %d))", "(d 7 (k %d))"]) % sg}) ({rng.choice(["", "0", "1 2"])}) {rng.choice(["(s 2)", "(q (s 2) (r))", p])})'
    return p

def gen_sig_hist(rng):
    """a history of try { raise(sig) } catch blocks in one thread, pairwise different signals; mode 0 catch-all, 1 the signal's
    own exception object, 2 a filter that does not list it (uncaught)"""
    sigs = rng.sample(range(NSIG), rng.randrange(1, NSIG + 1))
    return f"S {rng.choice([0, 0, 1, 1, 1, 2])} {' '.join(map(str, sigs))}"

DIAG_LENS = [0, 1, 2, 7, 31, 32, 33, 63, 64, 65, 127, 128, 129, 255, 256, 257, 511, 512, 513, 1023, 1024, 1025, 4095, 4096, 4097, 20000, 50000]
def gen_diag(rng):
    """the report of an uncaught exception: every object class (Type / String / Int / signal exception), the three message
    shapes, %s arguments of boundary lengths (the message buffer is a String that must grow: nothing is cut off)"""
    k = rng.choice(list(range(NK)) + STR_KINDS + INT_KINDS + [200 + j for j in range(NSIG)])
    shape = rng.randrange(3)
    n = rng.choice(DIAG_LENS) if rng.random() < 0.7 else rng.randrange(0, 3000)
    return f'E {k} {shape} {n if shape == 2 else 0}'

class C07(Spec):
    id = 'C07'; engine = 'exn'; harness = 'h_exn'; driver = 'drv_exn'
    generators = ('Exn',)
    technique = 'Lean 4 proof by structural induction: machine model of the macros refines structured-exception semantics; source-derived parameters regenerated each run; differential check against the real macros'
    level_text = ('Theorem C07_machine_refines_reference: for every program tree inside the stated domain (non-NULL exception objects with '
                  'well-formed messages, arbitrary catch filters — an object may be listed any number of times —, nesting within EXCEPTION_MAX_DEPTH; '
                  'C07_within_nesting_bound states it for nesting <= 2048, a fixed number, through C07_depth_capacity: 2048 <= the EXCEPTION_MAX_DEPTH read from the source, '
                  'and C07_capacity_never_reached: within that bound no program of any kind takes the overflow branch of exception_try or depends on the capacity), '
                  'every bound variable and start state, '
                  'the model of try/catch/throw (depth, active flag, jump-buffer indices, the filter walk of exception_catch by index) produces '
                  'exactly the trace of a structured-exception reference semantics — throws from bodies, callees and handlers, rethrow of the bound '
                  'object — restores the depth, never aborts, hangs or jumps to a dead buffer; C07_no_undefined_jump and C07_overflow_aborts cover '
                  'every program without those hypotheses; histories by C07_sequence_history. C07_any_objects: the same for exception objects and filter entries of type Type, String or Int '
                  'compared through the Cmp instance of the filter entry as exception_catch does, under the decidable hypothesis noClash (no walk of the reference run meets an entry that cannot '
                  'be compared with the arriving exception); inside that territory the code replaces the exception (KF-C07-filter-eq-raises: C07_mixed_type_filter_refuted, C07_clash_replaces_exception). Outside the domain the model mirrors the code and the '
                  '…_refuted theorems exhibit the departure (throw(NULL): handler skipped; malformed message: FormatError bound). The behaviour of the '
                  'code before fix a0ef2da (foreach walk: a repeated filter object makes exception_catch hang) is kept as an explicit OLD machine and '
                  'refuted on its witness (C07_foreach_walk_refuted / _hangs). '
                  'The parameters that a source change can flip (does exception_catch consume; EXCEPTION_MAX_DEPTH; the macro texts; statement '
                  'order in exception_throw; the filter loop — by index or foreach; Tuple_Get/Tuple_Len) are regenerated from /repo on every run and the theorems re-checked '
                  'against them; the machine model is tied to the real macros by running thousands of program trees on both. '
                  'Extension round: signals as exceptions — Exception_Signal\'s switch and exception_signals\' registrations are extracted as tables (C07_signal_table_current_source), '
                  'a delivered signal is a throw of the table\'s object inside program trees, and histories of try { raise(sig) } catch blocks run on the machine with the thread\'s signal mask '
                  '(runS): C07_signals_delivered_once_each (pairwise different signals: reference traces), C07_signal_second_delivery_refuted (KF-C07-signal-once), C07_signal_unblocking_repair; '
                  'Exception_Error is extracted as a statement list with segmented formats: C07_uncaught_report_current_source (for every object and message exactly the report lines, exit status 1, backtrace last); '
                  'C07_record_accessors_as_modelled (Exception_Len / _Running / _Current / _Buffer, instance registrations, the jump-or-report tests), C07_running_false_at_statement_boundaries.')
    level_note = ('Signals: each signal at most once per thread is in contract (a second raise is finding KF-C07-signal-once, modelled by the mask of runS); only raise() is exercised, not faults delivered by the kernel. The message TEXT (print_to_with) stays C14\'s matter: the report theorem quantifies over the message string. Trusted: Lean kernel; axioms propext/Quot.sound/Classical.choice at most; the regex translator for Exception.c/Tuple.c/Cello.h; the '
                  'harness/driver comparison (testing); setjmp/longjmp and process exit status are modelled. Not covered: stack '
                  'traces (Exception_Backtrace; the harness builds with CELLO_NSTRACE), Exception_Assign / Exception_Show / Exception_Del of the record, other threads (C13), exception objects on a dead stack frame, exception objects created inside the try body, exceptions raised by '
                  'library functions inside a try body (same code path, other frames), objects of types other than Type / String / Int. The message of a '
                  'throw is checked by the direct oracle in the diagnostic of an uncaught exception only (no accessor exists: KF-C07-accessors-undefined); '
                  'it is not part of the Lean state.')
    rule = ('program trees: (a) exhaustive enumeration of all trees with up to N constructor nodes over 2 exception kinds, rethrow and 5 filter '
            'lists (one with a repeated object), (b) random trees (depth<=6, size<=40, 6 kinds, filter arity 0-4 with repeated objects in about a '
            'quarter of the filters of arity >= 2, calls, callees at dynamic depth up to 150 frames, rethrow, exceptions raised by library functions — get on a '
            'missing Table key, rem of an absent Array element — inside bodies and handlers), '
            '(c) lexically nested 3-level blocks inside one C function for every throw/filter choice sampled, (d) dynamic nesting to depth '
            '200/2000 plus corpus: exactly EXCEPTION_MAX_DEPTH and one more (abort), (i) the capacity of the jump-buffer stack: a ladder of nesting depths '
            '1 … 2048 (powers of two and their neighbours, 63/64/65, 100, 500, 2047, 2048) with the recursion-with-a-try-per-level shape, and at depths 63, 64, 65, 100, 500, 2047, 2048 '
            'plus depths drawn from the seed ten shapes each: thrown at the innermost level and handled by the outermost / the innermost / a middle block whose handler rethrows / '
            'nobody (uncaught), nothing thrown (d blocks entered and left), a handler that throws another kind caught higher up and a library raise from a handler, a tower inside a '
            'handler at the starting depth, two towers in a row, a tower that starts inside j enclosing blocks, and per-level random filters and handlers (complete / rethrow / '
            'throw); every one followed by a further construct so that the restored depth is used; callee frames between the levels; none beyond the bound 2048. These are judged '
            'by a reference interpreter that has no capacity (harness, bound fixed in the harness) and by machine-vs-reference on the model side (driver, bound fixed in the model), (e) chains of handlers that throw/rethrow into the enclosing '
            'block, (f) one try site re-entered recursively, (g) blocks whose filter repeats objects, asked about an exception listed before / after '
            'the repeat / not at all, (h) programs whose thrown objects and filter entries are heap Strings (two distinct objects of equal value, one '
            'whose text is a Type\'s name) and heap Ints next to the Type objects, generated over four pools and kept when the reference run meets no '
            'entry that cannot be compared with the arriving exception (hypothesis noClash of C07_any_objects; mixed programs with a Type entry and '
            'a thrown String that never meet are kept). Message formats: three shapes (plain, %$ + literal %, 320 characters), checked in the '
            'diagnostic of every uncaught exception together with the object it names. Each runs on the real macros in a forked child under alarm(); trace, end state and '
            'depth are compared with the Lean machine and with an independent reference interpreter in C. non-trivial = the trace contains at least '
            'one handler event or the program ends fatal/abort/hang; distinct = distinct program text. (j) extension round: program trees in which some throws are raise(signal) with '
            'exception_signals() installed (each of the six signals at most once per program), histories `S` of try { raise } catch blocks in one thread over pairwise different signals with a catch-all / '
            'the signal\'s own exception object / a filter that does not list it, and reports `E` of uncaught exceptions: every object class (Type, String, Int, signal exception) x three message shapes x '
            '%s arguments of 0 … 50000 characters (boundaries around powers of two), compared byte for byte with the report the model renders from the extracted Exception_Error and with the oracle\'s own text.')
    trusted_base = ('translate/gen.py generator Exn (regex over src/Exception.c, src/Tuple.c Tuple_Get / Tuple_Len / Tuple_Iter_Next and the try / catch_in / throw macros)',
                    'harness/h_exn.c + lean/Driver/Exn.lean (correspondence is testing)',
                    'setjmp/longjmp, fork/exit status/alarm (libc) are modelled, not verified')
    assumptions = ('single thread; no return/goto out of a try body (documented misuse)',
                   'nesting bound of the property ("up to a size and nesting bound"): at most 2048 try blocks open at the same time in one thread (lexical + dynamic) — the fixed number '
                   'Cello.Exn.nestBound / C07_NEST_BOUND of the harness / NEST_BOUND of the generator, never the EXCEPTION_MAX_DEPTH of the tree under test; the theorems need '
                   'C07_depth_capacity (2048 <= the capacity read from the source: the value exception_try tests against, which must also be covered by the dimension of '
                   'struct Exception.buffers and by the memset/memcpy over it: C07_buffers_hold_capacity), the direct oracle judges every program within the bound by a reference '
                   'interpreter without capacity (an overflow abort there is oracle signature exn-capacity). Beyond the bound (2049 blocks and more) is OUTSIDE the property: the '
                   'unchanged tree does not raise an exception there but prints "Exception Buffer Overflow" and abort()s the process — modelled (C07_overflow_aborts), compared '
                   'with the model on corpus/exn_zdepth.ops, accepted by the direct oracle as "reference behaviour or clean abort with a prefix of the reference trace" (anything '
                   'else: exn-overflow), never generated',
                   'object domain (hypothesis inDomain of the theorems): exception objects and filter entries are non-NULL objects that outlive the jump; the message format has enough '
                   'arguments. C07_machine_refines_reference is about the world in which every object is a Type object with a name of its own (eq = identity; C07_type_objects_instance proves it is '
                   'that instance of C07_any_objects); C07_any_objects is about Type, String and Int objects compared the way exception_catch compares them (eq = the Cmp instance of the filter '
                   'entry) under the explicit decidable hypothesis noClash: no filter walk of the reference run reaches an entry whose type cannot be compared with the arriving exception '
                   '(Type entry / non-Type exception, String entry / Int exception, Int entry / non-Int exception) before an entry that lists it. Inside that territory eq raises ValueError / '
                   'ClassError inside exception_catch and the pending exception is replaced: finding KF-C07-filter-eq-raises (C07_mixed_type_filter_refuted, C07_clash_replaces_exception, '
                   'witness corpus/kf_c07_filter_eq_raises.ops; no generated input is in it: the generator runs its own reference interpreter and rejects such programs). '
                   'exception_object() / exception_message() are declared and documented but defined nowhere (finding KF-C07-accessors-undefined, witness corpus/kf_c07_accessors.ops, '
                   'theorem C07_exception_accessors_undefined over translator flags): the thrown message is observable only in the diagnostic of an uncaught exception. Outside inDomain (corpus/exn_domain.ops, modelled, not judged '
                   'by the direct oracle): throw(NULL) is consumed by a catch-all without running the handler, eq(arg, NULL) raises ValueError inside exception_catch; a message with too few '
                   'arguments makes exception_throw raise FormatError in place of the named object (mechanism of KF-C08-terminal-message)',
                   'signals: a signal is turned into an exception once per thread — the first raise of each of the six signals of exception_signals() is in contract, a second raise of the same signal is finding '
                   'KF-C07-signal-once (witness corpus/kf_c07_signal_once.ops, theorem C07_signal_second_delivery_refuted; generated programs and histories never repeat a signal; P lines that do are bad-op)',
                   'catch filters are arbitrary lists of such objects (no distinctness hypothesis since fix a0ef2da; generated filters repeat objects; '
                   'regression inputs corpus/exn_fixed_filter_dup.ops; the old behaviour is the model runOld, theorems C07_foreach_walk_refuted / C07_foreach_walk_hangs)')
    def cases(self, rng, tier, boost=1):
        cs = []
        quick = tier == 'quick'
        # (a) exhaustive small trees
        maxn = 5 if quick else 7
        allp = []
        for n in range(1, maxn + 1, 2):
            allp += enum_progs(n)
        if len(allp) > (6000 if quick else 60000):
            rng2 = rng; allp = allp[:2000] + rng2.sample(allp[2000:], (4000 if quick else 58000))
        for i in range(0, len(allp), 500):
            cs.append(Case(f'enum{i//500}', ['P ' + p for p in allp[i:i+500]]))
        # (i) the capacity of the jump-buffer stack: dynamic nesting up to the property's bound, judged by the reference
        # interpreter WITHOUT capacity (harness) and by machine-vs-reference on the model side (compare() below). First a ladder
        # in DESCENDING order with the simplest shape (core.ddmin drops lines from the front while the rest still fails: what is
        # left of a shrunk capacity is its lowest rung above it), then every shape of deep_cases_for at the boundary depths
        # and at a few depths drawn from the seed.
        cs.append(Case('capladder', ['P ' + deep_nest(d, d % NK, catch_at=d, wrap='f' if d % 2 else '') for d in reversed(LADDER)]))
        depths = [63, 64, 65, 100, 500, NEST_BOUND - 1, NEST_BOUND] + sorted(rng.randrange(66, NEST_BOUND - 1) for _ in range((2 if quick else 16) * boost))
        for d in depths:
            cs.append(Case(f'nest{d}', ['P ' + p for p in deep_cases_for(rng, d)]))
        # (b) random trees
        nrand = (1500 if quick else 40000) * boost
        lines = []
        for i in range(nrand):
            lines.append('P ' + gen_prog(rng, rng.randrange(1, 7), rng.randrange(1, 40)))
        for i in range(0, len(lines), 500):
            cs.append(Case(f'rand{i//500}', lines[i:i+500]))
        # (c) lexical nesting in one function
        lex = []
        for i in range((300 if quick else 5000) * boost):
            a, b, c = (rng.choice([-1, 0, 1, 2, 3]) for _ in range(3))
            lex.append(f'L {a} {b} {c} {rng.randrange(4)} {rng.randrange(4)} {rng.randrange(4)}')
        for i in range(0, len(lex), 500):
            cs.append(Case(f'lex{i//500}', lex[i:i+500]))
        # (d) deep dynamic nesting
        deep = []
        for d in ([3, 17, 200] if quick else [3, 17, 200, 1000, 2040]):
            for kind, fi, fo in [(0, '1', '0'), (0, '1', '1'), (2, '', '2'), (3, '4', '')]:
                deep.append('P ' + nested(d, kind, fi, fo))
        cs.append(Case('deep', deep))
        # (e) handler chains: throw / rethrow from handlers into the enclosing block, thrower in a callee
        ch = []
        for i in range((300 if quick else 6000) * boost):
            ch.append('P ' + gen_handler_chain(rng, rng.randrange(1, 7)))
        for i in range(0, len(ch), 500):
            cs.append(Case(f'chain{i//500}', ch[i:i+500]))
        # (f) a try site re-entered recursively
        re_ = []
        for i in range((150 if quick else 3000) * boost):
            re_.append('P ' + gen_reentry(rng))
        for i in range(0, len(re_), 500):
            cs.append(Case(f'reentry{i//500}', re_[i:i+500]))
        # (g) filters that name an object several times (the territory of the former finding KF-C07-filter-dup)
        du = []
        for i in range((300 if quick else 6000) * boost):
            du.append('P ' + gen_dup_case(rng))
        for i in range(0, len(du), 500):
            cs.append(Case(f'dupfilter{i//500}', du[i:i+500]))
        # (h) exception objects of several types (Strings, Ints next to the library's Type objects), no clash on the reference run
        ob = []
        for i in range((600 if quick else 12000) * boost):
            ob.append('P ' + gen_obj_prog(rng, i))
        for i in range(0, len(ob), 500):
            cs.append(Case(f'objects{i//500}', ob[i:i+500]))
        # (j) extension round: signals as exceptions (program leaves `(k N)`, histories `S`), the uncaught-exception report (`E`)
        sg = ['P ' + gen_sig_prog(rng) for _ in range((200 if quick else 4000) * boost)] + [gen_sig_hist(rng) for _ in range((60 if quick else 1200) * boost)]
        rng.shuffle(sg)
        for i in range(0, len(sg), 500):
            cs.append(Case(f'signals{i//500}', sg[i:i+500]))
        dg = [f'E {k} {sh} {n}' for k in (0, 101, 105, 203) for sh in (0, 1, 2) for n in ((0,) if sh != 2 else (0, 1, 255, 256, 1024, 4097))]
        dg += [gen_diag(rng) for _ in range((120 if quick else 2500) * boost)]
        for i in range(0, len(dg), 300):
            cs.append(Case(f'report{i//300}', dg[i:i+300]))
        return cs
    def compare(self, case, c_out, m_out):
        """correspondence = the harness's and the driver's O lines agree AND, wherever the hypotheses of
        C07_within_nesting_bound_any_objects hold (R line: hyp=true — object domain, no clash, nesting within the FIXED bound
        2048), the machine's O line agrees with the reference's R line. The second half is what notices a machine that follows
        a shrunk EXCEPTION_MAX_DEPTH faithfully (O lines agree: both abort) and thereby leaves the reference."""
        d = core.first_divergence(c_out, m_out)
        if d: return d
        cex = self.model_selfcheck(case, m_out)
        if cex: return (-1, '<machine and implementation agree with each other, not with the reference>', cex[:3000])
        return None
    def nontrivial_items(self, case, c_out, m_out):
        ops = [l for l in case.lines if l and not l.startswith('#')]
        obs = core.lines_with('O ', c_out)
        return {hash(op) for op, o in zip(ops, obs) if ('h' in o.split('end=')[0] or 'end=fatal' in o or 'end=abort' in o or 'end=hang' in o)}
    def stats(self, case, c_out, m_out, acc):
        for l in core.lines_with('O ', c_out):
            acc['programs'] = acc.get('programs', 0) + 1
            if l.startswith('O diag'): acc['reports'] = acc.get('reports', 0) + 1
            if 'h' in l.split('end=')[0]: acc['with_handler'] = acc.get('with_handler', 0) + 1
            e = l.split('end=')[1].split()[0] if 'end=' in l else '?'
            acc['end_' + e] = acc.get('end_' + e, 0) + 1
        for l in case.lines:
            if l.startswith('S '): acc['signal_histories'] = acc.get('signal_histories', 0) + 1
            if l.startswith('E '):
                f = l.split(); acc['report_shape' + f[2] + ('_signal' if int(f[1]) >= 200 else '')] = acc.get('report_shape' + f[2] + ('_signal' if int(f[1]) >= 200 else ''), 0) + 1
                if int(f[3]) > 1024: acc['report_long_message'] = acc.get('report_long_message', 0) + 1
            if l.startswith('P '):
                if '(r)' in l: acc['with_rethrow'] = acc.get('with_rethrow', 0) + 1
                if '(d ' in l: acc['with_deep_call'] = acc.get('with_deep_call', 0) + 1
                if '(k ' in l: acc['with_signal_leaf'] = acc.get('with_signal_leaf', 0) + 1
                if '(n)' in l or '(m ' in l: acc['out_of_domain'] = acc.get('out_of_domain', 0) + 1
                if re.search(r'[ (]10[0-6][ )]', l): acc['with_non_type_objects'] = acc.get('with_non_type_objects', 0) + 1
        for l in m_out.split('\n'):
            if l.startswith('R ') and 'nodup=false' in l: acc['with_repeated_filter_object'] = acc.get('with_repeated_filter_object', 0) + 1
            if l.startswith('R ') and 'noclash=false' in l: acc['in_clash_territory'] = acc.get('in_clash_territory', 0) + 1
            if l.startswith('R '):
                mn = re.search(r' nest=(\d+) ', l)
                if mn:
                    n = int(mn.group(1))
                    b = 'nest_le_8' if n <= 8 else 'nest_9_64' if n <= 64 else 'nest_65_512' if n <= 512 else 'nest_513_2047' if n < NEST_BOUND else 'nest_2048' if n == NEST_BOUND else 'nest_beyond_bound'
                    acc[b] = acc.get(b, 0) + 1
    def model_selfcheck(self, case, m_out):
        ls = m_out.split('\n')
        for i in range(len(ls) - 1):
            # only where the hypotheses of C07_current_source_any_objects hold (inDomain, nesting fits, noClash): hyp=true
            if ls[i].startswith('O ') and ls[i+1].startswith('R ') and 'hyp=true' in ls[i+1]:
                ot = ls[i].split('trace=')[1].split(' end=')[0]; rt = ls[i+1].split('trace=')[1].split(' exc=')[0]
                oend = ls[i].split('end=')[1].split()[0]; rexc = ls[i+1].split('exc=')[1].split()[0]
                if ot != rt or (oend == 'normal') != (rexc == 'none') or oend not in ('normal', 'fatal'):
                    return f'machine `{ls[i][:1200]}` vs reference `{ls[i+1][:1200]}`'
        return None

SPEC = C07()
