"""C07 — try / catch / throw follow block structure (engine exn)."""
from ..runner import Spec, Case
from .. import core

NK = 6  # exception kinds used by harness/h_exn.c

def gen_prog(rng, depth, size):
    """random program tree; returns sexp"""
    if size <= 1 or depth <= 0:
        r = rng.random()
        if r < 0.45: return f'(t {rng.randrange(NK)})'
        return f'(s {rng.randrange(100)})'
    r = rng.random()
    if r < 0.30:
        a = rng.randrange(1, size); return f'(q {gen_prog(rng, depth, a)} {gen_prog(rng, depth, size - a)})'
    if r < 0.85:
        a = rng.randrange(1, size)
        k = rng.choice([0, 0, 1, 1, 2, 3])
        filt = ' '.join(map(str, rng.sample(range(NK), k)))   # a filter *set*: a repeated object in a tuple is known finding F13
        return f'(c {gen_prog(rng, depth - 1, a)} ({filt}) {gen_prog(rng, depth - 1, size - a)})'
    if r < 0.95: return f'(f {gen_prog(rng, depth, size - 1)})'
    return f'(t {rng.randrange(NK)})'

def enum_progs(nodes, kinds=(0, 1), filters=((), (0,), (1,), (0, 1))):
    """every program tree with exactly `nodes` constructor nodes over the given kinds/filters (statements share tag by position)"""
    memo = {}
    def go(n):
        if n in memo: return memo[n]
        out = []
        if n == 1:
            out = ['(s 1)'] + [f'(t {k})' for k in kinds]
        else:
            for a in range(1, n - 1):
                for x in go(a):
                    for y in go(n - 1 - a):
                        out.append(f'(q {x} {y})')
                        for f in filters:
                            out.append(f"(c {x} ({' '.join(map(str, f))}) {y})")
        memo[n] = out
        return out
    return go(nodes)

def nested(depth, kind, filt_inner, filt_outer):
    """try nested `depth` deep (dynamic nesting through calls), throw at the bottom"""
    p = f'(t {kind})'
    for d in range(depth):
        f = filt_inner if d < depth - 1 else filt_outer
        p = f'(c (f (q (s {d}) {p})) ({f}) (s {1000 + d}))'
    return p

class C07(Spec):
    id = 'C07'; engine = 'exn'; harness = 'h_exn'; driver = 'drv_exn'
    generators = ('Exn',)
    technique = 'Lean 4 proof by structural induction: machine model of the macros refines structured-exception semantics; source-derived parameters regenerated each run; differential check against the real macros'
    level_text = ('Theorem C07_machine_refines_reference: for every program tree, nesting bound and start state, the model of try/catch/throw '
                  '(depth, active flag, jump-buffer indices) produces exactly the trace of a structured-exception reference semantics, restores the depth, '
                  'never aborts or jumps to a dead buffer. The parameters that a source change can flip (does exception_catch consume; EXCEPTION_MAX_DEPTH; '
                  'the macro texts) are regenerated from /repo on every run and the theorem is re-checked against them; the machine model is tied to the '
                  'real macros by running thousands of program trees (exhaustive small trees, random, lexical and deep dynamic nesting) on both.')
    level_note = ('Trusted: Lean kernel; axioms propext/Quot.sound/Classical.choice at most; the regex translator for Exception.c; the harness/driver comparison '
                  '(testing); setjmp/longjmp and process exit status are modelled. Not covered: signals-to-exceptions, stack traces, other threads (C13).')
    rule = ('program trees: (a) exhaustive enumeration of all trees with up to N constructor nodes over 2 exception kinds and 4 filter '
            'sets, (b) random trees (depth<=6, size<=40, 6 kinds, filter arity 0-3, calls), (c) lexically nested 3-level blocks inside '
            'one C function for every throw/filter choice sampled, (d) dynamic nesting to depth 200/2000. Each runs on the real '
            'macros in a forked child; trace, end state and depth are compared with the Lean machine and with an independent '
            'reference interpreter in C. non-trivial = the trace contains at least one handler event or the program ends fatal; '
            'distinct = distinct program text.')
    trusted_base = ('translate/gen.py generator Exn (regex over src/Exception.c and the try/catch_in macros)',
                    'harness/h_exn.c + lean/Driver/Exn.lean (correspondence is testing)',
                    'setjmp/longjmp, fork/exit status (libc) are modelled, not verified')
    assumptions = ('single thread; try-nesting depth within EXCEPTION_MAX_DEPTH; no return/goto out of a try body (documented misuse)',
                   'exception kinds are distinct Cello objects compared by eq')
    def cases(self, rng, tier, boost=1):
        cs = []
        quick = tier == 'quick'
        # (a) exhaustive small trees
        maxn = 5 if quick else 7
        allp = []
        for n in range(1, maxn + 1, 2):
            allp += enum_progs(n)
        if len(allp) > (6000 if quick else 60000):
            rng2 = rng; allp = allp[:2000] + rng2.sample(allp[2000:], (4000 if quick else 58000))
        for i in range(0, len(allp), 500):
            cs.append(Case(f'enum{i//500}', ['P ' + p for p in allp[i:i+500]]))
        # (b) random trees
        nrand = (1500 if quick else 40000) * boost
        lines = []
        for i in range(nrand):
            lines.append('P ' + gen_prog(rng, rng.randrange(1, 7), rng.randrange(1, 40)))
        for i in range(0, len(lines), 500):
            cs.append(Case(f'rand{i//500}', lines[i:i+500]))
        # (c) lexical nesting in one function
        lex = []
        for i in range((300 if quick else 5000) * boost):
            a, b, c = (rng.choice([-1, 0, 1, 2, 3]) for _ in range(3))
            lex.append(f'L {a} {b} {c} {rng.randrange(4)} {rng.randrange(4)} {rng.randrange(4)}')
        for i in range(0, len(lex), 500):
            cs.append(Case(f'lex{i//500}', lex[i:i+500]))
        # (d) deep dynamic nesting
        deep = []
        for d in ([3, 17, 200] if quick else [3, 17, 200, 1000, 2040]):
            for kind, fi, fo in [(0, '1', '0'), (0, '1', '1'), (2, '', '2'), (3, '4', '')]:
                deep.append('P ' + nested(d, kind, fi, fo))
        cs.append(Case('deep', deep))
        return cs
    def nontrivial_items(self, case, c_out, m_out):
        ops = [l for l in case.lines if l and not l.startswith('#')]
        obs = core.lines_with('O ', c_out)
        return {hash(op) for op, o in zip(ops, obs) if ('h' in o.split('end=')[0] or 'end=fatal' in o)}
    def stats(self, case, c_out, m_out, acc):
        for l in core.lines_with('O ', c_out):
            acc['programs'] = acc.get('programs', 0) + 1
            if 'h' in l.split('end=')[0]: acc['with_handler'] = acc.get('with_handler', 0) + 1
            e = l.split('end=')[1].split()[0] if 'end=' in l else '?'
            acc['end_' + e] = acc.get('end_' + e, 0) + 1
    def model_selfcheck(self, case, m_out):
        ls = m_out.split('\n')
        for i in range(len(ls) - 1):
            if ls[i].startswith('O ') and ls[i+1].startswith('R '):
                ot = ls[i].split('trace=')[1].split(' end=')[0]; rt = ls[i+1].split('trace=')[1].split(' exc=')[0]
                oend = ls[i].split('end=')[1].split()[0]; rexc = ls[i+1].split('exc=')[1].split()[0]
                if ot != rt or (oend == 'normal') != (rexc == 'none'):
                    return f'machine `{ls[i]}` vs reference `{ls[i+1]}`'
        return None

SPEC = C07()
