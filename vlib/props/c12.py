"""C12 — a failed operation is reported as an exception and changes nothing (engine fail)."""
from ..runner import Spec, Case
from .. import core

I64MAX, I64MIN = 2**63 - 1, -2**63
EXTREMES = [I64MAX, I64MIN, I64MAX - 1, I64MIN + 1, 2**62, -2**62, 2**32, -2**32, 2**31 - 1, -2**31, 2**31, 2**63 - 8, -2**63 + 8]
STRS = ['a', 'b', 'ab', 'abc', 'x', 'ba', 'c', '']
TYPES = ['Int', 'String', 'Array', 'List', 'Tuple', 'Table', 'Tree', 'Range', 'Slice', 'Zip', 'Plain', 'Float']


def range_len(a, b, c):
    """number of elements of range(a, b, c); step 0 has none"""
    if c == 0 or b <= a: return 0
    return (b - 1 - a) // abs(c) + 1
def range_len_ok(a, b, c):
    """Range_Len's own int64 arithmetic ((stop-1) - start, -step, … + 1) does not overflow: the ranges both sides construct"""
    if c == 0 or b <= a: return True
    return b - 1 - a <= I64MAX and c != I64MIN and range_len(a, b, c) <= I64MAX
def range_indices(a, b, c):
    """the interesting indices of range(a, b, c): both ends of [-len, len), the int64 limits, and the places where the old
    `start + step*i` left int64 (around INT64_MAX/|step| and (INT64_MAX - start)/step)"""
    n = range_len(a, b, c); out = [0, 1, -1, n - 1, n, n + 1, -n, -n - 1, -n + 1, I64MAX, I64MIN, I64MAX - 1, I64MIN + 1, 2**62, 2**62 + 1, -2**62]
    if c != 0:
        q = I64MAX // abs(c); out += [q - 1, q, q + 1, q + 2, -q, -q - 1]
        base = a if c > 0 else b - 1
        lim = (I64MAX - base) // abs(c) if c > 0 else (base - I64MIN) // abs(c)
        out += [lim - 1, lim, lim + 1, lim + 2]
    return [x for x in out if I64MIN <= x <= I64MAX]


class Gen:
    """one op file: a history of valid and invalid operations over freshly numbered objects"""
    def __init__(self, rng, max_len=8):
        self.r = rng; self.lines = []; self.next_id = 0; self.objs = {}; self.max_len = max_len

    # ---- values
    def val(self, ty):
        r = self.r
        if ty == 'int': return f'i{r.randrange(8)}' if r.random() < 0.9 else f'i{r.choice(EXTREMES)}'
        if ty == 'str': return 's' + r.choice(STRS)
        return f'p{r.randrange(4)}'
    def wrong(self, ty, allow_null=True):
        r = self.r
        c = [t for t in ('int', 'str', 'plain') if t != ty]
        if allow_null and r.random() < 0.25: return 'N'
        return self.val(r.choice(c))
    def anyval(self): return self.val(self.r.choice(['int', 'str', 'plain']))
    def index(self, n_hint=None, big=True):
        """an index token: near both ends, far out, at the int64 limits, of the wrong type, NULL"""
        r = self.r; x = r.random()
        if x < 0.62: return f'i{r.randrange(-self.max_len - 3, self.max_len + 4)}'
        if x < 0.70: return f'i{r.choice([100, -100, 1000, -1000, 65536, -65536])}'
        if x < 0.88 and big: return f'i{r.choice(EXTREMES)}'
        if x < 0.88: return f'i{r.choice([-2**63, -2**63 + 1, -2**62, -2**32, -2**31])}'
        if x < 0.94: return 's' + r.choice(STRS)
        if x < 0.97: return f'p{r.randrange(3)}'
        return 'N'

    # ---- construction
    def new(self, kind, *args, **meta):
        if self.next_id >= 64: return None
        i = self.next_id; self.next_id += 1
        self.lines.append(f'new {i} {kind} ' + ' '.join(map(str, args)))
        self.objs[i] = dict(kind=kind, **meta)
        return i
    def new_seq(self, kind=None, ty=None, alloc=None):
        r = self.r
        kind = kind or r.choice(['arr', 'lst', 'tup'])
        ty = ty or r.choice(['int', 'int', 'str', 'plain'])
        n = r.randrange(0, self.max_len)
        vals = [self.val(ty) for _ in range(n)]
        if kind == 'tup':
            alloc = alloc or r.choice(['heap', 'heap', 'stack'])
            return self.new('tup', alloc, *vals, ty=ty, alloc=alloc, homog=True)
        return self.new(kind, ty, *vals, ty=ty)
    def new_map(self, kind=None):
        r = self.r
        kind = kind or r.choice(['tab', 'tre'])
        kty = r.choice(['int', 'str']); vty = r.choice(['int', 'str'])
        n = r.randrange(0, 6)
        kv = []
        for _ in range(n): kv += [self.val(kty) if kty == 'str' else f'i{r.randrange(8)}', self.val(vty)]
        return self.new(kind, kty, vty, *kv, kty=kty, vty=vty)
    def new_str(self, alloc=None):
        r = self.r
        alloc = alloc or r.choice(['heap', 'heap', 'stack', 'static'])
        return self.new('str', alloc, 's' + ''.join(r.choice('abcx') for _ in range(r.randrange(0, 7))), alloc=alloc)

    def op(self, s): self.lines.append(s)
    def ids(self, *kinds): return [i for i, o in self.objs.items() if o['kind'] in kinds]

    # ---- one random operation on a sequence (Array / List / Tuple), valid or invalid, outside the known findings
    def seq_op(self, i):
        r = self.r; o = self.objs[i]; k = o['kind']; ty = o['ty']
        typed = k in ('arr', 'lst')
        x = r.random()
        if x < 0.05:
            # sort (Array, Tuple; a List has no Sort: ClassError) — the items of a generated sequence are of one type, so every comparison
            # answers (a Tuple of mixed types is known finding KF-C12-sort-partial: corpus witness only); assign(x, x): nothing changes
            self.op(f'sort {i}' if r.random() < 0.7 else f'assignself {i}')
        elif x < 0.16: self.op(f'get {i} {self.index()}')
        elif x < 0.30:
            # Array/List: a wrong-typed value is refused before the slot is touched; Tuple stores any pointer (not NULL here)
            v = self.val(ty) if r.random() < 0.6 else (self.wrong(ty) if typed else self.val(ty))
            self.op(f'set {i} {self.index()} {v}')
        elif x < 0.37: self.op(f'mem {i} {self.val(ty) if r.random() < 0.7 else self.wrong(ty)}')
        elif x < 0.47: self.op(f'rem {i} {self.val(ty) if r.random() < 0.7 else self.wrong(ty)}')
        elif x < 0.57:
            # push: a wrong-typed element on an Array is known finding F15 (not generated); List refuses it cleanly
            if k == 'arr': v = self.val(ty)
            elif k == 'lst': v = self.val(ty) if r.random() < 0.6 else self.wrong(ty)
            else: v = self.val(ty)
            self.op(f'{r.choice(["push", "append"])} {i} {v}')
        elif x < 0.69:
            if k == 'arr': v = self.val(ty)
            elif k == 'lst': v = self.val(ty) if r.random() < 0.7 else self.wrong(ty)
            else: v = self.val(ty)
            self.op(f'pushat {i} {v} {self.index()}')
        elif x < 0.77: self.op(f'pop {i}')
        elif x < 0.87: self.op(f'popat {i} {self.index()}')
        elif x < 0.92:
            n = r.randrange(0, self.max_len + 2)
            if k == 'lst' and ty == 'str': n = r.randrange(0, 3)     # growing a List of String creates NULL strings: excluded
            self.op(f'resize {i} {n}')
        elif x < 0.95: self.op(f'len {i}')
        elif x < 0.98:
            # concat from a sequence whose elements all have the right type, or from something that has no length
            srcs = [j for j in self.ids('arr', 'lst') if j != i and self.objs[j]['ty'] == ty and k != 'tup']   # a Tuple would alias the elements
            # Tuple into Tuple copies pointers: a source is used once and the target never becomes a source (a repeated pointer in a
            # Tuple is known finding F13 of C04/C11)
            srcs += [j for j in self.ids('tup') if j != i and self.objs[j]['ty'] == ty and not self.objs[j].get('shared') and (k != 'tup' or not o.get('shared'))]
            if srcs and r.random() < 0.7:
                j = r.choice(srcs)
                if k == 'tup': self.objs[j]['shared'] = True; o['shared'] = True
                self.op(f'concat {i} {j}')
            elif k == 'lst': self.op(f'concat {i} N')
            else: self.op(f'concat {i} {r.choice(["N", "i3", "p1"])}')
        else:
            if k == 'tup': self.op(f'assign {i} N')
            else: self.op(f'print {i} 0 Lab |')

    def map_op(self, i):
        r = self.r; o = self.objs[i]; kty, vty = o['kty'], o['vty']
        def key():
            x = r.random()
            if x < 0.75: return self.val(kty) if kty == 'str' else f'i{r.randrange(10)}'
            if x < 0.80 and kty == 'int': return f'i{r.choice(EXTREMES)}'
            return self.wrong(kty)
        x = r.random()
        if x < 0.22: self.op(f'get {i} {key()}')
        elif x < 0.52:
            v = self.val(vty) if r.random() < 0.7 else self.wrong(vty)
            self.op(f'set {i} {key()} {v}')
        elif x < 0.60: self.op(f'mem {i} {key()}')
        elif x < 0.77 or (x < 0.82 and o['kind'] != 'tab'): self.op(f'rem {i} {key()}')
        elif x < 0.82:
            # get with an address inside the table's own slot array as the key: the key object / the value object of the slot that holds
            # <k> (bad-op when no slot does).  Since fix bc940bb only the former takes Table_Get's shortcut; the value object is cast and
            # looked up like any argument (ValueError when the value type is not the key type, KeyError when it is not a key)
            k = self.val(kty) if kty == 'str' else f'i{r.randrange(8)}'
            self.op(f'{"getv" if r.random() < 0.75 else "getk"} {i} {k}')
        elif x < 0.90: self.op(f'resize {i} {r.choice([0, 1, 2, 3, 5, 8, 20, 60])}')
        elif x < 0.93: self.op(f'len {i}')
        else: self.op(r.choice([f'push {i} i1', f'pop {i}', f'pushat {i} i1 i0', f'popat {i} i0', f'concat {i} i1', f'append {i} i1', f'print {i} 0 Lq |',
                                f'sort {i}', f'assignself {i}']))

    def str_op(self, i):
        r = self.r; o = self.objs[i]
        sub = lambda: 's' + r.choice(STRS + ['a', 'b', 'c', 'bc', 'xa', 'aa'])
        x = r.random()
        if x < 0.12: self.op(f'mem {i} {r.choice([sub(), sub(), "N", "i3"])}')
        elif x < 0.30:
            # rem: present / absent substring, NULL, and an argument that has no C string (Int, Plain: ClassError since fix e60e6ec)
            self.op(f'rem {i} {r.choice([sub(), sub(), sub(), "N", "i3", "p1", "i0", self.val("int"), "p0"])}')
        elif x < 0.42: self.op(f'resize {i} {r.randrange(0, 10)}')
        elif x < 0.58: self.op(f'{r.choice(["concat", "append"])} {i} {r.choice([sub(), sub(), "N", "i3", "p1"])}')
        elif x < 0.63: self.op(f'assign {i} {r.choice([sub(), sub(), "N", "i3", "p1"])}')
        elif x < 0.66: self.op(f'assignself {i}')      # the String as its own operand: a no-op on heap, stack and static Strings (fix 744a45f)
        elif x < 0.70: self.op(f'len {i}')
        elif x < 0.76: self.op(r.choice([f'get {i} i0', f'set {i} i0 sa', f'push {i} sa', f'pop {i}', f'pushat {i} sa i0', f'popat {i} i0', f'sort {i}']))
        else:
            # print_to: succeeds, or fails at its very first segment (a later failure is known finding F29)
            pos = r.randrange(0, 4)
            y = r.random()
            if y < 0.45:
                items, args = [], []
                for _ in range(r.randrange(0, 4)):
                    t = r.choice(['L', 'D', 'S', 'Q'])
                    if t == 'L': items.append('L' + r.choice(['ab', 'q', 'xyz', '0']))
                    elif t == 'D': items.append('D'); args.append(f'i{r.choice([0, 5, -7, 123456789, I64MAX, I64MIN])}')
                    elif t == 'S': items.append('S'); args.append('s' + r.choice(STRS))
                    else: items.append('Q'); args.append(r.choice(['i42', 'sab', 'N', 's']))
                if o['alloc'] != 'heap' and items: pass     # raises ValueError at the first segment: fine
                self.op(f'print {i} {pos} {" ".join(items)} | {" ".join(args)}'.replace('  ', ' '))
            elif y < 0.65: self.op(f'print {i} {pos} {r.choice(["D", "S", "Q"])} {r.choice(["", "Lzz", "D"])} |'.replace('  ', ' '))
            elif y < 0.85: self.op(f'print {i} {pos} {r.choice(["D | sab", "D | N", "S | i4", "S | N", "D Lx | sq"])}')
            else: self.op(f'print {i} {r.randrange(0, 12)} Lend |')

    def view_op(self, i):
        r = self.r; o = self.objs[i]; k = o['kind']
        x = r.random()
        if x < 0.7:
            # every int64 index on every range / slice, step 0 included (the bounds test precedes the arithmetic since fix 81e7452)
            if k == 'rng':
                if r.random() < 0.45: self.op(f'get {i} i{r.choice(range_indices(o["start"], o["stop"], o["step"]))}')
                else: self.op(f'get {i} {self.index()}')
            elif k == 'slc':
                if r.random() < 0.25 and o['step'] != 0:
                    q = I64MAX // abs(o['step']); self.op(f'get {i} i{r.choice([q - 1, q, q + 1, -q, -q - 1, I64MAX, I64MIN])}')
                else: self.op(f'get {i} {self.index()}')
            else: self.op(f'get {i} {self.index()}')
        elif x < 0.8: self.op(f'len {i}')
        elif x < 0.85 and k == 'rng' and o.get('small'): self.op(f'mem {i} i{r.randrange(-3, 12)}')
        else: self.op(r.choice([f'set {i} i0 i0', f'rem {i} i0', f'push {i} i0', f'pop {i}', f'resize {i} 2', f'assign {i} i3', f'assign {i} N', f'concat {i} i1', f'print {i} 0 Lz |', f'sort {i}']))

    # ---- containers whose elements are containers (Array / List of Array / List / Table of Int)
    def cval(self):
        r = self.r
        return 'c' + '.'.join(str(r.randrange(0, 9)) for _ in range(r.randrange(0, 5)))
    def new_nest(self, outer=None, ek=None):
        r = self.r
        outer = outer or r.choice(['narr', 'nlst']); ek = ek or r.choice(['arr', 'lst', 'tab'])
        return self.new(outer, ek, *[self.cval() for _ in range(r.randrange(0, 5))], outer=outer, ek=ek)
    def nest_op(self, i):
        """valid operations (container sources) and the invalid ones that are atomic: every bad / wrong-typed / NULL index, empty pop,
        and a source that is not a container pushed onto a *List* (the node is linked only after its assign succeeded).  A bad source
        for `set`, or pushed onto an Array, is the territory of the assign-clears / foreach / F15 findings: corpus witnesses only."""
        r = self.r; o = self.objs[i]; lst = o['outer'] == 'nlst'
        far = lambda: f'i{r.choice([50, -50, 1000, I64MAX, I64MIN, 2**62, -2**62])}'
        x = r.random()
        if x < 0.20: self.op(f'get {i} {self.index()}')
        elif x < 0.40: self.op(f'set {i} {self.index()} {self.cval()}')
        elif x < 0.46: self.op(f'set {i} {r.choice([far(), "sab", "p1", "N"])} {r.choice(["i5", "p1", "N", self.cval()])}')   # the index is refused first
        elif x < 0.58: self.op(f'{r.choice(["push", "append"])} {i} {self.cval()}')
        elif x < 0.70: self.op(f'pushat {i} {self.cval()} {self.index()}')
        elif x < 0.74: self.op(f'pushat {i} {r.choice(["i5", "p1", "N", self.cval()])} {r.choice([far(), "sab", "N"])}')     # the position is refused first
        elif x < 0.82 and lst:
            # List: a source that is not a container is refused with the list unchanged (`Array_Assign` from an Int would crash: NULL only there)
            src = 'N' if o['ek'] == 'arr' else r.choice(['i5', 'p1', 'N', 'i0'])
            if r.random() < 0.5: self.op(f'{r.choice(["push", "append"])} {i} {src}')
            else: self.op(f'pushat {i} {src} {self.index()}')
        elif x < 0.88: self.op(f'pop {i}')
        elif x < 0.94: self.op(f'popat {i} {self.index()}')
        elif x < 0.96: self.op(f'len {i}')
        elif x < 0.98: self.op(f'resize {i} {r.randrange(0, 3)}')
        else: self.op(r.choice([f'typeof {i}', f'cast {i} Array', f'cast {i} List', f'cast {i} Table']))

    def junk_op(self, i):
        """every entry point on a pointer whose header has the freed-object / a foreign magic number: Type_Of refuses it"""
        r = self.r
        self.op(r.choice([f'get {i} i0', f'set {i} i0 i1', f'mem {i} i1', f'rem {i} sx', f'push {i} i1', f'pushat {i} i1 i0', f'pop {i}', f'popat {i} i-1',
                          f'resize {i} 3', f'len {i}', f'append {i} sab', f'assign {i} i1', f'assign {i} N', f'concat {i} i1', f'typeof {i}', f'cast {i} Int',
                          f'cast {i} Table', f'dealloc {i}', f'get {i} N', f'len {i}', f'sort {i}']))

    def misc_op(self, i):
        r = self.r; o = self.objs[i]; k = o['kind']
        if k == 'junk': return self.junk_op(i)
        if k in ('narr', 'nlst'): return self.nest_op(i)
        x = r.random()
        if x < 0.2: self.op(f'cast {i} {r.choice(TYPES)}')
        elif x < 0.3: self.op(f'typeof {i}')
        elif x < 0.45:
            if (k in ('tup', 'str', 'val')) and o.get('alloc') != 'heap': self.op(f'dealloc {i}')
            elif k in ('arr', 'lst'): self.op(f'deallocelem {i} {r.randrange(0, 3)}')
            else: self.op(f'typeof {i}')
        elif x < 0.6 and k == 'val':
            self.op(f'assign {i} {self.anyval() if r.random() < 0.8 else "N"}')
        else:
            # every class method on every kind of object: what the type does not implement raises ClassError
            self.op(r.choice([f'get {i} i0', f'set {i} i0 i1', f'mem {i} i1', f'rem {i} i1', f'push {i} i1', f'pop {i}', f'pushat {i} i1 i0',
                              f'popat {i} i0', f'resize {i} 0', f'len {i}', f'append {i} i1', f'print {i} 0 Lw |', f'sort {i}', f'assignself {i}'])
                    if k == 'val' else r.choice([f'len {i}', f'sort {i}', f'assignself {i}']))

    def null_op(self):
        r = self.r
        self.op(r.choice(['get N i0', 'set N i0 i1', 'mem N i1', 'rem N sx', 'push N i1', 'pushat N i1 i0', 'pop N', 'popat N i-1', 'resize N 3',
                          'len N', 'append N sab', 'assign N i1', 'concat N i1', 'typeof N', 'cast N Int', 'cast N Table', 'dealloc N', 'sort N',
                          'assignself N']))


def random_range(r):
    """start, stop, step of a Range: small ones, step 0, huge steps, and ranges next to either int64 limit — every triple for which
    Range_Len itself does not overflow"""
    while True:
        x = r.random()
        if x < 0.40:
            a = r.randrange(-3, 4); b = a + r.randrange(-2, 12); c = r.choice([1, 1, 2, 3, -1, -2, -3])
        elif x < 0.55:
            a = r.randrange(-3, 4); b = a + r.randrange(-2, 12); c = 0
        elif x < 0.65:
            a = r.randrange(-5, 6); b = a + r.randrange(0, 40); c = r.choice([2**31, -2**31, 2**40, -2**40, 2**62, -2**62, I64MAX, I64MIN + 1, 2**32 + 1])
        elif x < 0.78:
            b = I64MAX - r.randrange(0, 4); a = b - r.randrange(0, 30); c = r.choice([1, 2, 3, 7, -1, -2, -5, 0])
        elif x < 0.90:
            a = I64MIN + r.randrange(0, 4); b = a + r.randrange(0, 30); c = r.choice([1, 2, 3, 7, -1, -2, -5, 0])
        else:
            a, b = r.choice([(0, I64MAX), (I64MIN, -1), (-2**62, 2**62 - 1), (1, I64MAX), (I64MIN, 0), (-5, I64MAX - 7), (I64MIN, I64MAX), (I64MAX, I64MIN)])
            c = r.choice([1, -1, 2, 2**32, -2**32, 2**62, I64MAX, I64MIN + 1, 0, 3])
        if range_len_ok(a, b, c): return a, b, c


def history(rng, family, nops, max_len=8):
    g = Gen(rng, max_len)
    r = rng
    if family == 'seq':
        for _ in range(r.randrange(4, 9)): g.new_seq()
        g.new_seq('arr', 'int'); g.new_seq('lst', 'int'); g.new_seq('tup', 'int', 'stack'); g.new_seq('tup', 'int', 'heap')
        pick = lambda: g.seq_op(r.choice(g.ids('arr', 'lst', 'tup')))
    elif family == 'map':
        for _ in range(r.randrange(3, 7)): g.new_map()
        g.new_map('tab'); g.new_map('tre')
        pick = lambda: g.map_op(r.choice(g.ids('tab', 'tre')))
    elif family == 'str':
        for _ in range(r.randrange(3, 6)): g.new_str()
        g.new_str('heap'); g.new_str('stack'); g.new_str('static')
        pick = lambda: g.str_op(r.choice(g.ids('str')))
    elif family == 'nest':
        for outer in ('narr', 'nlst'):
            for ek in ('arr', 'lst', 'tab'): g.new_nest(outer, ek)
        for _ in range(r.randrange(2, 6)): g.new_nest()
        pick = lambda: g.nest_op(r.choice(g.ids('narr', 'nlst')))
    elif family == 'view':
        bases = [g.new_seq(r.choice(['arr', 'lst', 'tup']), 'int', 'heap') for _ in range(4)]
        for _ in range(9):
            a, b, c = random_range(r)
            g.new('rng', a, b, c, start=a, stop=b, step=c, small=all(abs(v) <= 1000000 for v in (a, b, c)))
        for _ in range(6):
            st = r.choice([1, 1, 2, -1, -2, 3, 0, 0, 1000000, -1000000])
            g.new('slc', r.choice(bases), r.randrange(-4, 6), r.randrange(-4, 10), st, step=st)
        for _ in range(4): g.new('zip', r.choice(bases), r.choice(bases))
        def pick():
            if r.random() < 0.12: g.seq_op(r.choice(bases))       # the iterables under the views change too
            else: g.view_op(r.choice(g.ids('rng', 'slc', 'zip')))
    else:  # misc
        g.new_seq('arr', 'int'); g.new_seq('lst', 'str'); g.new_seq('tup', 'int', 'stack'); g.new_seq('tup', 'int', 'heap')
        g.new_map('tab'); g.new_map('tre'); g.new_str('heap'); g.new_str('stack'); g.new_str('static')
        g.new('rng', 0, 5, 1, start=0, stop=5, step=1, small=True)
        for al in ('heap', 'stack', 'static'):
            g.new('val', al, f'i{r.randrange(9)}', alloc=al); g.new('val', al, f'p{r.randrange(4)}', alloc=al)
        g.new('junk', 'dead'); g.new('junk', 'bad'); g.new_nest('narr', 'lst'); g.new_nest('nlst', 'tab')
        def pick():
            if r.random() < 0.25: g.null_op()
            else: g.misc_op(r.choice(list(g.objs)))
    for _ in range(nops):
        pick()
        # replace exhausted objects now and then so that histories restart from fresh states
        if family in ('seq', 'map', 'str', 'nest') and r.random() < 0.01 and g.next_id < 60:
            (g.new_seq if family == 'seq' else g.new_map if family == 'map' else g.new_str if family == 'str' else g.new_nest)()
    return g.lines


def boundary_sweep():
    """every index from -n-2 to n+1 and the int64 limits, at every size 0..5, for every index-taking op of every sequence type"""
    lines = []; nid = [0]
    def fresh(kind, n, alloc='heap'):
        i = nid[0]; nid[0] += 1
        vals = ' '.join(f'i{10 + k}' for k in range(n))
        lines.append(f'new {i} {kind} {"int" if kind != "tup" else alloc} {vals}'.rstrip())
        return i
    out = []
    for kind in ('arr', 'lst', 'tup'):
        for n in range(0, 5):
            for opn in ('get', 'set', 'popat', 'pushat'):
                lines = []; nid = [0]
                idxs = sorted(set(list(range(-n - 2, n + 3)) + [-2 * n, -2 * n - 1, -2 * n - 2])) + [I64MAX, I64MIN, I64MAX - 1, I64MIN + 1, 2**62, -2**62, 2**32, 2**32 + 1, -2**32]
                for ix in idxs:
                    if nid[0] >= 63: break
                    i = fresh(kind, n)
                    if opn == 'get': lines.append(f'get {i} i{ix}')
                    elif opn == 'set': lines.append(f'set {i} i{ix} i99')
                    elif opn == 'popat': lines.append(f'popat {i} i{ix}')
                    else: lines.append(f'pushat {i} i99 i{ix}')
                    lines.append(f'len {i}'); lines.append(f'get {i} i0')
                out.append(Case(f'sweep_{kind}_{n}_{opn}', lines))
    return out


def range_sweep():
    """Range / Slice get at both ends of [-len, len), at the int64 limits and where `start + step*i` leaves int64, for ranges with
    positive / negative / zero / huge steps and ranges next to the int64 limits; each get is followed by len and a valid get"""
    out = []
    ranges = [(0, 5, 1), (0, 5, 0), (3, 3, 0), (0, 10, 2), (0, 10, -3), (1, 5, 1), (5, 1, 1), (-3, 4, 2), (0, 1, I64MAX), (0, 100, 2**62),
              (0, 100, -2**62), (I64MAX - 7, I64MAX, 3), (I64MAX - 7, I64MAX, -2), (I64MAX - 1, I64MAX, 1), (I64MIN, I64MIN + 10, -4),
              (I64MIN, I64MIN + 10, 4), (I64MIN, I64MIN + 1, 1), (0, I64MAX, 1), (0, I64MAX, -1), (I64MIN, -1, 1), (-2**62, 2**62 - 1, 1),
              (-5, I64MAX - 7, I64MAX), (I64MIN, 0, I64MIN + 1), (0, I64MAX, 2**32), (I64MIN, I64MAX, 0), (I64MAX, I64MIN, 1), (7, 7, -1)]
    # several objects per op file (one process pair per file): 9 ranges / 6 slices each
    for g0 in range(0, len(ranges), 9):
        lines = []
        for j, (a, b, c) in enumerate(ranges[g0:g0 + 9]):
            assert range_len_ok(a, b, c)
            lines += [f'new {j} rng {a} {b} {c}', f'len {j}']
            for ix in range_indices(a, b, c):
                lines += [f'get {j} i{ix}', f'len {j}', f'get {j} i0']
            lines += [f'get {j} sx', f'get {j} p1', f'get {j} N', f'set {j} i0 i0', f'rem {j} i0', f'len {j}']
        out.append(Case(f'sweep_rng_{g0 // 9}', lines))
    slices = [(n, a, b, c) for n in (0, 1, 4) for (a, b, c) in [(0, 4, 1), (0, 4, 0), (1, 9, 2), (0, 4, -1), (-3, -1, 1), (0, 9, 1000000), (0, 9, -1000000), (2, 2, 0)]]
    for g0 in range(0, len(slices), 6):
        lines = []
        for j, (n, a, b, c) in enumerate(slices[g0:g0 + 6]):
            A, S = 2 * j, 2 * j + 1
            vals = ' '.join(f'i{10 + k}' for k in range(n))
            lines += [f'new {A} arr int {vals}'.rstrip(), f'new {S} slc {A} {a} {b} {c}', f'len {S}']
            q = I64MAX // abs(c) if c else 0
            for ix in list(range(-n - 2, n + 3)) + [I64MAX, I64MIN, I64MAX - 1, I64MIN + 1, 2**62 + 1, q, q + 1, -q - 1]:
                lines += [f'get {S} i{ix}', f'len {S}', f'len {A}']
        out.append(Case(f'sweep_slc_{g0 // 6}', lines))
    for alloc in ('heap', 'stack', 'static'):
        lines = [f'new 0 str {alloc} sabcab']
        for a in ('i0', 'i5', f'i{I64MAX}', f'i{I64MIN}', 'p0', 'p1', 'N', 'sq', 'sca', 's', 'i3', 'sab', 'p2', 'sab', 'sab'):
            lines += [f'rem 0 {a}', 'len 0']
        out.append(Case(f'sweep_str_rem_{alloc}', lines))
    return out


# ---- refused operations at every container size, in particular at every growth / shrink threshold of the backing store
TABLE_PRIMES = [0, 1, 5, 11, 23, 53, 101, 197, 389, 683, 1259]
def table_ideal(n):
    """Table_Ideal_Size(n): the first prime of Table_Primes not below (n+1)/0.9"""
    s = (n + 1) * 10 // 9
    return next(p for p in TABLE_PRIMES if p >= s)
def growth_thresholds(limit):
    """item counts at which the next insertion makes the table grow (4 in 5 slots, 9 in 11, 20 in 23, 47 in 53, 90 in 101, …)"""
    return [n for n in range(1, limit + 1) if table_ideal(n + 1) > table_ideal(n)]
def battery_sizes(top, full_upto):
    """the sizes at which the refused operations are fired: every size up to `full_upto`, and each threshold ± 1 up to `top`"""
    s = set(range(0, min(top, full_upto) + 1))
    for t in growth_thresholds(top): s |= {x for x in (t - 1, t, t + 1) if 0 <= x <= top}
    return s

def _tok(ty, k): return f'i{k}' if ty == 'int' else f'sk{k}'
def _wrong(r, ty): return r.choice(['sx', 'p1', 'sk1'] if ty == 'int' else ['i3', 'p1', 'i0'])

def map_battery(r, i, kind, kty, vty, present, absent):
    """every kind of refusal of a Table / Tree that holds the keys `present`: wrong-typed key, wrong-typed value (for a new and for a
    stored key), NULL key, NULL value, absent key (get / rem), wrong-typed key of get / mem / rem, a resize the container cannot
    honour, members it lacks; then the length and one valid lookup"""
    n = len(present); newk = _tok(kty, r.choice(absent)); gone = _tok(kty, r.choice(absent)); v = _tok(vty, r.randrange(100))
    some = _tok(kty, r.choice(present)) if present else newk
    ops = [f'set {i} {_wrong(r, kty)} {v}', f'set {i} {newk} {_wrong(r, vty)}', f'set {i} {some} {_wrong(r, vty)}', f'set {i} N {v}', f'set {i} {newk} N',
           f'get {i} {gone}', f'get {i} {_wrong(r, kty)}', f'get {i} N', f'rem {i} {gone}', f'rem {i} {_wrong(r, kty)}', f'rem {i} N', f'mem {i} {_wrong(r, kty)}']
    if kind == 'tre': ops.append(f'resize {i} {r.choice([1, min(n + 1, 64), 60])}')  # a Tree cannot be resized at all
    elif n >= 2: ops.append(f'resize {i} {r.randrange(1, min(n, 65))}')              # a Table not below its item count
    ops.append(r.choice([f'push {i} i1', f'pop {i}', f'pushat {i} i1 i0', f'popat {i} i0', f'concat {i} i1', f'append {i} i1', f'sort {i}']))
    r.shuffle(ops)
    ops.append(f'len {i}')
    if present: ops += [f'get {i} {some}', f'mem {i} {some}']
    return ops

def map_refusals(r, kind, kty, vty, top, full_upto):
    """one Table / Tree walked up to `top` items by set and down again by rem; the battery at every size of `battery_sizes`, in both
    directions (the slot count at a given size differs on the way down), and after explicit resizes at the top"""
    sizes = battery_sizes(top, full_upto)
    keys = r.sample(range(0, 4 * top + 8), top); absent = [k for k in range(0, 4 * top + 8) if k not in keys][:40]
    start = r.choice([0, 0, min(4, top), min(9, top)])        # `new` with pairs: the slot count is Table_Ideal_Size(number of pairs)
    lines = [f'new 0 {kind} {kty} {vty} ' + ' '.join(f'{_tok(kty, k)} {_tok(vty, k)}' for k in keys[:start])]
    lines[0] = lines[0].rstrip()
    present = list(keys[:start])
    if start in sizes: lines += map_battery(r, 0, kind, kty, vty, present, absent)
    for k in keys[start:]:
        lines.append(f'set 0 {_tok(kty, k)} {_tok(vty, k)}'); present.append(k)
        if len(present) in sizes: lines += map_battery(r, 0, kind, kty, vty, present, absent)
    if kind == 'tab':
        for n in (top, top + 1, 2 * top):
            if n <= 64: lines.append(f'resize 0 {n}'); lines += map_battery(r, 0, kind, kty, vty, present, absent)
    order = list(present); r.shuffle(order)
    for k in order:
        lines.append(f'rem 0 {_tok(kty, k)}'); present.remove(k)
        if len(present) in sizes: lines += map_battery(r, 0, kind, kty, vty, present, absent)
    lines.append('resize 0 0'); lines += map_battery(r, 0, kind, kty, vty, [], absent)   # no slots at all
    lines.append(f'set 0 {_tok(kty, keys[0])} {_tok(vty, 1)}'); lines += map_battery(r, 0, kind, kty, vty, [keys[0]], absent)
    return lines

def seq_battery(r, i, kind, ty, alloc, n):
    """every kind of refusal of an Array / List / Tuple of n items of type `ty` outside the known findings: indices one past either end,
    far out, at the int64 limits, of the wrong type, NULL (get / set / pop_at / push_at); a wrong-typed value stored at a valid index
    (Array, List); a wrong-typed element pushed onto a List; an absent or wrong-typed element removed; pop of an empty container; every
    reallocating member of a Tuple that is not on the heap; a Tuple resize that would grow it"""
    good = _tok(ty, r.randrange(100)) if ty != 'plain' else f'p{r.randrange(4)}'
    wrong = r.choice(['sx', 'p1'] if ty == 'int' else ['i3', 'p1'] if ty == 'str' else ['i3', 'sx'])
    far = r.choice([n + 7, -n - 9, 1000, -65536, I64MAX, I64MIN, I64MAX - 1, I64MIN + 1, 2**62, -2**62, 2**32, -2**31])
    ops = [f'get {i} i{n}', f'get {i} i{-n - 1}', f'get {i} i{far}', f'get {i} {r.choice(["sx", "p1", "N"])}',
           f'set {i} i{n} {good}', f'set {i} i{-n - 1} {good}', f'set {i} {r.choice(["sx", "N"])} {good}',
           f'popat {i} i{n}', f'popat {i} i{-n - 1}', f'popat {i} {r.choice(["sx", "p1", "N", f"i{far}"])}',
           f'pushat {i} {good} i{n + 1 if kind != "tup" else n}', f'pushat {i} {good} i{-n - 2 if kind == "arr" else -n - 1}', f'pushat {i} {good} {r.choice(["sx", "N", f"i{far}"])}']
    if n == 0: ops.append(f'pop {i}')
    # the band a second `i = i < 0 ? nitems+i : i` would fold back into range: [-2n, -(n+1)] — both ends, one inside, one below it
    band = sorted({-2 * n, -2 * n - 1, -n - 1 - (n // 2), -n - 2}) if n > 0 else [-1, -2]
    opn = r.choice(['get', 'set', 'popat', 'pushat'])
    for b in band:
        ops.append(f'set {i} i{b} {good}' if opn == 'set' else f'pushat {i} {good} i{b - (1 if kind == "arr" else 0)}' if opn == 'pushat' else f'{opn} {i} i{b}')
    ops.append(f'set {i} i{-2 * n if n else -1} {good}')
    if kind in ('arr', 'lst'):
        if n > 0: ops += [f'set {i} i{r.randrange(n)} {wrong}', f'set {i} i{-1} N', f'rem {i} {wrong}', f'mem {i} {wrong}']
        ops.append(f'rem {i} {_tok(ty, 1000) if ty != "plain" else "p1000"}')
        if kind == 'lst': ops += [f'push {i} {wrong}', f'append {i} N', f'pushat {i} {wrong} i0', f'concat {i} N']
        ops.append(f'print {i} 0 Lab |')      # (a refused concat ends the history of an Array on both sides: territory of F15)
    else:
        ops.append(f'rem {i} {_tok(ty, 1000)}')
        ops += [f'assign {i} N', f'resize {i} {n + r.randrange(0, 3)}' if alloc == 'heap' else f'resize {i} {r.randrange(0, n + 2)}']
        if alloc != 'heap':
            ops += [f'push {i} {good}', f'append {i} {good}', f'concat {i} N']
            if n > 0: ops += [f'pop {i}', f'popat {i} i0', f'popat {i} i-1', f'pushat {i} {good} i0', f'rem {i} {_tok(ty, 500 + n - 1)}']
    r.shuffle(ops)
    ops.append(f'len {i}')
    if n > 0: ops.append(f'get {i} i{r.randrange(-n, n)}')
    return ops

def seq_refusals(r, kind, ty, top, alloc='heap'):
    """an Array / List / heap Tuple walked up to `top` items by push and down again by pop (Array: across every capacity boundary of
    Array_Reserve_More / Array_Reserve_Less), the battery at every size; a Tuple that is not on the heap: one object per size"""
    lines = []
    val = lambda k: _tok(ty, k) if ty != 'plain' else f'p{k % 1000}'
    if kind == 'tup' and alloc != 'heap':
        for n in range(0, min(top, 12) + 1):
            lines.append((f'new {n} tup {alloc} ' + ' '.join(val(500 + k) for k in range(n))).rstrip())
            lines += seq_battery(r, n, kind, ty, alloc, n)
        return lines
    start = r.choice([0, 0, 3, 8]) if top >= 8 else 0
    lines.append((f'new 0 {kind} {ty if kind != "tup" else alloc} ' + ' '.join(val(500 + k) for k in range(start))).rstrip())
    n = start
    lines += seq_battery(r, 0, kind, ty, alloc, n)
    while n < top:
        lines.append(f'{r.choice(["push", "append"])} 0 {val(500 + n)}' if r.random() < 0.8 else f'pushat 0 {val(500 + n)} i{r.randrange(0, n + 1) if kind == "arr" or n == 0 else r.randrange(0, n)}')
        if lines[-1].startswith('pushat') and kind == 'tup' and n == 0: lines[-1] = f'push 0 {val(500)}'
        n += 1
        lines += seq_battery(r, 0, kind, ty, alloc, n)
    if kind == 'arr':
        for m in (top + 3, top):                      # Array_Resize: capacity exactly m
            lines.append(f'resize 0 {m}'); lines += seq_battery(r, 0, kind, ty, alloc, n)
    while n > 0:
        lines.append(f'pop 0' if r.random() < 0.7 else f'popat 0 i{r.randrange(-n, n)}'); n -= 1
        lines += seq_battery(r, 0, kind, ty, alloc, n)
    return lines

def str_battery(r, i, alloc, n):
    sub = 's' + r.choice(['q', 'zz', 'qa', 'w9'])       # the texts are made of a, b, c, x: never present
    ops = [f'rem {i} {sub}', f'rem {i} N', f'rem {i} {r.choice(["i3", "p1", "i0"])}', f'concat {i} {r.choice(["N", "i3", "p1"])}', f'append {i} {r.choice(["N", "i3", "p1"])}',
           f'assign {i} {r.choice(["N", "i3", "p1"])}', f'mem {i} N', f'print {i} {r.randrange(0, n + 1)} {r.choice(["D |", "S |", "D | sab", "S | i4", "D | N", "Q |"])}',
           r.choice([f'get {i} i0', f'set {i} i0 sa', f'push {i} sa', f'pop {i}', f'pushat {i} sa i0', f'popat {i} i0', f'sort {i}'])]
    if alloc != 'heap':
        ops += [f'resize {i} {r.randrange(0, n + 3)}', f'concat {i} sab', f'append {i} sa', f'assign {i} sq', f'print {i} 0 Lab |', f'dealloc {i}']
    r.shuffle(ops)
    ops += [f'len {i}', f'mem {i} sa']
    return ops

def str_refusals(r, alloc, top):
    """Strings of every length 0..top (heap: one String grown by append and cut back by resize; stack / static: one object per length)"""
    lines = []
    if alloc != 'heap':
        for n in range(0, min(top, 14) + 1):
            lines.append(f'new {n} str {alloc} s' + ''.join(r.choice('abcx') for _ in range(n)))
            lines += str_battery(r, n, alloc, n)
        return lines
    lines.append('new 0 str heap s'); n = 0
    lines += str_battery(r, 0, alloc, 0)
    while n < top:
        t = ''.join(r.choice('abcx') for _ in range(r.choice([1, 1, 2, 3]))); lines.append(f'{r.choice(["append", "concat"])} 0 s{t}'); n += len(t)
        lines += str_battery(r, 0, alloc, n)
    while n > 0:
        n = max(0, n - r.choice([1, 2, 5])); lines.append(f'resize 0 {n}')
        lines += str_battery(r, 0, alloc, n)
    return lines

def refusal_sweep(rng, quick, boost=1):
    """directed cases: refused operations at every size of every container kind (see the docstrings above)"""
    r = rng; out = []
    reps = 1 if quick else 4 * boost
    if boost > 1 and quick: reps = boost
    for k in range(reps):
        types = [('int', 'int'), ('str', 'int'), ('int', 'str'), ('str', 'str')]
        for j, (kty, vty) in enumerate(types):
            deep = (j == k % 4) or not quick           # one key / value typing per run goes up to 91 items (thresholds 4, 9, 20, 47, 90)
            top = 180 if (not quick and j == k % 4) else 91 if deep else 22      # thorough: one typing per repetition also crosses 177 / 197
            out.append(Case(f'refuse_tab_{kty}_{vty}_{k}', map_refusals(r, 'tab', kty, vty, top, 24 if j == k % 4 or not quick else 10)))
            out.append(Case(f'refuse_tre_{kty}_{vty}_{k}', map_refusals(r, 'tre', kty, vty, 24 if deep else 10, 24)))
        for ty in ('int', 'str', 'plain'):
            out.append(Case(f'refuse_arr_{ty}_{k}', seq_refusals(r, 'arr', ty, 30 if ty == 'int' or not quick else 12)))
            out.append(Case(f'refuse_lst_{ty}_{k}', seq_refusals(r, 'lst', ty, 12)))
        for alloc in ('heap', 'stack'):
            out.append(Case(f'refuse_tup_{alloc}_{k}', seq_refusals(r, 'tup', r.choice(['int', 'str']), 12, alloc)))
        for alloc in ('heap', 'stack', 'static'):
            out.append(Case(f'refuse_str_{alloc}_{k}', str_refusals(r, alloc, 20)))
    return out


class C12(Spec):
    id = 'C12'; engine = 'fail'; harness = 'h_fail'; driver = 'drv_fail'
    generators = ('Fail', 'Disp')      # CelloGen.Fail: check / mutation order profile of the mirrored functions; CelloGen.Disp: declaration matrix
    harness_timeout = 600
    # NULL + 0 in Table_Get on a table without slots (`(char*)t->data + t->nslots * step`, data == NULL, nslots == 0) is flagged by
    # UBSan's pointer-overflow check in C mode although no platform misbehaves on it: that one check is switched off (reported).
    harness_flags = ('-fno-sanitize=pointer-overflow',)
    technique = ('Lean 4 proofs over an executable model of the argument validation and mutation order of every fallible container / '
                 'value operation (index arithmetic on BitVec 64); translator link: the check / mutation order profile of the 71 mirrored C functions '
                 'and the declaration matrix are regenerated from the sources on every run and are what theorems are stated about; the index prologues '
                 '(every statement that gives `i` its value in front of the IndexOutOfBoundsError guard, and the guard) of 9 functions are extracted as terms, '
                 'evaluated with the C typing on BitVec 64 and proved equal to the model for every item count and key; every throw site (exception, message format, '
                 'arguments) is extracted and the message of index / empty-pop refusals is rendered from it and compared with current(Exception)->msg; '
                 'white-box differential check of the model against the real library; '
                 'independent reference + before/after dump oracle in C under ASan/UBSan, risky calls probed in a forked child; '
                 'around every refused call a snapshot of the representation the caller can observe (len, values through get, iteration order, '
                 'the addresses handed out by get / iteration / c_str, capacity / slot count and backing block) is compared')
    level_text = ('Theorems over the executable model lean/Cello/Fail.lean (no sorry): C12_failure_atomic — for every store of objects (Array, List, '
                  'heap and stack Tuple, Table, Tree, heap/stack/static String, Range, Slice, Zip, plain Int/Plain values), every object and every '
                  'operation outside the territories of the known findings, an operation that raises leaves the observable state of every object '
                  'unchanged (C12_failure_atomic_exact: the very same store, unless the object is a slot-less Table or a Slice); per type '
                  'C12_failure_atomic_<type> and C12_raises_exactly_<type>: the exception raised is exactly the one a declarative specification '
                  'documents for exactly the invalid arguments (index outside [-len, len) for every 64-bit index incl. INT64_MIN/MAX through the '
                  'size_t/int64_t conversions — C12_index_raises_exactly on BitVec 64; Range_Get for every int64 start/stop/step (step 0 included) whose '
                  'Range_Len does not overflow and every int64 index, with every signed operation of the model carrying an overflow test that the '
                  'theorem shows never fires inside the bounds test — C12_raises_exactly_range, C12_range_get_value, C12_range_get_arith_in_int64, '
                  'C12_range_step0_refuses_all; empty pop; absent key / element / substring; wrong-typed or '
                  'NULL key, value, element, index; unimplemented class or member; non-heap Tuple/String for a reallocating operation; unsupported '
                  'resize; too few / wrong-typed print_to arguments; dealloc of a non-heap object; calls on NULL); C12_then_usable: after a failed '
                  'operation every further operation on every object behaves as on the original store; C12_invariant_*: the typing / slot invariants '
                  'the theorems assume are preserved along every history. Containers whose elements are containers (Array/List of Array/List/Table): '
                  'C12_failure_atomic_nest / C12_raises_exactly_nest / C12_invariant_nest, with the assign-clears / foreach / F15 findings reached through '
                  'set and push as an explicit territory (Nest.kf) and C12_nest_set_refuted / C12_nest_push_refuted. Dispatcher: C12_null_call and '
                  'C12_bad_magic_call are stated about engine C08\'s model of Type_Of (Cello.Dispatch.typeOfW); C12_unimplemented_class_error derives '
                  'every ClassError-by-dispatch of the model from the declaration matrix generated from the Cello(T, Instance(...)) texts '
                  '(C12_class_error_iff_undeclared: the converse on one object per kind). Index prologues as programs (CelloGen.Fail.idx_<Function>, Cello/FailIdx.lean): C12_index_prologues_in_fragment, '
                  'C12_index_prologue_as_modelled (for every nitems and every 64-bit key the statements of Array_Get/_Set/_Pop_At, List_At, Tuple_Get/_Set/_Push_At/_Pop_At '
                  'as they stand in the source compute resolveB), C12_index_prologue_push_at, C12_index_prologue_raises_exactly (refusal exactly outside [-nitems, nitems)), '
                  'C12_model_index_is_source_prologue, C12_index_double_normalisation_refuted (a normalisation statement written twice accepts -6 on 5 items); '
                  'C12_refusal_message (the message of a refused index / empty pop is the format of the throw site in the source rendered with the key as passed — '
                  'List_At: the normalised index — and the item count, %i = low 32 bits). '
                  'Source order (translate/g_fail.py -> CelloGen.Fail.profile): '
                  'C12_source_profile (guards, throw sites, validating calls, element assigns and mutations of 71 functions equal the sequences the '
                  'model was written against), C12_source_checks_precede_mutations (an abstract interpretation of the generated profile: in 49 functions '
                  'no raising event is reachable after a mutation), C12_source_order_violations (the 22 others: the known findings — incl. the six *_Sort_* functions and print_to_with — and five benign '
                  'cases), C12_atomic_where_source_ordered (if the C function an operation mirrors is ordered, the model operation is failure-atomic '
                  'with no known-finding hypothesis). The model is further tied to the C code by executing thousands of valid/invalid '
                  'operation histories on both and comparing result, exception type and a white-box dump after every operation; an independent C '
                  'reference and a before/after dump oracle run on the real library under ASan/UBSan. Deviations the code really has are modelled '
                  'as they are, proved as *_refuted theorems on concrete witnesses and listed as known findings; defects repaired by a fix: commit '
                  '(Range_Get step 0 / overflow, String_Rem of a non-String, Table_Get answering every address inside its slot array — '
                  'C12_table_get_slot_address: the key / value object of a slot passed as the key is validated like any other argument) keep their *_refuted theorem as a statement about an explicit OLD '
                  'variant of the model function (Lemmas/FailOld.lean) next to what the current model does on the same witness. '
                  'sort (Array, Tuple): the quicksort of Tuple_Sort_* / Array_Sort_* is modelled with its exchanges (sortItems); C12_sort_completes_outside_kf / '
                  'C12_array_sort_never_raises: items of one type are always comparable, the sort completes; C12_tuple_sort_refuted: a Tuple of unlike '
                  'types is left permuted when lt raises (finding KF-C12-sort-partial). assign(x, x): C12_assign_self_noop, with the String guard of fix '
                  '744a45f read from the source (C12_string_assign_self_guard_source) and the old behaviour refuted (C12_string_assign_self_old_refuted); '
                  'String_Resize tests the result of realloc before writing through it (fix 63509f2: C12_string_resize_null_test_source on the profile '
                  'with the CELLO_MEMORY_CHECK regions kept). Undefined behaviour is not "no exception": C12_raises_exactly_<type> carry the hypothesis '
                  'X.ubTerritory op = false and C12_no_ub_<type> prove that ub is the outcome exactly on that territory (finding foreach-noniter, '
                  'C12_foreach_noniter_refuted). Table storage: Tab.moves says which operations replace the slot array (Table_Rehash / Table_Clear; the '
                  'harness prints it as mv= from t->data before and after every call); C12_refused_table_keeps_slot_array — for every table that has '
                  'slots, every operation and every argument, a call that raises returns the very same table (slot count included) and has not replaced '
                  'the slot array, hence neither the iteration order nor any element reference handed out earlier; C12_refused_table_set_keeps_slot_array '
                  'the same stated on the refused arguments of set (at every size, the growth thresholds of Table_Ideal_Size included); '
                  'C12_table_slots_change_only_by_move; C12_table_set_validates_before_growth reads from the generated profile that Table_Set '
                  'writes nothing in front of Table_Set_Move on a table that has slots and that Table_Set_Move casts key and value before its first '
                  'write (C12_table_set_growth_first_refuted: the make-room-first order is refused).')
    level_note = ('Trusted: Lean kernel; the hand-written model lean/Cello/Fail.lean (validated by the correspondence, which is testing); harness and '
                  'driver; libc. Not covered: allocation failure (OutOfMemoryError paths), Float/File/Thread objects, iteration of views (C11), '
                  'states reached through a known finding on String-element arrays.')
    rule = ('op files: histories of 150-400 operations over Array/List/Tuple(heap+stack), Table/Tree, String(heap/stack/static), Range/Slice/Zip and '
            'plain Int/Plain objects; about half the operations carry an invalid argument (index one past either end, far out, at the int64 limits, '
            'of the wrong type, NULL; absent or wrong-typed key/value/element; empty pop; unsupported resize; method the type lacks; non-heap target; '
            'too few / wrong-typed print arguments; dealloc of stack/static/data objects; calls on NULL; sort of a type without Sort) and are followed by further valid operations; sort on Arrays / Tuples of one item type and assign(x, x) on every kind of object are mixed in; '
            'plus an exhaustive index sweep (-n-2..n+2, -2n-2..-2n, ±2^32 and int64 limits, sizes 0..4, get/set/pop_at/push_at on the three sequence types; the refusal batteries fire the band [-2n, -(n+1)] that a doubled normalisation would fold back into range, at every size) and a '
            'Range/Slice sweep (27 ranges: steps 0, ±1..±3, ±2^62, INT64_MAX, fields at the int64 limits; indices at both ends of [-len, len), '
            '±2^63 and around INT64_MAX/|step| and (INT64_MAX-start)/step; slices with step 0 / ±10^6; rem of Int/Plain/NULL on heap/stack/static '
            'Strings). Table histories pass the key object / the value object of an occupied slot of the table itself as the key of get (getk / getv: '
            'territory of the Table_Get address shortcut repaired by fix bc940bb). Ranges of the histories take any int64 start/stop/step for which Range_Len does not overflow (step 0: ~15%). '
            'Nested-container histories (family nest): container sources, every kind of bad index, refused sources pushed onto Lists of containers; '
            'junk objects (freed-object / foreign magic number) receive every entry point and their bytes are compared before/after. '
            'Directed refusal sweeps (first cases of every run): one Table per key/value typing walked from 0 up to 91 items by set and down again by rem '
            '(every size up to 24 and each Table_Ideal_Size growth threshold 4/5, 9/11, 20/23, 47/53, 90/101 ± 1, in both directions, after explicit resizes, '
            'and with no slots at all), Trees up to 24 items, Arrays walked across every capacity boundary of Array_Reserve_More / _Less (0..30 items) and '
            'after resize, Lists and heap Tuples 0..12, stack Tuples and heap/stack/static Strings of every length: at each size the whole battery of refusals '
            '(wrong-typed key, wrong-typed value for a new and a stored key, NULL key, NULL value, absent key, wrong-typed lookup, unsupported resize, '
            'missing member; indices one past either end, far out, at the int64 limits, wrong-typed, NULL; wrong-typed value at a valid index; '
            'absent / wrong-typed element; empty pop; every reallocating member of a non-heap Tuple / String), each followed by len and a valid lookup. '
            'Each op is run on the real library (first in a forked child when a failure is expected), result + white-box dump compared with the Lean '
            'model, public dump before/after compared, and compared with an independent C reference; when a call raises and the contents are unchanged the '
            'representation snapshots taken before and after it are compared (sig c12-refused-reordered / -moved-storage / -capacity / -len). non-trivial item = a (operation, resulting '
            'observation) pair whose result is an exception or ub; distinct = distinct text.')
    trusted_base = ('lean/Cello/Fail.lean is a hand model of the C control flow: validated by the correspondence (testing) and pinned to the source text by '
                    'the generated check/mutation profile (translate/g_fail.py: a text-level extractor, no C parser; what a callee does is known only '
                    'for the 64 profiled functions and the listed primitives); the index prologues of the nine index-taking sequence functions are '
                    'extracted as terms and tied to the model by ∀-theorems (the C typing of the evaluator in Cello/FailIdx.lean is hand-written; statements '
                    'behind the guard — the walk of List_At, the memmove arguments — are not extracted); exception messages are compared for '
                    'IndexOutOfBoundsError on Array / List / Tuple only (all other refusals: exception type only)',
                    'harness/h_fail.c + lean/Driver/Fail.lean (correspondence is testing); the C reference inside the harness is a third implementation',
                    'libc malloc/realloc/memmove/strstr/vsnprintf are modelled, not verified; allocation never fails')
    assumptions = ('default (checked) build; single thread; collector stopped so that harness-held objects stay alive',
                   'reading of "left exactly as it was / fully usable" for a refused call: beyond len and contents (unambiguous), the iteration order is what '
                   'it was, every element reference obtained earlier through get / iteration / c_str still addresses that element (a reference invalidated '
                   'by a refused call is a use-after-free waiting in correct caller code: not intact), and capacity / slot count and backing block are what '
                   'they were. One exception is built into oracle and model: a container that had no element storage at all (a Table emptied by resize(t, 0): '
                   '0 slots, NULL block, no element a reference could address) and is given its first block by a refused call has lost nothing a caller could '
                   'hold or observe (Table_Set allocates Table_Ideal_Size(0) = 1 slot before Table_Set_Move casts: C12_table_slots_refuted, an I line of the '
                   'harness, not a failure). The iteration order itself is not a model quantity in this engine (C02 owns the slot-level model); the model '
                   'predicts slot count and whether the slot array is replaced, the C oracle compares order and addresses directly',
                   'element, key and value types of Array/List/Table/Tree objects are Int, String or a type without instances; containers of containers '
                   'are the separate objects `Nest` (Array/List of Array/List/Table of Int): get/set/push/push_at/pop/pop_at/resize/len; a source that is '
                   'not a container for set (valid index) or for push/push_at on an outer Array is known-finding territory (assign-clears, foreach-noniter, '
                   'F15) and only in the corpus witnesses; mem/rem/concat/assign on nested containers and growing a List of containers are not modelled',
                   'container sizes < 2^63 (the theorems state it); generated sizes <= ~70 elements, ints of elements in int64',
                   'not generated (known findings, each with witness corpus/kf_c12_*.ops and a _refuted theorem): wrong-typed / NULL element pushed, '
                   'inserted or concatenated into an Array (F15); print_to failing after its first segment (F29); concat into a List from a source with '
                   'a wrong-typed element; assign into Array/List/Table/Tree from a non-iterable; foreach over an object without Iter (concat/assign from '
                   'a scalar: NULL instance pointer dereferenced); sort of a Tuple whose items are not all of one type (KF-C12-sort-partial: a comparison '
                   'raises after items were exchanged; generated Tuples hold items of one type)',
                   'not constructed (both sides answer bad-op): a Range whose Range_Len itself overflows int64 ((stop-1)-start > INT64_MAX, step '
                   'INT64_MIN, or a length of 2^63): len and get are undefined behaviour there (Rng.get_lenOverflow); mem on a Range with a field '
                   'beyond 10^6 (Range_Mem is modelled without overflow)',
                   'not generated: NULL stored into a Tuple; growing a List of String by resize (creates NULL strings); print_to at a position beyond the '
                   'end of the sink; nested views; allocation failure (String_Resize under a failing realloc is a proof-level obligation on the '
                   'source order only); sort / assign(x, x) on containers of containers; assign(x, x) on Plain / Range / Slice / Zip objects')

    def cases(self, rng, tier, boost=1):
        quick = tier == 'quick'
        cs = []
        plan = [('seq', 7, 260), ('map', 4, 220), ('str', 4, 220), ('view', 5, 220), ('nest', 4, 220), ('misc', 3, 200)] if quick else \
               [('seq', 180, 900), ('map', 90, 900), ('str', 90, 900), ('view', 72, 700), ('nest', 72, 700), ('misc', 45, 600)]
        for fam, ncases, nops in plan:
            for k in range(ncases * boost):
                ml = 8 if k % 3 else (3 if k % 2 else 20)
                cs.append(Case(f'{fam}{k}', history(rng, fam, nops, ml)))
        cs = refusal_sweep(rng, quick, boost) + cs      # directed cases first: the verdict on a moved check comes early
        cs += boundary_sweep()
        cs += range_sweep()
        return cs

    def nontrivial_items(self, case, c_out, m_out):
        ops = [l for l in case.lines if l and not l.startswith('#')]
        obs = core.lines_with('O ', c_out)
        return {hash((op, o)) for op, o in zip(ops, obs) if o.startswith('O raised:') or o.startswith('O ub')}

    def stats(self, case, c_out, m_out, acc):
        ops = [l for l in case.lines if l and not l.startswith('#')]
        steps = {}; strs = set()      # id -> step of a Range / Slice; ids of Strings
        for op, o in zip(ops, core.lines_with('O ', c_out)):
            acc['ops'] = acc.get('ops', 0) + 1
            res = o[2:].split(' ')[0]
            w = op.split(' ')
            # the territory that was excluded while Range_Get / String_Rem / Table_Get (address shortcut) were known findings
            if w[0] == 'new' and len(w) >= 3 and res == 'new':
                if w[2] in ('rng', 'slc'):
                    try: steps[w[1]] = int(w[-1])
                    except ValueError: pass
                    if w[2] == 'rng' and any(abs(int(v)) > 2**40 for v in w[3:6]): acc['range_fields_beyond_2^40'] = acc.get('range_fields_beyond_2^40', 0) + 1
                elif w[2] == 'str': strs.add(w[1])
            elif w[0] == 'get' and len(w) == 3 and w[1] in steps and w[2][:1] == 'i' and res != 'bad-op':
                if steps[w[1]] == 0: acc['range_get_step0'] = acc.get('range_get_step0', 0) + 1
                try:
                    if abs(int(w[2][1:])) > 2**40: acc['range_get_index_beyond_2^40'] = acc.get('range_get_index_beyond_2^40', 0) + 1
                except ValueError: pass
            elif w[0] == 'rem' and len(w) == 3 and w[1] in strs and w[2][:1] in ('i', 'p') and res != 'bad-op':
                acc['string_rem_non_string'] = acc.get('string_rem_non_string', 0) + 1
            if w[0] in ('getk', 'getv') and res != 'bad-op': acc['table_get_slot_address'] = acc.get('table_get_slot_address', 0) + 1
            if ' | N' in o and res != 'new': acc['nested_ops'] = acc.get('nested_ops', 0) + 1
            if ' | J ' in o and res != 'new': acc['bad_magic_ops'] = acc.get('bad_magic_ops', 0) + 1
            # branch counters of the index prologues (extension round): sign of the key x outcome, the band [-2n, -(n+1)] that a second
            # normalisation would accept (n from the message), keys beyond 32 bits (`%i` prints the low half), messages compared
            if w[0] in ('get', 'set', 'popat', 'pushat') and ' | ' in o and o.split(' | ')[1][:2] in ('A ', 'L ', 'T ') and res != 'bad-op':
                ixt = (w[3] if len(w) > 3 else '') if w[0] == 'pushat' else (w[2] if len(w) > 2 else '')
                if ixt[:1] == 'i':
                    try: ix = int(ixt[1:])
                    except ValueError: ix = None
                    if ix is not None:
                        refused = res == 'raised:IndexOutOfBoundsError'
                        b = ('idx_neg_' if ix < 0 else 'idx_nonneg_') + ('refused' if refused else 'accepted' if res.startswith('ok') else 'other')
                        acc[b] = acc.get(b, 0) + 1
                        if refused and ' msg=' in o:
                            msg = o.split(' msg=')[1].split(' | ')[0]
                            try: n = int(msg.rsplit(' of size ', 1)[1].rstrip('.'))
                            except (IndexError, ValueError): n = None
                            if n is not None and n > 0 and -2 * n <= ix <= -(n + 1): acc['idx_refused_in_double_normalisation_band'] = acc.get('idx_refused_in_double_normalisation_band', 0) + 1
                            if abs(ix) >= 2**31: acc['idx_message_key_beyond_int32'] = acc.get('idx_message_key_beyond_int32', 0) + 1
            if ' msg=' in o: acc['refusal_messages_compared'] = acc.get('refusal_messages_compared', 0) + 1
            key = res if res.startswith('raised:') else res.split(':')[0]
            acc[key] = acc.get(key, 0) + 1
            if res.startswith('raised:'):
                kind = o.split(' | ')[1][:1] if ' | ' in o else '-'
                acc['failed_on_' + kind] = acc.get('failed_on_' + kind, 0) + 1
                if any(str(e) in op for e in (I64MAX, I64MIN)): acc['int64_limit_index'] = acc.get('int64_limit_index', 0) + 1
        for l in core.lines_with('I ', c_out):
            if 'died-in-probe=' in l:
                acc['died_in_probe'] = acc.get('died_in_probe', 0) + int(l.split('died-in-probe=')[1].split()[0])


SPEC = C12()
