"""C03 — Tree behaves as an ordered map and stays balanced (engine tree)."""
import itertools
from ..runner import Spec, Case
from .. import core

MUT = ('new', 'set', 'rem', 'resize', 'assign', 'copy')

def ikey(i):
    return str(i)

def skey(i):
    """String keys whose strcmp order is *not* the numeric order of i and whose lengths vary (prefixes of each other occur)"""
    x = (i * 7919 + 13) % 100003
    s = ''
    while True:
        s += 'abcdefghijklmnopqrstuvwxyz'[x % 26]
        x //= 26
        if x == 0: break
    return s + ('' if i % 3 else 'x' * (i % 5))

def wkey(i):
    """24-byte struct keys `a,b,c` compared field by field: the first field ties for runs of five keys, the second decides,
    and every key differs from every other in its second and third word (a partially moved key is a wrong key)"""
    return f'{i // 5},{1000 + 3 * i},{2000 - i}'

WIDE = [-2**63, -2**63 + 1, -2**32 - 1, -2**32, -2**31 - 1, -2**31, -1, 0, 1, 2**31 - 1, 2**31, 2**32, 2**32 + 1, 2**63 - 2, 2**63 - 1]
def wide_ikey(i):
    """Int keys whose differences do not fit 32 bits or overflow 64 (a comparison by subtraction loses or duplicates keys
    here): the extremes of int64_t, neighbours of +-2^31 and +-2^32, then multiples of 2^32 of both signs"""
    if 0 <= i < len(WIDE): return str(WIDE[i])
    if i < 0: return str(-(2**62) + i)
    m = (i - 7) * 2**32 + i % 3
    return str(-m if i % 2 else m)

HIGH = ['\u00e9', '\u00df', '\u20ac', '\U0001F600', '\u007f', 'z', 'A', '~', '\u0101', '\u07ff', '\u0800', '\uffee']
def high_skey(i):
    """String keys with bytes >= 0x80 (valid UTF-8, so that the driver reads the same bytes): strcmp compares them as unsigned
    char, above every ASCII byte; mixed with ASCII neighbours and prefixes of each other"""
    if i < 0: return 'Z' + str(-i)
    x = i * 31 + 7
    t = ''
    while True:
        t += HIGH[x % len(HIGH)]
        x //= len(HIGH)
        if x == 0: break
    return t + ('' if i % 4 else 'a' * (i % 3))

def kindkey(kind):
    return {'i': ikey, 's': skey, 'w': wkey, 'I': wide_ikey, 'S': high_skey}[kind[0]]

def opkind(kind):
    """the kind token of the op file (the key families I = wide Int keys, S = String keys with high bytes are generator-side)"""
    return kind[0].lower() + kind[1:]

def vwidth(kind):
    return 0 if kind[1:] == 's' else int(kind[1:]) if len(kind) > 1 else 1

def val(kind, v):
    """a value of the tree's value type made from the number v: every 8-byte word distinct, and distinct from the word at
    the same place in the value made from any other number; String values of varying length (an update reallocates)"""
    w = vwidth(kind)
    if w == 0: return 'v' + str(v) + 'q' * (abs(v) * 7 % 41)
    return ','.join(str(v if j == 0 else v * 7 + j * 1000003) for j in range(w))

KINDS_EQ = ('i', 's')                                  # key and value of the same size (8/8)
KINDS_NE = ('i3', 'w', 'i5', 's3', 'w5', 'w3')          # 8/24, 24/8, 8/40, 8/24, 24/40, 24/24
KINDS_STR = ('ss', 'is', 'ws')                         # String values (own a buffer that assign reallocates): 8/8, 8/8, 24/8
KINDS_ORDER = ('I', 'S', 'I3', 'Ss')                    # key families that stress the comparison (see wide_ikey / high_skey)

class Gen:
    """builds one op file; keeps the key sets it created so that removals mostly hit (no shape knowledge)"""
    def __init__(self, rng, kind, auto=True):
        if kind is False: kind = 'i'
        if kind is True: kind = 's'
        self.rng = rng; self.kind = kind; self.lines = []; self.keys = {}
        self._k = kindkey(kind)
        if not auto: self.lines.append('auto 0')
    def k(self, i): return self._k(i)
    def v(self, v): return val(self.kind, v)
    def new(self, t, init=()):
        self.keys[t] = set(i for i, _ in init)
        self.lines.append(f"new {t} {opkind(self.kind)}" + ''.join(f' {self.k(i)} {self.v(v)}' for i, v in init))
    def set(self, t, i, v=None):
        if v is None: v = self.rng.randrange(-1000, 1000)
        self.keys[t].add(i); self.lines.append(f'set {t} {self.k(i)} {self.v(v)}')
    def rem(self, t, i):
        self.keys[t].discard(i); self.lines.append(f'rem {t} {self.k(i)}')
    def op(self, s): self.lines.append(s)
    def probes(self, t, universe):
        r = self.rng
        i = r.choice(universe)
        self.lines.append(r.choice([f'get {t} {self.k(i)}', f'mem {t} {self.k(i)}', f'len {t}']))
    def iters(self, t): self.lines += [f'iter {t}', f'riter {t}']

def c_sequential(rng, strkeys, n, order):
    g = Gen(rng, strkeys); g.new(0)
    if order == 'asc': ins = list(range(n))
    elif order == 'desc': ins = list(range(n - 1, -1, -1))
    else:  # alternating low / high
        ins = []; lo, hi = 0, n - 1
        while lo <= hi:
            ins.append(lo); lo += 1
            if lo <= hi: ins.append(hi); hi -= 1
    for j, i in enumerate(ins):
        g.set(0, i, i * 10)
        if j % 7 == 3: g.probes(0, range(-1, n + 1))
    g.iters(0)
    rm = {'asc': list(range(n)), 'desc': list(range(n - 1, -1, -1)), 'alt': ins[::-1]}[order]
    if rng.random() < 0.5: rm = rm[::-1]
    for j, i in enumerate(rm):
        g.rem(0, i)
        if j % 9 == 4: g.iters(0)
    g.op('len 0'); g.iters(0)
    g.rem(0, 0)   # KeyError on the empty tree
    return g.lines

def c_random(rng, strkeys, nops, universe, p_set=0.5, auto=True, check_every=0):
    g = Gen(rng, strkeys, auto); g.new(0)
    U = list(range(universe))
    for j in range(nops):
        r = rng.random()
        if r < p_set: g.set(0, rng.choice(U))
        elif r < p_set + 0.32:
            if g.keys[0] and rng.random() < 0.85: g.rem(0, rng.choice(sorted(g.keys[0])))
            else: g.rem(0, rng.choice(U))
        elif r < p_set + 0.40: g.op(rng.choice(['remroot 0', 'rem2 0']))
        elif r < p_set + 0.47 and auto: g.iters(0)
        elif r < p_set + 0.48: g.op('assign 0 0')
        else: g.probes(0, U)
        if check_every and j % check_every == check_every - 1: g.op('check 0')
    if not auto: g.op('check 0'); g.iters(0)
    return g.lines

def c_remove_root(rng, strkeys, n):
    g = Gen(rng, strkeys); g.new(0)
    ks = list(range(n)); rng.shuffle(ks)
    for i in ks: g.set(0, i)
    for j in range(n + 1):
        g.op('remroot 0')
        if j % 5 == 0: g.iters(0)
    return g.lines

def c_remove_two_children(rng, strkeys, n):
    g = Gen(rng, strkeys); g.new(0)
    ks = list(range(n)); rng.shuffle(ks)
    for i in ks: g.set(0, i)
    for j in range(n):
        g.op('rem2 0')
        if j % 3 == 0: g.set(0, rng.randrange(n))     # keep the tree from running out of two-children nodes
        if j % 6 == 0: g.iters(0)
    return g.lines

def c_drain_refill(rng, strkeys, n, cycles):
    g = Gen(rng, strkeys); g.new(0)
    for c in range(cycles):
        ks = list(range(n)); rng.shuffle(ks)
        for i in ks: g.set(0, i, c)
        g.iters(0)
        how = c % 3
        if how == 0:
            rng.shuffle(ks)
            for i in ks: g.rem(0, i)
        elif how == 1:
            for _ in range(n): g.op('remroot 0')
        else:
            g.op('resize 0 0')
        g.op('len 0'); g.iters(0); g.op('get 0 ' + g.k(0)); g.op('remroot 0')
    return g.lines

def c_assign_copy(rng, strkeys, n):
    g = Gen(rng, strkeys)
    g.new(0, [(i, i) for i in rng.sample(range(3 * n), n)])
    g.new(1)
    g.op('copy 2 0'); g.keys[2] = set(g.keys[0])
    g.op('assign 1 0'); g.keys[1] = set(g.keys[0])
    # the copies are independent objects
    for _ in range(n // 2 + 1):
        t = rng.randrange(3)
        if rng.random() < 0.5: g.set(t, rng.randrange(3 * n))
        elif g.keys[t]: g.rem(t, rng.choice(sorted(g.keys[t])))
    for t in range(3): g.op(f'check {t}'); g.iters(t)
    g.op('assign 1 1'); g.op('check 1')                # assign(t, t) leaves t as it is
    g.op('assign 0 2'); g.keys[0] = set(g.keys[2])
    g.op('resize 2 0'); g.op('check 0'); g.op('resize 1 5'); g.op('check 1')
    g.op('assign 0 2'); g.op('len 0')                  # assign from an empty tree
    g.op('copy 3 2'); g.op('iter 3'); g.op('copy 1 1'); g.op('check 1')
    g.op('del 2'); g.op('len 2'); g.op('check 1')
    return g.lines

def c_mixed_types(rng):
    """a tree changes its key type when assigned from a tree of the other kind"""
    a = Gen(rng, False); b = Gen(rng, True)
    lines = []
    a.new(0, [(i, i) for i in range(6)]); b.new(1, [(i, -i) for i in range(9)])
    lines += a.lines + b.lines
    lines += ['assign 0 1', 'iter 0', f'set 0 {skey(100)} 5', f'rem 0 {skey(3)}', 'check 0', 'check 1',
              'new 2 i 5 1 3 2 9 3', 'assign 1 2', 'set 1 4 4', 'riter 1', 'check 1', 'bogus 1', 'set 9 1 1', 'set 0', 'new 3 q',
              'new 3 i4', 'new 3 i3 1 1,2', 'new 3 w 1,2 3', 'set 1 4 4,5,6', 'set 1 4,5,6 4']
    return lines

def c_mixed_sizes(rng, n):
    """trees whose key and value types have different sizes exchange contents by assign / copy: the destination takes over
    the types (and ksize / vsize) of the source, and removals of two-children nodes follow in the new layout"""
    kinds = list(KINDS_NE) + ['i']
    rng.shuffle(kinds)
    gens = [Gen(rng, k) for k in kinds[:4]]
    lines = []
    for t, g in enumerate(gens):
        g.new(t, [(i, i * 3 + t) for i in rng.sample(range(3 * n), n)])
        lines += g.lines; g.lines = []
    kind = {t: g.kind for t, g in enumerate(gens)}
    keys = {t: set(g.keys[t]) for t, g in enumerate(gens)}
    def emit(t, fn):
        g = Gen(rng, kind[t]); g.keys[t] = keys[t]; fn(g); keys[t] = g.keys[t]; lines.extend(g.lines)
    for rnd in range(6):
        t, s2 = rng.sample(range(4), 2)
        if rng.random() < 0.5: lines.append(f'assign {t} {s2}')
        else: lines.append(f'copy {t} {s2}')
        lines.append(f'assign {s2} {s2}')
        kind[t] = kind[s2]; keys[t] = set(keys[s2])
        for _ in range(n // 2):
            u = rng.randrange(4)
            r = rng.random()
            if r < 0.35: emit(u, lambda g: g.set(u, rng.randrange(3 * n)))
            elif r < 0.7: lines.append(rng.choice([f'rem2 {u}', f'rem2 {u}', f'remroot {u}']))
            elif keys[u]: emit(u, lambda g: g.rem(u, rng.choice(sorted(g.keys[u]))))
        for u in range(4): lines += [f'check {u}']
        lines += [f'iter {t}', f'riter {s2}']
    return lines

SRC_PREPS = ('fresh', 'resize', 'rem', 'remroot', 'set1', 'new1', 'downto1', 'update1')
DST_PREPS = ('fresh', 'full', 'cleared', 'one', 'drained')

def c_assign_edge(rng, kt, ks, n):
    """assign / copy whose SOURCE holds no binding at that moment (fresh tree, tree after resize(t, 0), tree drained by rem or
    by root removals) or exactly one (set once, constructed with one pair, drained down to one, one key updated repeatedly),
    into targets that are fresh, full, cleared, singleton or drained — target of kind `kt`, source of kind `ks` (the layouts
    differ when kt != ks: the target takes over the types). Each is followed by USE of the target: len, iteration both ways,
    get / mem of the keys it held before and of the source's keys, a full check, set of a new key, rem, KeyError, root
    removal, then a change of the source (the target must not follow) and an assign / copy back."""
    L = []
    kS = kindkey(ks)
    def newtree(t, kind, items):
        L.append(f'new {t} {opkind(kind)}' + ''.join(f' {kindkey(kind)(i)} {val(kind, v)}' for i, v in items))
    combos = [(p, d, o) for p in SRC_PREPS for d in DST_PREPS for o in ('assign', 'copy')]
    rng.shuffle(combos)
    for p, d, o in combos[:n]:
        L.append(f'# source {p}, target {d}, {o}')
        tk = rng.sample(range(40), rng.randrange(2, 9))
        if d == 'fresh': newtree(0, kt, [])
        elif d == 'full': newtree(0, kt, [(i, i) for i in tk])
        elif d == 'one': newtree(0, kt, [(tk[0], 5)])
        elif d == 'cleared': newtree(0, kt, [(i, i) for i in tk]); L.append('resize 0 0')
        else:
            newtree(0, kt, [(i, i) for i in tk])
            for i in tk: L.append(f'rem 0 {kindkey(kt)(i)}')
        sk = rng.sample(range(40), rng.randrange(2, 7)); one = sk[0]; have = {}
        if p == 'fresh': newtree(1, ks, [])
        elif p == 'resize': newtree(1, ks, [(i, -i) for i in sk]); L.append('resize 1 0')
        elif p == 'rem':
            newtree(1, ks, [(i, -i) for i in sk])
            for i in rng.sample(sk, len(sk)): L.append(f'rem 1 {kS(i)}')
        elif p == 'remroot':
            newtree(1, ks, [(i, -i) for i in sk])
            L.extend(['remroot 1'] * len(sk))
        elif p == 'set1': newtree(1, ks, []); L.append(f'set 1 {kS(one)} {val(ks, 7)}'); have = {one: 7}
        elif p == 'new1': newtree(1, ks, [(one, 7)]); have = {one: 7}
        elif p == 'downto1':
            newtree(1, ks, [(i, -i) for i in sk])
            for i in rng.sample(sk[1:], len(sk) - 1): L.append(f'rem 1 {kS(i)}')
            have = {one: -one}
        else:
            newtree(1, ks, [(one, 1)])
            for v in (2, 3): L.append(f'set 1 {kS(one)} {val(ks, v)}')
            have = {one: 3}
        L.append('check 1')
        L.append(f'{o} 0 1')
        # use of the target (it has the kind of the source now)
        L += ['len 0', 'iter 0', 'riter 0', 'check 0']
        for i in tk[:3] + sk[:3]: L += [f'mem 0 {kS(i)}', f'get 0 {kS(i)}']
        fresh = rng.choice([i for i in range(40, 60)])
        L += [f'set 0 {kS(fresh)} {val(ks, 11)}', f'get 0 {kS(fresh)}', 'len 0', 'iter 0', 'riter 0', 'check 0']
        # the source changes: the target does not follow
        other = rng.choice([i for i in range(60, 80)])
        L += [f'set 1 {kS(other)} {val(ks, 13)}', f'mem 0 {kS(other)}', 'check 0', 'check 1', 'len 1']
        L += [f'set 0 {kS(fresh + 20)} {val(ks, 12)}', f'set 0 {kS(fresh - 20)} {val(ks, 14)}', 'check 0']
        L += [f'rem 0 {kS(fresh)}', f'rem 0 {kS(fresh)}', 'remroot 0', 'check 0', 'iter 0']
        # and back / onwards
        back = rng.choice(['assign 1 0', 'copy 2 0', 'copy 1 0', 'assign 0 1'])
        L += [back, 'check 0', 'check 1', 'resize 0 0', 'assign 1 0', 'check 1', 'len 1', 'iter 1',
              f'set 1 {kS(3)} {val(ks, 3)}', 'check 1']
    return L

def c_relocate(rng, kind, n):
    """removals that relocate the predecessor (node with two children), each followed by reads of every remaining key,
    by updates in place, and by copies of the tree that has just been through the relocation"""
    g = Gen(rng, kind); g.new(0)
    ks = list(range(n)); rng.shuffle(ks)
    for i in ks: g.set(0, i, i)
    for j in range(n):
        if rng.random() < 0.75: g.op('rem2 0')
        else: g.op('remroot 0')
        if j % 4 == 1:
            for i in sorted(g.keys[0])[:: max(1, n // 6)]: g.op(f'get 0 {g.k(i)}')
        if j % 5 == 2: g.op('copy 1 0'); g.op('check 1'); g.op('rem2 1'); g.op('iter 1')
        if j % 7 == 3: g.set(0, rng.randrange(n))
        if j % 8 == 5: g.op('assign 0 0')
        if j % 9 == 4: g.op('new 2 ' + opkind(kind)); g.op('assign 2 0'); g.op('rem2 2'); g.op('riter 2')
    g.iters(0)
    return g.lines

def c_own(rng, kind, n, nops):
    """the tree's OWN key and value objects as arguments: set with the key object foreach hands out (setk), with the value
    object get returns for the same or for another key (setv / setkv, also for an absent key: a new node whose value is copied
    out of another node), get / mem / rem given the own key object (rem: the argument lives in the node that is removed), and
    whole walks `foreach (K in t) set(t, K, v)` / `set(t, K, get(t, K))` — each followed by the full dump and oracle check"""
    g = Gen(rng, kind); g.new(0, [(i, i) for i in rng.sample(range(2 * n), n)])
    U = list(range(2 * n))
    for j in range(nops):
        present = sorted(g.keys[0])
        pk = lambda: rng.choice(present) if present and rng.random() < 0.9 else rng.choice(U)
        r = rng.random()
        if r < 0.16: g.op(f'setk 0 {g.k(pk())} {g.v(rng.randrange(-500, 500))}')
        elif r < 0.30:
            a, b = pk(), pk()
            if rng.random() < 0.5: b = a
            g.op(f'setkv 0 {g.k(a)} {g.k(b)}')
        elif r < 0.46:
            a = rng.choice(U) if rng.random() < 0.4 else pk(); b = pk()
            if rng.random() < 0.4: b = a
            g.op(f'setv 0 {g.k(a)} {g.k(b)}')
            if b in g.keys[0]: g.keys[0].add(a)
        elif r < 0.54: g.op(f'getk 0 {g.k(pk())}')
        elif r < 0.60: g.op(f'memk 0 {g.k(pk())}')
        elif r < 0.70:
            a = pk(); g.op(f'remk 0 {g.k(a)}'); g.keys[0].discard(a)
        elif r < 0.76: g.op(f'walk 0 {g.v(rng.randrange(-500, 500))}')
        elif r < 0.82: g.op('walkself 0')
        elif r < 0.90: g.set(0, rng.choice(U))
        elif r < 0.94: g.op(rng.choice(['rem2 0', 'remroot 0']))
        else: g.iters(0)
        if j % 11 == 10: g.op('check 0'); g.op('copy 1 0'); g.op('walkself 1'); g.op('check 1')
    g.op('walkself 0'); g.op('walk 0 ' + g.v(1)); g.iters(0); g.op('check 0')
    g.op('resize 0 0'); g.op('walk 0 ' + g.v(2)); g.op('walkself 0'); g.op(f'setk 0 {g.k(1)} {g.v(3)}'); g.op(f'setv 0 {g.k(1)} {g.k(2)}')
    return g.lines

def c_foreign(rng, n):
    """assign(t, obj) for a map that is not a Tree (any kind, in a given iteration order, with repeated keys, empty), into
    trees of the same and of other kinds, followed by use; and the constructor with an odd number of arguments"""
    L = []
    allk = KINDS_EQ + KINDS_NE + KINDS_STR + KINDS_ORDER
    for rnd in range(n):
        kt, ks = rng.choice(allk), rng.choice(allk)
        kT, kS = kindkey(kt), kindkey(ks)
        tk = rng.sample(range(30), rng.randrange(0, 7))
        L.append(f'new 0 {opkind(kt)}' + ''.join(f' {kT(i)} {val(kt, i)}' for i in tk))
        m = rng.randrange(0, 9)
        sk = [rng.randrange(12) for _ in range(m)]           # repeats are likely: the last binding of a key wins
        L.append(f'assignmap 0 {opkind(ks)}' + ''.join(f' {kS(i)} {val(ks, j * 13 + i)}' for j, i in enumerate(sk)))
        L += ['len 0', 'iter 0', 'riter 0', 'check 0']
        for i in (sk[:2] + [13]): L += [f'get 0 {kS(i)}', f'mem 0 {kS(i)}']
        L += [f'set 0 {kS(20)} {val(ks, 20)}', 'rem2 0', 'remroot 0', 'walkself 0', 'check 0', 'copy 1 0', 'check 1']
        odd = rng.randrange(0, 3)
        L.append(f'newodd 2 {opkind(ks)}' + ''.join(f' {kS(i)} {val(ks, i)}' for i in range(odd)) + f' {kS(9)}')
        L += ['len 2', 'assignmap 2 i 1 1', 'check 0']
    return L

def c_exhaustive(n, kind, chunk):
    """every insertion order of n keys, each followed by a different removal order"""
    lines = []
    k = kindkey(kind)
    perms = list(itertools.permutations(range(n)))
    for idx in chunk:
        ins = perms[idx % len(perms)]
        rm = perms[(idx * 7 + 3) % len(perms)]
        lines.append(f"new 0 {opkind(kind)}")
        lines += [f'set 0 {k(i)} {val(kind, i)}' for i in ins]
        lines += [f'rem 0 {k(i)}' for i in rm]
    return lines

def c_big(rng, strkeys, n, nops):
    """a large tree, dumped (as a hash) and fully checked every `nops/20` ops; cheap checks in between"""
    g = Gen(rng, strkeys, auto=False); g.new(0)
    order = rng.choice(['asc', 'desc', 'rand'])
    ks = list(range(n))
    if order == 'desc': ks.reverse()
    if order == 'rand': rng.shuffle(ks)
    for j, i in enumerate(ks):
        g.set(0, i, i)
        if j % (n // 4 + 1) == 0: g.op('check 0')
    g.op('check 0'); g.iters(0)
    every = max(nops // 20, 1)
    for j in range(nops):
        r = rng.random()
        if r < 0.45: g.rem(0, rng.randrange(n))
        elif r < 0.50: g.op(rng.choice(['remroot 0', 'rem2 0']))
        elif r < 0.9: g.set(0, rng.randrange(n))
        else: g.probes(0, range(n))
        if j % every == every - 1: g.op('check 0')
    g.op('check 0'); g.iters(0)
    g.op('copy 1 0'); g.op('check 1'); g.op('assign 0 0'); g.op('check 0')
    return g.lines

def c_cmp_hash(rng, kind, n, rounds):
    """cmp(t, s) / hash(t) of Trees (Tree_Cmp, Tree_Hash): two trees given the same bindings in different insertion orders
    (different shapes: they compare equal and hash alike), then histories that make them differ in one value (by one, by 256 —
    memcmp order of the plain struct values is not numeric order —, by sign, by 2^32), in one key, in length (one a proper
    prefix of the other, either way), empty trees, a tree with itself, copies and assigned trees; every cmp is asked both ways
    and followed by both hashes"""
    g = Gen(rng, kind)
    ks = rng.sample(range(3 * n), n)
    a = list(ks); rng.shuffle(a)
    b = sorted(ks, reverse=rng.random() < 0.5)
    g.new(0); g.new(1)
    def both():
        g.op('cmp 0 1'); g.op('cmp 1 0'); g.op('hash 0'); g.op('hash 1')
    both()
    for i in a: g.set(0, i, i)
    both()
    for i in b: g.set(1, i, i)
    both()
    for r in range(rounds):
        t = rng.randrange(2); o = 1 - t
        present = sorted(g.keys[t])
        x = rng.random()
        if x < 0.3 and present:
            i = rng.choice(present)
            g.set(t, i, rng.choice([i + 1, i - 1, i + 256, i - 256, -i - 1, i + 2**32]))
            both()
            if rng.random() < 0.7: g.set(t, i, i); both()
        elif x < 0.5 and present:
            i = rng.choice([present[0], present[-1], rng.choice(present)])
            g.rem(t, i); both()
            if rng.random() < 0.6: g.set(t, i, i); both()
        elif x < 0.62:
            g.set(t, rng.randrange(3 * n)); both()
        elif x < 0.74:
            g.op(f'cmp {t} {t}'); g.op(f'copy 2 {t}'); g.op(f'cmp 2 {t}'); g.op(f'cmp {t} 2'); g.op('hash 2')
            g.op('rem2 2'); g.op(f'cmp 2 {t}'); g.op('hash 2'); g.op('links 2')
        elif x < 0.84:
            g.op(f'assign {t} {o}'); g.keys[t] = set(g.keys[o]); both()
        elif x < 0.92:
            g.op(rng.choice([f'rem2 {t}', f'remroot {t}'])); g.op(f'links {t}'); both()
        else:
            g.op(f'resize {t} 0'); g.keys[t] = set(); both()
            for i in rng.sample(sorted(g.keys[o]) or [0], min(3, max(1, len(g.keys[o])))): g.set(t, i, i)
            both()
    g.op('check 0'); g.op('check 1'); both(); g.op('links 0'); g.op('links 1')
    g.op('cmp 0 9'); g.op('links 9'); g.op('hash 9'); g.op('cmp 0')
    return g.lines

class C03(Spec):
    id = 'C03'; engine = 'tree'; harness = 'h_tree'; driver = 'drv_tree'
    generators = ('Tree', 'Hash')
    harness_timeout = 150
    technique = ('Lean 4 proof: zipper model of the red-black code of src/Tree.c refines a strictly sorted association list and '
                 'preserves the red-black invariants (induction over histories); model tied to the real Tree.c by a white-box, '
                 'state-by-state differential check (shape, colours, values after every operation) and a direct oracle in C; '
                 'third layer: Tree_Cmp / Tree_Hash as lock-step / single cursor walks proved equal to the lexicographic comparison / '
                 'xor-fold of the in-order sequences; the parent-and-colour word as extracted expression terms with round-trip laws')
    level_text = ('Theorems C03_refines_ordered_map / C03_iteration / C03_balanced (lean/CelloProofs/Props/C03.lean): for every history of '
                  'new/set/rem/get/mem/len/resize/assign/copy/iteration over any number of trees and any lawful key comparison, the model of '
                  'Tree.c (zipper mirror of Tree_Set, Tree_Set_Fix, Tree_Rem with its predecessor memcpy as a block move over the node payload, '
                  'Tree_Rem_Fix, the parent-link iteration walks; keys and values of arbitrary types and widths; '
                  'offsets and widths of the node payload, the sign tests of the four descent loops and the self-assignment guard are read '
                  'from the source on every run and constrained by the *_current_source theorems, from which the refinement is proved) never '
                  'dereferences NULL, yields exactly the observations of a strictly sorted association list (KeyError exactly for absent '
                  'keys, forward iteration = the strictly monotone key sequence, backward = its reverse) and keeps every tree a valid '
                  'red-black tree with height <= 2*log2(n+1). The model is tied to the C code by comparing the complete concrete tree '
                  '(preorder shape, colours, keys, values, nitems) after every operation of thousands of generated histories.')
    level_note = ('Trusted: Lean kernel; the correspondence between Tree.c and the zipper model is established by testing (white-box '
                  'dump equality after every op), not by proof; parent links are not in the functional model: the harness checks '
                  'parent(child)==node on every dump and iteration (which walks them) is compared op by op; cmp of Int/String is '
                  'assumed lawful (C09). Self-assignment assign(t,t) is part of the histories (no-op since the fix a3140e4; the '
                  'behaviour before the fix is kept as an explicit old variant with its refuted witness). '
                  'C03_own_objects_refine extends the history theorem to calls that are given the tree\'s own key / value objects, to '
                  'assign from a foreign map and to the odd-count constructor; it holds because String_Assign returns when given its own '
                  'buffer (flag read from src/String.c; the model without it is undefined on the witness of C03_set_own_string_old_refuted). '
                  'C03_int_keys / C03_string_keys instantiate the order with the translated Int_Cmp and with strcmp on bytes. '
                  'C03_cmp_hash_refine extends the histories by cmp(t, s) and hash(t) on Trees (Tree_Cmp, Tree_Hash mirrored as cursor '
                  'loops over the parent-link walks; C03_tree_cmp_is_lexicographic, C03_tree_hash_shape_independent: the results do not '
                  'depend on the shapes). C03_parent_word_current_source: the expressions of Tree_Get_Parent / Tree_Set_Parent / '
                  'Tree_Set_Color / Tree_Get_Color read from the source make the third node word a pair (parent, colour).')
    rule = ('op files over Int, String and 24-byte struct keys (own lexicographic Cmp) with Int, 24-byte and 40-byte plain struct '
            'values, i.e. node layouts with ksize = vsize and with ksize != vsize in both directions; every 8-byte word of every '
            'value (and struct key) is distinct, and whole keys and whole values are dumped and compared after every op; '
            'histories: ascending / descending / alternating insertion then removal; random set/rem/get/mem/len/'
            'iter mixes over small and large key universes; remove-root and remove-node-with-two-children chosen white-box (remroot, '
            'rem2; relocation-heavy histories: rem2 / remroot followed by get of the remaining keys, copy and assign of the tree '
            'that has just relocated a predecessor); drain-to-empty-and-refill by rem, by root removal and by resize(t,0); '
            'assign/copy between trees (also across key types and across layouts: the destination takes over ksize/vsize); '
            'assign and copy whose source is EMPTY at that moment (fresh, after resize(t,0), drained by rem / by root removals) or holds '
            'exactly ONE binding, into fresh / full / cleared / singleton / drained targets of the same and of another layout, each '
            'followed by use of the target (len, iteration both ways, get/mem of its former keys and of the source\'s, set, rem, '
            'KeyError, root removal) and by a change of the source that the target must not follow (edge_* cases; counters '
            'assign_copy_from_empty / _from_singleton / assign_across_layouts in the evidence); every insertion order of n<=6 keys followed by a removal order; large trees (hash dumps). After every mutating op '
            'the whole concrete tree is dumped and compared with the model, and the C oracle checks map contents, KeyError, iteration '
            'both ways, order, root colour, red-red, black heights, parent links, node count and the height bound. '
            'Second layer (own_*, foreign*, sv_*, ord_* cases): set / get / mem / rem given the tree\'s OWN key object (obtained by '
            'iterating) and value objects that live in its nodes (same node, another node, absent key), whole foreach walks that set '
            'every key they visit, on String keys and String values (assignment of a String to itself: counter '
            'string_assigned_from_itself) as well as Int / struct types; assign from a map that is not a Tree (harness type PMap, '
            'repeated keys, empty, every kind); the odd-count constructor; String VALUES in the ordinary histories; Int keys at the '
            'ends of int64_t and 2^31 / 2^32 apart, String keys with bytes >= 0x80. '
            'non-trivial item = a successful set or rem whose resulting tree holds >= 2 bindings (so that a fix-up, a rotation or a '
            'recolouring is possible); distinct = distinct (operation text, resulting concrete tree dump) pair. The evidence also '
            'lists how often each branch of Tree_Set_Fix / Tree_Rem_Fix was taken (branch_* counters, computed by the driver). '
            'Third layer (cmph_* cases, corpus/tree_cmp_hash.ops): cmp(t, s) both ways and hash(t) of two trees given the same bindings '
            'in different insertion orders, then differing in one value (by 1, by 256: memcmp order of the struct values, by sign, by '
            '2^32), in one key, in length (proper prefix either way), empty, a tree with itself, copies, after rem2 / remroot / assign / '
            'resize — every key / value layout; oracle tree-cmp / tree-hash from the reference maps (counters cmp_equal / '
            'cmp_key_decides / cmp_value_decides / cmp_prefix_decides / cmp_with_itself / hash_of_empty and branch_cmp:* / '
            'branch_hash:*); `links` = per node the parent key and colour decoded from the RAW third word by the harness, against the '
            'table the driver reads back from words built with the extracted accessor expressions (link_tables counter).')
    trusted_base = ('harness/h_tree.c + lean/Driver/Tree.lean (the model/implementation correspondence is testing: identical concrete '
                    'tree after every operation)',
                    'parent pointers are represented by the zipper path; parent(child)==node is checked on the C side on every dump; '
                    'the packed word itself is modelled arithmetically on natural numbers (`& (~1)` = x - x % 2, `| 1`, `& 1`) for even '
                    'addresses: that calloc returns even addresses and that uintptr_t arithmetic is modular is assumed; masks other than '
                    '1 / ~1 are outside the translator\'s fragment (ExtractError)',
                    'cmp / hash of the ELEMENT types are parameters of the third layer (any value comparison, any hash functions); the op '
                    'files run them as Int_Cmp / strcmp / memcmp over little-endian words and Int_Hash / hash_data (the model of C10: '
                    'Cello.Hash.hashData over CelloGen.Hash, generator Hash); Tree_Cmp against a map that is not a Tree, Tree_Show, '
                    'Tree_Mark (C01), Tree_Iter_Type / Tree_Key_Type / Tree_Val_Type and the destruct / free order of Tree_Clear_Entry '
                    'stay outside the model (pinned text or exercised only)',
                    'the op files are run with Key.cmp = `compare` on Int / String / field lists; that Int_Cmp (translated) and strcmp on '
                    'unsigned bytes are lawful orders is PROVED (C03_int_keys, C03_string_keys over CelloGen.Cmp.intCmp / Cello.Cmp.bytesCmp) '
                    'and that they agree with `compare` is exercised by keys at the ends of int64_t, 2^31 / 2^32 apart and by UTF-8 keys '
                    '(byte order = code point order); String_Cmp = strcmp of the buffers is C02\'s StringCmpIsStrcmp / C09',
                    'a foreach walk that sets its own keys is run on the model as one setA step per key of the forward iteration taken '
                    'BEFORE the walk (Tree_Set on a present key changes no link, C03_source_as_modelled pins that text); the dump after '
                    'the walk is compared',
                    'destruct / free of keys and values is checked by ASan only (C05); the predecessor memcpy of Tree_Rem is modelled '
                    '(relocate: block move of header+key+header+value words with the widths from the Tree) and compared word by word',
                    'translate/g_tree.py (regular expressions and a small statement splitter over src/Tree.c, no C parser): it reads '
                    'the link-word indices, every payload-start `K * sizeof(var)`, the offset / width sums of Tree_Alloc, Tree_Key, '
                    'Tree_Val and of the memcpy of Tree_Rem, sizeof(struct Header) in words, the argument order and sign tests of the '
                    'four descent loops and the guards of Tree_Assign as DATA (CelloGen/Tree.lean) which the model evaluates and the '
                    'theorems C03_layout_current_source / C03_descent_current_source / C03_assign_current_source constrain; the control '
                    'flow of Tree_Set_Fix / Tree_Rem_Fix (per case: condition chain and actions) and of the other mirrored functions is '
                    'compared as normalised TEXT with the text the model was written against (C03_source_as_modelled), i.e. the step '
                    'from that text to the zipper functions is by hand and validated by the differential check')
    assumptions = ('keys are Int (whole int64_t range), Strings without blanks (ASCII and valid UTF-8 with bytes >= 0x80) or a 24-byte '
                   'plain struct with a lexicographic Cmp instance; values are Int, String or 24- / 40-byte plain structs; one key '
                   'type and one value type per tree at a time; set is only given keys '
                   'and values of the tree\'s types (cast raises otherwise: hypothesis WellTyped / WellTypedA of the theorems)',
                   'a key or value pointer obtained from the tree (iteration cursor, result of get) is used only while its node '
                   'exists: it may be given back to set / get / mem / rem of the same tree (generated: setk setv setkv getk memk remk, '
                   'walk / walkself = iteration interleaved with set of present keys, which changes no link), but no cursor is '
                   'advanced and no such pointer is read after a rem / resize / assign / del that removed its node (the node is freed: '
                   'use after free in the caller), and no insertion of a NEW key happens inside a foreach (rotations would not '
                   'invalidate the cursor, but the walk would no longer be the map\'s key sequence)',
                   'every tree is deleted by the driver with del; no collection runs between the operations of a history (the '
                   'collector\'s view of a Tree is the subject of C01)',
                   'the source of assign(tree, obj) is a Tree or a map whose iteration yields its keys once each in a fixed order and '
                   'whose get returns the value beside the key (harness type PMap); String_Assign on an operand that is a VIEW into the '
                   'target is known finding KF-C16-alias-operand and is not generated (the tree\'s own objects are whole objects)',
                   'sizes of key and value types are multiples of 8 (the model counts 8-byte words); other sizes misalign the '
                   'value header (known finding KF-C19-tree-misaligned-header) and are not generated',
                   'cmp(t, s) is generated for two Trees of the same key and value types (across types the element cmp raises TypeError '
                   'or compares raw bytes: C09 / C10 territory)',
                   'single thread; no allocation failure',
                   'nitems below 2^63')

    def cases(self, rng, tier, boost=1):
        quick = tier == 'quick'
        cs = []
        def add(name, lines): cs.append(Case(f'{name}{len(cs)}', lines))
        reps = (2 if quick else 6) * boost
        for rep in range(reps):
            for strkeys in (False, True):
                for order in ('asc', 'desc', 'alt'):
                    add(order, c_sequential(rng, strkeys, rng.choice([17, 33, 64, 100] if quick else [64, 150, 300, 700]), order))
                add('rand_small', c_random(rng, strkeys, 400 if quick else 3000, 12))
                add('rand_mid', c_random(rng, strkeys, 500 if quick else 6000, 60))
                add('rand_wide', c_random(rng, strkeys, 500 if quick else 6000, 400, p_set=0.55))
                add('rand_shrink', c_random(rng, strkeys, 300 if quick else 3000, 40, p_set=0.3))
                add('root', c_remove_root(rng, strkeys, 40 if quick else 300))
                add('two', c_remove_two_children(rng, strkeys, 48 if quick else 300))
                add('drain', c_drain_refill(rng, strkeys, 24 if quick else 120, 3 if quick else 9))
                add('assign', c_assign_copy(rng, strkeys, 12 if quick else 80))
            add('mixed', c_mixed_types(rng))
            # key and value types of different sizes: the node layout (Tree_Key / Tree_Val offsets, the block that Tree_Rem
            # relocates) is only exercised when ksize != vsize
            for kind in KINDS_NE:
                add('ne_reloc_' + kind + '_', c_relocate(rng, kind, 24 if quick else 160))
                add('ne_rand_' + kind + '_', c_random(rng, kind, 250 if quick else 3000, rng.choice([14, 40]) if quick else rng.choice([14, 60, 300])))
                add('ne_two_' + kind + '_', c_remove_two_children(rng, kind, 30 if quick else 200))
                add('ne_assign_' + kind + '_', c_assign_copy(rng, kind, 12 if quick else 80))
                if rep % 2 == 0 or not quick:
                    add('ne_root_' + kind + '_', c_remove_root(rng, kind, 30 if quick else 200))
                    add('ne_drain_' + kind + '_', c_drain_refill(rng, kind, 16 if quick else 100, 3 if quick else 6))
                    add('ne_seq_' + kind + '_', c_sequential(rng, kind, rng.choice([17, 33] if quick else [64, 150, 300]),
                                                             rng.choice(['asc', 'desc', 'alt'])))
            add('ne_mixed', c_mixed_sizes(rng, 10 if quick else 40))
            # assign / copy from empty and singleton sources, within one layout and across layouts
            allk = KINDS_EQ + KINDS_NE
            for kt, ks_ in [('i', 'i'), ('s', 's'), (rng.choice(KINDS_NE), rng.choice(KINDS_NE)),
                            (rng.choice(allk), rng.choice(allk)), ('i', rng.choice(KINDS_NE)), (rng.choice(KINDS_NE), 's')]:
                add('edge_' + kt + '_' + ks_ + '_', c_assign_edge(rng, kt, ks_, 10 if quick else 80))
            # the tree's own key / value objects as arguments (String keys and String values: assign of an object to itself)
            for kind in ('s', 'ss', 'is', 'ws', 'i', rng.choice(KINDS_NE), 'Ss'):
                add('own_' + kind + '_', c_own(rng, kind, 10 if quick else 60, 120 if quick else 1500))
            add('foreign', c_foreign(rng, 8 if quick else 60))
            # String values in the ordinary histories (in-place re-assignment and relocation of values that own memory)
            for kind in KINDS_STR:
                add('sv_rand_' + kind + '_', c_random(rng, kind, 250 if quick else 3000, rng.choice([14, 40])))
                add('sv_reloc_' + kind + '_', c_relocate(rng, kind, 24 if quick else 160))
                add('sv_assign_' + kind + '_', c_assign_copy(rng, kind, 12 if quick else 80))
            # key families that stress the order: Int keys 2^31 / 2^32 apart and at the ends of int64_t, String keys with bytes >= 0x80
            for kind in KINDS_ORDER:
                add('ord_rand_' + kind + '_', c_random(rng, kind, 250 if quick else 3000, rng.choice([15, 40])))
                add('ord_seq_' + kind + '_', c_sequential(rng, kind, rng.choice([15, 33] if quick else [64, 150]), rng.choice(['asc', 'desc', 'alt'])))
                add('ord_two_' + kind + '_', c_remove_two_children(rng, kind, 30 if quick else 200))
        # exhaustive insertion orders
        import math
        allkinds = KINDS_EQ + KINDS_NE
        for n in ([3, 4, 5] if quick else [3, 4, 5, 6]):
            total = math.factorial(n)
            idxs = list(range(total))
            if n >= 6 and quick: idxs = rng.sample(idxs, 150)
            for i in range(0, len(idxs), 120):
                # Int and String keys with Int values alternate as before; every third chunk uses a layout with ksize != vsize
                c = i // 120
                kind = KINDS_NE[(c // 3) % len(KINDS_NE)] if c % 3 == 2 else KINDS_EQ[c % 2]
                add(f'perm{n}_', c_exhaustive(n, kind, idxs[i:i+120]))
            if n <= 4:
                for kind in KINDS_NE:
                    add(f'perm{n}{kind}_', c_exhaustive(n, kind, idxs[:120]))
        # large trees
        if quick:
            add('big', c_big(rng, False, 3000, 3000))
            add('bigs', c_big(rng, True, 1500, 1500))
            add('bigne', c_big(rng, rng.choice(KINDS_NE), 1200, 1500))
        else:
            for rep in range(2 * boost):
                add('big', c_big(rng, False, 100000, 120000))
                add('bigs', c_big(rng, True, 30000, 50000))
                add('bigm', c_big(rng, False, 20000, 150000))
                add('bigne', c_big(rng, 'i3', 20000, 40000))
                add('bigne', c_big(rng, 'w5', 10000, 30000))
        # cmp / hash of whole trees (third layer), every key / value layout
        for rep in range((1 if quick else 4) * boost):
            for kind in ('i', 's', 'w', 'i3', 'w5', 's3', 'ss', 'is', 'I', 'S'):
                add('cmph_' + kind + '_', c_cmp_hash(rng, kind, rng.choice([3, 9, 20]) if quick else rng.choice([3, 9, 40, 120]),
                                                     25 if quick else 200))
        return cs

    @staticmethod
    def _pairs(case, c_out):
        ops = [l for l in case.lines if l and not l.startswith('#') and not l.startswith('auto ')]
        return list(zip(ops, core.lines_with('O ', c_out)))

    def nontrivial_items(self, case, c_out, m_out):
        items = set()
        for op, o in self._pairs(case, c_out):
            w = o.split()
            if len(w) >= 4 and w[1] in ('set', 'rem') and w[2] == 'ok' and w[3].startswith('n='):
                try: n = int(w[3][2:])
                except ValueError: continue
                if n >= 2: items.add(hash(op + '|' + o))
        return items

    def stats(self, case, c_out, m_out, acc):
        for l in core.lines_with('I ', c_out):
            for kv in l[2:].split():
                if '=' not in kv: continue
                k, v = kv.split('=', 1)
                try: v = int(v)
                except ValueError: continue
                if k.startswith('max_'): acc[k] = max(acc.get(k, 0), v)
                else: acc[k] = acc.get(k, 0) + v
        kind = case.name.rstrip('0123456789')
        acc['cases_' + kind] = acc.get('cases_' + kind, 0) + 1
        kinds = set((l.split() + ['', '', ''])[2] for l in case.lines if l.startswith('new '))
        if any(k.startswith('s') for k in kinds):
            acc['cases_with_string_keys'] = acc.get('cases_with_string_keys', 0) + 1
        if any(k in KINDS_NE and k != 'w3' for k in kinds):
            acc['cases_with_ksize_ne_vsize'] = acc.get('cases_with_ksize_ne_vsize', 0) + 1
        if any(k.startswith('w') for k in kinds):
            acc['cases_with_struct_keys'] = acc.get('cases_with_struct_keys', 0) + 1
        for l in core.lines_with('S branches', m_out):
            for kv in l.split()[2:]:
                k, v = kv.rsplit('=', 1)
                acc['branch_' + k] = acc.get('branch_' + k, 0) + int(v)
        for l in core.lines_with('O ', m_out):
            if ' ub' in l: acc['model_ub'] = acc.get('model_ub', 0) + 1
            if ' ok=0' in l: acc['invariant_violations_seen'] = acc.get('invariant_violations_seen', 0) + 1

    def model_selfcheck(self, case, m_out):
        """the model itself: an operation that is undefined (`ub`), an invalid tree, or an iteration that did not terminate"""
        for i, l in enumerate(core.lines_with('O ', m_out)):
            if l.endswith(' ub') or ' ok=0 ' in l or 'NOT-TERMINATED' in l:
                return f'observation #{i}: `{l[:200]}`'
        return None

SPEC = C03()
