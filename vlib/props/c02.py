"""C02 — Table behaves as a finite map whatever the hashing does (engine table)."""
import os, re, tempfile
from ..runner import Spec, Case
from .. import core

LCM = 5 * 11 * 23 * 53 * 101            # keys congruent modulo LCM collide at every size up to 101
BIG = [197, 389, 683, 1259, 2417]        # further table sizes; multiplied in for the larger cases
NT = 8

def modulus(upto, need=16):
    """keys congruent modulo this collide at every table size <= upto (as far as `need` multipliers still fit into an int64)"""
    m = LCM
    for p in BIG:
        if p <= upto and m * p * (need + 1) < 2**62: m *= p
    return m

class Gen:
    """op-file writer with a shadow of what is bound where (only to choose present/absent keys; the oracle is in the harness)"""
    def __init__(self, rng):
        self.rng = rng; self.lines = []; self.bound = [dict() for _ in range(NT)]; self.kind = ['I'] * NT
        self.nextval = 1
    def emit(self, s): self.lines.append(s)
    def val(self):
        self.nextval += 1
        r = self.rng.random()
        if r < 0.02: return self.rng.choice([-9223372036854775808, 9223372036854775807, 0, -1])
        return self.nextval if r < 0.9 else -self.nextval
    def new(self, t, kind, managed=False): self.emit(f'{"newm" if managed else "new"} {t} {kind}'); self.bound[t] = {}; self.kind[t] = kind
    def set(self, t, k): v = self.val(); self.emit(f'set {t} {k} {v}'); self.bound[t][k] = v
    def rem(self, t, k): self.emit(f'rem {t} {k}'); self.bound[t].pop(k, None)
    def get(self, t, k): self.emit(f'get {t} {k}')
    def mem(self, t, k): self.emit(f'mem {t} {k}')
    def resize(self, t, n):
        self.emit(f'resize {t} {n}')
        if n == 0: self.bound[t] = {}
    def assign(self, d, s):      # d == s allowed: assign(t, t) leaves t as it is
        self.emit(f'assign {d} {s}'); self.bound[d] = dict(self.bound[s]); self.kind[d] = self.kind[s]
    @staticmethod
    def keyorder(kind, k): return k.split(':')[0] if kind == 'S' else int(k.split(':')[0])
    def newp(self, t, kind, keys, odd=None):
        """tables[t] = new(Table, K, V, k1, v1, ...): keys may repeat; `odd` = one more argument (FormatError, t unchanged)"""
        toks = []; nb = {}
        for k in keys: v = self.val(); toks += [k, str(v)]; nb[k] = v
        if odd is not None: toks.append(odd)
        self.emit(' '.join([f'newp {t} {kind}'] + toks))
        if odd is None: self.bound[t] = nb; self.kind[t] = kind
    def assignm(self, t, kind, keys):
        """assign(tables[t], m) for a map m that is not a Table and yields these keys in this order (a key may repeat)"""
        ks = list(keys)
        toks = []; nb = {}
        for k in ks: v = self.val(); toks += [k, str(v)]; nb[k] = v
        self.emit(' '.join([f'assignm {t} {kind}'] + toks))
        self.bound[t] = nb; self.kind[t] = kind
    def alias(self, t, pool):
        """a `get` whose key argument lives in the table's own storage: the value object of any record (since fix bc940bb it is read
        like any other object: ValueError when it is not of the key type, else looked up), the stored key object (present or absent
        key), the value object of an absent key (KeyError before any value exists), and for Int -> Int tables the value object of
        a key whose value is bound to itself or to another bound key"""
        rng = self.rng; b = self.bound[t]; r = rng.random()
        absent = [k for k in rng.sample(pool, min(len(pool), 6)) if k not in b]
        if self.kind[t] == 'W' and r < 0.35: r = 0.4           # String value read as a String key: not expressible (no hash in the op file)
        if r < 0.35:
            self.emit(f'getv {t} {self.some_present(t) if (b and rng.random() < 0.8) else rng.choice(pool)}')
        elif r < 0.55:
            k = self.some_present(t) if (b and rng.random() < 0.8) else rng.choice(pool)
            self.emit(f'getk {t} {k}')
        elif r < 0.70 and absent and self.kind[t] != 'W': self.emit(f'getv {t} {absent[0]}')
        elif self.kind[t] == 'I':
            k = rng.choice(pool)
            if abs(int(k)) >= 2**62: return
            self.emit(f'set {t} {k} {k}'); b[k] = int(k)
            self.emit(f'getv {t} {k}')
            if rng.random() < 0.5:
                j = rng.choice(pool)
                if j != k:
                    self.emit(f'set {t} {j} {k}'); b[j] = int(k)
                    self.emit(f'getv {t} {j}'); self.emit(f'getk {t} {j}')
    def own(self, t, pool):
        """set / rem / mem / get whose argument objects live in the table's own slot array (what a user writes when updating or pruning
        while walking): k=<key> the key object stored for a bound key, v=<key> the value object of its record, o= an outside object.
        An object read as the other type (v= as key, k= as value) is looked up for Int -> Int tables and refused by the cast elsewhere
        (not generated for String -> String: the op file cannot say what the text hashes to); k=/v= of an unbound key: no such object."""
        rng = self.rng; b = self.bound[t]; kd = self.kind[t]
        if not b: return
        cross = kd != 'W'
        def src(form):      # the key token a reference is built from
            if form == 'o': return rng.choice(pool) if rng.random() < 0.6 else self.some_present(t)
            return self.some_present(t) if rng.random() < 0.92 else rng.choice(pool)
        def keyval(form, k):      # -> ('none' | 'err' | key token)
            if form == 'o': return k
            if k not in b: return 'none'
            if form == 'k': return k
            return str(b[k]) if kd == 'I' else 'err'
        r = rng.random()
        if r < 0.45:
            kf = rng.choice('kkkoov' if cross else 'kkkoo'); vf = rng.choice('vvvvok' if cross else 'vvvvo')
            if kf == 'o' and vf == 'o': vf = 'v'
            ks = src(kf); kv = keyval(kf, ks)
            if vf == 'o': vs = self.val(); vv = vs
            else:
                vs = src(vf)
                vv = 'none' if vs not in b else (b[vs] if vf == 'v' else (int(vs) if kd == 'I' else 'err'))
            self.emit(f'seta {t} {kf}={ks} {vf}={vs}')
            if 'none' not in (kv, vv) and 'err' not in (kv, vv): b[kv] = vv
        elif r < 0.70:
            kf = rng.choice('kkkkov' if cross else 'kkkko'); ks = src(kf); kv = keyval(kf, ks)
            self.emit(f'rema {t} {kf}={ks}')
            if kv not in ('none', 'err'): b.pop(kv, None)
        else:
            kf = rng.choice('kkov' if cross else 'kko'); ks = src(kf)
            self.emit(f'{rng.choice(["mema", "geta"])} {t} {kf}={ks}')
    def copy(self, d, s): self.emit(f'copy {d} {s}'); self.bound[d] = dict(self.bound[s]); self.kind[d] = self.kind[s]
    def some_present(self, t):
        b = self.bound[t]
        if not b: return None
        ks = list(b.keys())
        # favour recently inserted keys (deep in their cluster) and an occasional old one
        return ks[-1 - self.rng.randrange(min(len(ks), 8))] if self.rng.random() < 0.6 else self.rng.choice(ks)
    def churn(self, t, pool, nops, target, w_iter=0.03):
        """random ops on table t over the key pool, steering the size towards `target`"""
        rng = self.rng
        for _ in range(nops):
            b = self.bound[t]; r = rng.random()
            if rng.random() < 0.03: self.alias(t, pool); continue
            if rng.random() < 0.04: self.own(t, pool); continue
            grow = len(b) < target
            p_new = 0.45 if grow else 0.15
            p_rem = 0.12 if grow else 0.40
            if r < p_new:
                k = rng.choice(pool); self.set(t, k)
            elif r < p_new + 0.17:
                k = self.some_present(t)
                if k is not None: self.set(t, k)                 # update, usually of a non-first cluster member
            elif r < p_new + 0.17 + p_rem:
                k = self.some_present(t)
                if k is not None: self.rem(t, k)
            elif r < p_new + 0.17 + p_rem + 0.05:
                self.rem(t, rng.choice(pool))                     # often absent: KeyError, state unchanged
            elif r < p_new + 0.17 + p_rem + 0.13:
                self.get(t, rng.choice(pool) if rng.random() < 0.5 or not b else self.some_present(t))
            elif r < p_new + 0.17 + p_rem + 0.18:
                self.mem(t, rng.choice(pool))
            elif r < p_new + 0.17 + p_rem + 0.18 + w_iter:
                self.emit(rng.choice([f'iter {t}', f'iter {t}', f'riter {t}', f'len {t}', f'mark {t}', f'hash {t}']))
            else:
                k = rng.choice(pool); self.set(t, k)
    def drain(self, t, order='random'):
        ks = list(self.bound[t].keys())
        if order == 'random': self.rng.shuffle(ks)
        elif order == 'lifo': ks.reverse()
        for i, k in enumerate(ks):
            self.rem(t, k)
            if len(ks) - i <= 3: self.emit(f'riter {t}'); self.emit(f'iter {t}')      # the last entries alone, wherever they sit (slot 0, last slot)
    def ends(self, t, kind, pool):
        """a single entry, then two, iterated both ways: entries whose home is slot 0 or the last slot are taken from the pool's classes"""
        for k in self.rng.sample(pool, min(3, len(pool))):
            self.new(t, kind); self.set(t, k); self.emit(f'riter {t}'); self.emit(f'iter {t}')
            k2 = self.rng.choice(pool)
            self.set(t, k2); self.emit(f'riter {t}'); self.rem(t, k); self.emit(f'riter {t}'); self.emit(f'iter {t}')

def int_pool(rng, size, upto, classes):
    """Int keys from a few residue classes modulo `modulus(upto)`: every class is one collision cluster at every size"""
    m = modulus(upto, size // len(classes) + 1)
    maxmul = max(2, (2**62) // m)
    pool = []
    for i in range(size):
        c = classes[i % len(classes)]
        mul = i // len(classes)
        if mul >= maxmul: mul = rng.randrange(maxmul)
        k = c + m * mul
        pool.append(str(k))
    return pool

def wide_int_pool(rng, size, classes):
    """Int keys that collide at every table size up to 101 AND differ pairwise by non-zero multiples of 2^32 (half of them) or by
    2^31-ish amounts: a key comparison narrower than 64 bits (a difference truncated to int, a 32-bit compare) merges or misorders them"""
    m = LCM * 2**32
    maxmul = (2**62) // m
    pool = []
    for i in range(size):
        c = classes[i % len(classes)]
        j = (i // len(classes)) % maxmul
        if i % 8 == 7: pool.append(str(c - LCM * 2**31 * (2 * (j % 100) + 1)))       # exactly -2^31 in the low word of the difference to c
        else: pool.append(str(c + m * j if i % 4 != 3 else c + LCM * (2**31 + j)))
        if rng.random() < 0.15: pool.append(str(-(c + m * j) - 1))
    return pool

def probe_pool(rng, size, mode, upto=101):
    """probe keys `id:hash` with an adversarial hash function of the id"""
    m = modulus(upto)
    out = []
    base = rng.randrange(1, 1000)
    for i in range(size):
        ident = base + i
        if mode == 'const': h = 7
        elif mode == 'two': h = (ident % 2) * m + 3
        elif mode == 'end': h = m * (1 + ident % 5) - 1 - (ident % 2)          # home = nslots-1 / nslots-2 at every size: clusters wrap
        elif mode == 'adjacent': h = m * (ident % 7) + (ident % 3)              # three adjacent homes: overlapping runs
        elif mode == 'maxu64': h = 2**64 - 1 - (ident % 3)
        else: h = (ident * 2654435761) % 2**64
        out.append(f'{ident}:{h}')
    return out

def q_pool(rng, size, mode):
    """keys `id:hash` of the 12-byte key type: int32 id, uint32 hash chosen adversarially (LCM < 2^23: up to 600 multiples fit)"""
    base = rng.randrange(1, 1000); out = []
    for i in range(size):
        ident = base + i
        if mode == 'const': h = 7
        elif mode == 'end': h = LCM * (1 + ident % 5) - 1 - (ident % 2)
        elif mode == 'adjacent': h = LCM * (ident % 7) + (ident % 3)
        else: h = (ident * 2654435761) % 2**32
        out.append(f'{ident}:{h}')
    return out

def own_case(rng, kind, pool, managed):
    """update and prune WHILE WALKING, with the objects the table hands out: fill to the last item count before a growth, then
    set(t, newkey, v_of_present) (growth with a value object of the old array as the source), set(t, p, v) for every stored key
    object p with value objects v of other records (replace in place: the record of p is destructed and rewritten), for Int -> Int also
    the value object read as a key (a new key inserted under its own argument), then mem / rem with the stored key objects down through
    the shrinking sizes; iteration and len in between"""
    g = Gen(rng); t = rng.randrange(NT); g.new(t, kind, managed)
    p = rng.choice([5, 11, 23, 53]); lo, hi = SLOT_RANGE[p]
    pool = list(dict.fromkeys(pool))
    fresh = [k for k in pool]
    rng.shuffle(fresh)
    while len(g.bound[t]) < hi and fresh: g.set(t, fresh.pop())
    b = g.bound[t]
    def pres(): return rng.choice(list(b.keys()))
    # growth under a value object of the old array (and under a stored key object read as a value, Int -> Int)
    if fresh:
        nk = fresh.pop(); vs = pres(); g.emit(f'seta {t} o={nk} v={vs}'); b[nk] = b[vs]
    g.emit(f'len {t}')
    if kind == 'I' and rng.random() < 0.7:
        ks = pres(); vs = pres(); g.emit(f'seta {t} v={ks} k={vs}'); b[str(b[ks])] = int(vs)
    # update while walking
    for x in list(b.keys()):
        y = pres(); g.emit(f'seta {t} k={x} v={y}'); b[x] = b[y]
        if rng.random() < 0.3: g.emit(f'geta {t} k={x}')
        if rng.random() < 0.15: g.emit(f'seta {t} k={x} v={x}')            # both objects in one record
        if rng.random() < 0.15: v = g.val(); g.emit(f'seta {t} k={x} o={v}'); b[x] = v
    if rng.random() < 0.5: g.emit('gc')
    g.emit(rng.choice([f'iter {t}', f'riter {t}']))
    if kind == 'I':
        for x in rng.sample(list(b.keys()), min(4, len(b))):
            if x not in b: continue
            y = pres(); g.emit(f'seta {t} v={x} v={y}'); b[str(b[x])] = b[y]      # value object as key: insertion moves its own record
            g.emit(f'mema {t} v={x}')
            if rng.random() < 0.5:
                kx = str(b[x]); g.emit(f'rema {t} v={x}'); b.pop(kx, None)
    else:
        x = pres(); g.emit(f'seta {t} v={x} v={x}' if kind != 'W' else f'seta {t} k={x} v={x}'); g.emit(f'rema {t} v={x}' if kind != 'W' else f'mema {t} k={x}')
    # prune while walking, down through the shrinking sizes
    ks = list(b.keys()); rng.shuffle(ks)
    for i, x in enumerate(ks):
        if x not in b: continue
        if rng.random() < 0.4: g.emit(f'mema {t} k={x}')
        g.emit(f'rema {t} k={x}'); b.pop(x, None)
        if rng.random() < 0.1: g.emit(f'rema {t} k={x}'); g.emit(f'seta {t} k={x} o=1')      # the object is gone: nothing is called
        if len(b) in (1, 4, 9, 20): g.emit(f'iter {t}')
    g.emit(f'len {t}'); g.emit(f'check {t}')
    g.churn(t, pool, 30, 6)
    return g.lines

def markhash_case(rng, kind, pool, managed):
    """the collector's view (Table_Mark) and hash(t) (Table_Hash): the same bindings bound in two orders in two tables (colliding keys:
    the slot orders differ, one table with an extra key removed again and an update in between), mark / hash of both; then one table
    through every size: mark / hash at the last item count before each growth, right after it, and on the way down through the shrinking
    sizes to a single record and none; after resize(t, 0) (no slots), after a reserve (mostly empty records), after new with pairs /
    assign from another map, of a copy (collector-managed) before and after a forced collection"""
    g = Gen(rng); a, b, c = rng.sample(range(NT), 3)
    g.new(a, kind, managed); g.new(b, kind, rng.random() < 0.3)
    pool = list(dict.fromkeys(pool)); rng.shuffle(pool)
    g.emit(f'mark {a}'); g.emit(f'hash {a}')                                   # fresh table: 5 empty records
    n = rng.choice([2, 3, 4, 4, 8, 9, 15, 20])
    ks = pool[:n]; extra = pool[n]
    vals = {}
    for k in ks: g.set(a, k); vals[k] = g.bound[a][k]
    order = list(ks)
    if rng.random() < 0.7: rng.shuffle(order)
    else: order.reverse()
    g.set(b, extra)
    for k in order:
        v = vals[k] if rng.random() < 0.7 else 0
        g.emit(f'set {b} {k} {v}'); g.bound[b][k] = v
    for k in order: g.emit(f'set {b} {k} {vals[k]}'); g.bound[b][k] = vals[k]      # updates in place: now the bindings of `a`
    g.rem(b, extra)
    for t in (a, b): g.emit(f'hash {t}'); g.emit(f'mark {t}'); g.emit(f'iter {t}')
    # through the sizes
    fresh = pool[n + 1:]
    for p in (5, 11, 23, 53):
        lo, hi = SLOT_RANGE[p]
        if len(g.bound[a]) > hi or not fresh: continue
        while len(g.bound[a]) < hi and fresh: g.set(a, fresh.pop())
        g.emit(f'mark {a}'); g.emit(f'hash {a}')
        if fresh: g.set(a, fresh.pop()); g.emit(f'mark {a}'); g.emit(f'hash {a}')   # right after the growth
    g.copy(c, a); g.emit(f'hash {c}'); g.emit(f'mark {c}'); g.emit('gc'); g.emit(f'mark {c}'); g.emit(f'hash {c}')
    ks = list(g.bound[a].keys()); rng.shuffle(ks)
    for k in ks:
        g.rem(a, k)
        if len(g.bound[a]) in (48, 47, 21, 20, 10, 9, 5, 4, 1, 0): g.emit(f'mark {a}'); g.emit(f'hash {a}')
    g.resize(a, 0); g.emit(f'mark {a}'); g.emit(f'hash {a}')
    g.set(a, pool[0]); g.emit(f'mark {a}'); g.emit(f'hash {a}')
    g.resize(a, rng.choice([30, 100, 300])); g.emit(f'mark {a}'); g.emit(f'hash {a}')
    if kind in 'ISPQ':
        pk = [rng.choice(pool[:6]) for _ in range(rng.choice([0, 3, 5, 9]))]
        g.newp(b, kind, pk); g.emit(f'mark {b}'); g.emit(f'hash {b}')
        g.assignm(b, kind, rng.sample(pool, min(len(pool), rng.choice([0, 1, 4, 10])))); g.emit(f'mark {b}'); g.emit(f'hash {b}')
    g.assign(b, c); g.emit(f'hash {b}'); g.emit(f'hash {c}'); g.emit(f'mark {b}')
    g.churn(c, pool, 25, 6, w_iter=0.2)
    return g.lines

_string_cache = {}
def string_pool(rng, hexe):
    """String keys whose real hashes collide modulo 5, 11 and 23 at once (hashes are asked from the library itself)"""
    if hexe is None: return None
    key = hexe
    if key not in _string_cache:
        names = [f'k{i}' for i in range(60000)] + [f'key_{i:x}' for i in range(20000)]
        with tempfile.NamedTemporaryFile('w', suffix='.txt', delete=False, dir=core.CACHE) as f:
            f.write('\n'.join(names) + '\n'); path = f.name
        rc, out, err = core.sh([hexe, '--hashes', path], timeout=120, env=core.HENV)
        os.unlink(path)
        hs = out.split()
        if rc != 0 or len(hs) != len(names): _string_cache[key] = None
        else: _string_cache[key] = list(zip(names, (int(h) for h in hs)))
    allk = _string_cache[key]
    if not allk: return None
    groups = {}
    for nme, h in allk: groups.setdefault(h % (5 * 11 * 23), []).append(f'{nme}:{h}')
    big = sorted(groups.values(), key=len, reverse=True)[:6]
    g = rng.sample(big, 2)
    pool = g[0] + g[1]
    # plus keys colliding modulo 53 and 101 with the first
    h0 = int(g[0][0].split(':')[1])
    extra = [f'{nme}:{h}' for nme, h in allk if h % 53 == h0 % 53 and h % 5 == h0 % 5][:40]
    extra2 = [f'{nme}:{h}' for nme, h in allk if h % 101 == h0 % 101][:40]
    return pool + extra + extra2

# ---------------------------------------------------------------------------------------------- near keys
# Keys that a WEAKENED key comparison would merge (a prefix compare, a compare of all but the last byte, a case fold, a 7-bit compare,
# a compare narrower than the value), placed on ONE probe path: a table merges two keys only when the second meets the first while
# probing, i.e. when their hashes agree modulo the current slot count.  Unrelated names with searched collisions never are in such a
# relation, and near keys with unrelated hashes never meet; so the pairs are searched: hashes are asked from the library under test.
SLOT_RANGE = {5: (0, 4), 11: (5, 9), 23: (10, 20), 53: (21, 47), 101: (48, 90)}     # nitems for which Table_Ideal_Size is this prime
NEAR_RELATIONS = ('ext', 'ext2', 'last', 'case1', 'caseall', 'casemid', 'hilast', 'hifirst')

def esc_byte(b): return chr(b) if (chr(b).isalnum() and b < 128) or b == ord('_') else '~%02x' % b

def near_family(i):
    """a base name and its near variants: (relation to the base, key text)"""
    b = f'item{i:05d}'
    return [('base', b), ('ext', b + 's'), ('ext2', b + '_x'), ('last', b[:-1] + 'x'), ('case1', 'I' + b[1:]), ('caseall', b.upper()),
            ('casemid', b[:3] + 'M' + b[4:]), ('hilast', b[:-1] + esc_byte(ord(b[-1]) | 0x80)), ('hifirst', esc_byte(ord(b[0]) | 0x80) + b[1:])]

_near_cache = {}
def near_tables(hexe, nfam=24000):
    """-> dict: 'fam' = list of families [(rel, text, hash)], 'by_mod' = {m: [(rel, a, b)]} near pairs (base, variant) and (variant, variant)
    whose hashes agree modulo m, for m in 5, 11, 23, 53, 101 and 5*11*23; 'control' = pairs that agree modulo none of 5, 11, 23"""
    if hexe is None: return None
    if hexe in _near_cache: return _near_cache[hexe]
    fams = [near_family(i) for i in range(nfam)]
    names = [t for f in fams for _, t in f]
    with tempfile.NamedTemporaryFile('w', suffix='.txt', delete=False, dir=core.CACHE) as f:
        f.write('\n'.join(names) + '\n'); path = f.name
    rc, out, err = core.sh([hexe, '--hashes', path], timeout=120, env=core.HENV)
    os.unlink(path)
    hs = out.split()
    if rc != 0 or len(hs) != len(names):
        _near_cache[hexe] = None; return None
    it = iter(int(h) for h in hs)
    fam = [[(r, t, next(it)) for r, t in f] for f in fams]
    mods = [5, 11, 23, 53, 101, 5 * 11 * 23]
    by_mod = {m: [] for m in mods}; control = []
    for f in fam:
        for x in range(len(f)):
            for y in range(x + 1, len(f)):
                (ra, a, ha), (rb, b, hb) = f[x], f[y]
                rel = rb if ra == 'base' else ra + '+' + rb
                d = ha - hb
                for m in mods:
                    if d % m == 0: by_mod[m].append((rel, f'{a}:{ha}', f'{b}:{hb}'))
                if ra == 'base' and all(abs(ha % m - hb % m) not in (0, 1, m - 1) for m in (5, 11, 23)) and len(control) < 400:
                    control.append((rel, f'{a}:{ha}', f'{b}:{hb}'))
    _near_cache[hexe] = dict(fam=fam, by_mod=by_mod, control=control)
    return _near_cache[hexe]

def pick_pairs(rng, pairs, n, want_rel=None):
    """n pairs over pairwise distinct keys, relations spread (direct base/variant pairs first)"""
    by_rel = {}
    for p in pairs: by_rel.setdefault(p[0], []).append(p)
    rels = [r for r in NEAR_RELATIONS if r in by_rel] + sorted(r for r in by_rel if r not in NEAR_RELATIONS)
    if want_rel: rels = [r for r in rels if r == want_rel] or rels
    out = []; used = set(); guard = 0
    while len(out) < n and guard < 40 * n + 40:
        guard += 1
        r = rels[(guard - 1) % len(rels)] if rels else None
        if r is None: break
        p = rng.choice(by_rel[r])
        if p[1] in used or p[2] in used: continue
        used.update((p[1], p[2])); out.append(p)
    return out

def pair_script(g, t, a, b):
    """every order of binding / unbinding two near keys that a merging table gets wrong: set of one must not touch the other,
    mem/get of the unset one must fail, rem of one must leave the other"""
    rng = g.rng
    if rng.random() < 0.5: a, b = b, a
    if a in g.bound[t]: g.rem(t, a)
    if b in g.bound[t]: g.rem(t, b)
    g.set(t, a); g.mem(t, b); g.get(t, b); g.rem(t, b)           # b absent: false, KeyError, KeyError (and a stays)
    g.get(t, a); g.set(t, b); g.emit(f'len {t}'); g.get(t, a); g.get(t, b)
    if rng.random() < 0.5: g.emit(f'getk {t} {b}')
    g.set(t, a); g.get(t, b)                                     # update of the first must not rebind the second
    g.rem(t, a); g.mem(t, a); g.mem(t, b); g.get(t, b); g.emit(rng.choice([f'iter {t}', f'riter {t}']))
    g.set(t, a); g.rem(t, b); g.mem(t, a); g.get(t, a)
    if rng.random() < 0.6: g.set(t, b)

def steer(g, t, fillers, lo, hi):
    """bring nitems of table t into [lo, hi] with filler keys (so that nslots is the prime the pairs collide at)"""
    rng = g.rng; guard = 0
    while len(g.bound[t]) < lo and guard < 400:
        guard += 1; g.set(t, rng.choice(fillers))
    while len(g.bound[t]) > hi:
        g.rem(t, g.some_present(t))

def near_case(rng, nt, p):
    """table kept at `p` slots, filled mostly with near pairs whose hashes agree modulo p"""
    g = Gen(rng); t = rng.randrange(NT); g.new(t, 'S')
    lo, hi = SLOT_RANGE[p]
    pairs = pick_pairs(rng, nt['by_mod'][p], max(2, (hi + 1) // 2))
    pool = [k for pr in pairs for k in pr[1:]]
    fillers = [f'{x[1]}:{x[2]}' for f in rng.sample(nt['fam'], 12) for x in f[:2]]
    fillers = [k for k in fillers if k not in pool]
    mid = (lo + hi) // 2
    g.churn(t, pool, (hi + 1) * 3, mid, w_iter=0.05)
    for pr in pairs[: 6 if p <= 23 else 10]:
        steer(g, t, fillers, max(lo, 0), max(lo, hi - 2))        # room for both keys of the pair without growing
        if len(g.bound[t]) >= lo + 2 or lo == 0: pair_script(g, t, pr[1], pr[2])
        if rng.random() < 0.3: g.churn(t, pool, 6, mid)
    g.emit(f'iter {t}'); g.emit(f'len {t}')
    g.churn(t, pool, (hi + 1) * 2, mid)
    g.drain(t, 'random')
    return g.lines

def near_growth_case(rng, nt):
    """pairs whose hashes agree modulo 5, 11 AND 23: bound at 5 slots, carried through 11 and 23 slots (still on one path), on to 53
    and 101 and back down by removals; every size is passed with both keys present"""
    g = Gen(rng); t = rng.randrange(NT); g.new(t, 'S')
    pairs = pick_pairs(rng, nt['by_mod'][5 * 11 * 23], 4)
    pool = [k for pr in pairs for k in pr[1:]]
    fillers = [f'{x[1]}:{x[2]}' for f in rng.sample(nt['fam'], 40) for x in f[:2]]
    fillers = [k for k in fillers if k not in pool]
    first = pairs[0]
    pair_script(g, t, first[1], first[2])
    for p in (5, 11, 23, 53, 101):
        lo, hi = SLOT_RANGE[p]
        steer(g, t, fillers, lo, hi - 2)
        for pr in pairs[: 2 if p > 23 else 4]:
            if len(g.bound[t]) + 2 <= hi: pair_script(g, t, pr[1], pr[2])
        for k in pool: g.mem(t, k)
    for p in (53, 23, 11, 5):
        lo, hi = SLOT_RANGE[p]
        while len(g.bound[t]) > hi - 1:
            ks = [k for k in g.bound[t] if k not in pool] or list(g.bound[t])
            g.rem(t, rng.choice(ks))
        for k in pool: g.get(t, k)
        if len(g.bound[t]) + 2 <= hi: pair_script(g, t, first[1], first[2])
    g.emit(f'iter {t}'); g.drain(t, 'random')
    return g.lines

def near_control_case(rng, nt):
    """control group: near pairs whose home slots differ (and are not adjacent) at 5, 11 and 23 slots, in sparse tables"""
    g = Gen(rng); t = rng.randrange(NT); g.new(t, 'S')
    for pr in rng.sample(nt['control'], min(6, len(nt['control']))):
        g.new(t, 'S'); pair_script(g, t, pr[1], pr[2])
    return g.lines

def near_probe_pool(rng, size):
    """probe keys whose ids agree modulo 2^8, 2^16 or 2^32 (a comparison of a narrower id would merge them) under a hash with two values"""
    m = modulus(101); base = rng.randrange(1, 200); out = []
    for i in range(size):
        step = (2**32, 256, 65536)[i % 3]
        ident = base + (i // 3) * step * rng.choice([1, 1, -1])
        if f'{ident}:' in ''.join(out): ident = base + (i + 1000) * step
        out.append(f'{ident}:{(i % 2) * m + 3}')
    return list(dict.fromkeys(out))

class C02(Spec):
    id = 'C02'; engine = 'table'; harness = 'h_table'; driver = 'drv_table'
    generators = ('Table', 'Cmp', 'Hash')      # Cmp: `eq` + Int_Cmp, Hash: hash_data, Table: also the text of String_Cmp — the Int / String key instances (C02_int_keys, C02_string_keys)
    harness_timeout = 600
    # Table_Get's "is the key inside my own storage" test (Table.c:524) is address arithmetic outside ISO C by construction: it compares
    # `key` with `t->data` by `>=` / `<` although the two usually point into different objects (C11 6.5.8p5: undefined), and on a cleared
    # table (data == NULL, nslots == 0) it computes NULL + 0 (6.5.6p8: undefined in C, defined in C++).  UBSan's pointer-overflow check
    # flags only the second in C mode; on a flat address space both are plain integer comparisons, no supported platform misbehaves, and the
    # outcome (test false, fall through to the probing loop / KeyError) is what the model has.  Decision, stated in `assumptions` and
    # `trusted_base` (audit 2, item 5): that one check is switched off, the flat-address-space reading is an explicit assumption, and the
    # two-line guard `t->nslots isnt 0 and` in front of the test is proposed to the coordinator (same decision as C12).
    harness_flags = ('-fno-sanitize=pointer-overflow',)
    technique = ('Lean 4 proof: the robin-hood model of Table.c (insert with displacement and in-place update, backward-shift removal, '
                 'rehash as a fold, resize, assign/copy incl. self-assignment, constructor with pairs, assign from another kind of map, the address '
                 'test of Table_Get, set/rem/mem/get given the table\'s own stored key and value objects, Table_Mark as the list of callback calls, Table_Hash as a fold over iteration) refines an association list for every hash function and every history, by a local '
                 'slot-array invariant; source-derived parameters (prime table, load factor, tie rule, empty-table guard, self-assignment guard, '
                 'probe arithmetic, eq/Int_Cmp/hash_data and the text of String_Cmp for the Int and String key classes, the bodies of the hand-mirrored '
                 'functions pinned per function group) regenerated each run; white-box differential check of the whole slot array against the real Table after every operation')
    level_text = ('Theorem C02_refines_map: for every hash function, every key type with decidable equality and every history of '
                  'new/set/rem/get/mem/len/iterate/resize/assign/copy over several tables (assign(t, t) included; new with initial pairs and assign '
                  'from a map that is not a Table included), the model of src/Table.c never fails and its observations are those of an association-list specification, with the slot-array invariant '
                  '(stored home = hash % nslots, distinct keys, probe-distance order, an empty slot, nitems = occupied) holding after every step. '
                  'C02_int_keys / C02_string_keys instantiate it with the key test eq() over Int_Cmp resp. strcmp and the hashes Int_Hash resp. hash_data, '
                  'as translated from the source; C02_string_keys first proves its explicit assumption StringCmpIsStrcmp (String_Cmp, String\'s registered Cmp instance, '
                  'is strcmp on the two buffers) for the text that is in src/String.c now. get with ANY key object — outside the table, the stored key object of a '
                  'record (iteration), the value object of a record, an address in an empty record — agrees with the map (C02_get_mem_agree, no `outside` '
                  'hypothesis since fix bc940bb; the OLD address test is refuted as an explicit variant). '
                  'C02_refines_map_own_objects: the same refinement for histories in which the key argument of set/rem/mem/get and the value argument of set are the key object the table '
                  'itself stores for a key (what foreach hands out) or the value object of one of its records (what get returned) — update and prune while walking, growth under the table\'s own value object. '
                  'C02_last_set_wins (no restriction on the history any more): get answers what lastBinding computes from the operation list alone, through assign, copy, constructor pairs and assignment from another map. '
                  'C02_refines_map_mark_hash (extension round): the same refinement for histories interleaved with Table_Mark(t, gc, f) and hash(t): the calls of the marking callback come in (key object, value object of the same record) pairs that are a permutation of the map\'s bindings, two per binding, each an object of an occupied record inside the array (C02_mark_reports_bindings: the collector is told every bound object exactly once and never an empty record); hash(t) is the xor-fold over the map\'s bindings and so depends on the bindings only, not on placement, collisions, growth or the order of the operations (C02_hash_depends_on_bindings_only). '
                  'C02_source_as_modelled_*: the bodies of Table_Set_Move, Table_Rehash, Table_Rem, Table_Mem/Get, Table_Clear/Resize/Len, the four iterator functions, Table_Mark and Table_Hash equal the texts the model was written against. '
                  'The parameters a source change can flip (Table_Primes, load factor, `j > p`, the nslots = 0 guard, the self-assignment guard, Table_Probe) are regenerated '
                  'from /repo on every run and the theorems are re-checked against them; the model is tied to the real Table by comparing the '
                  'complete slot array, nitems and nslots after every operation of thousands of adversarial histories (keys colliding at every '
                  'size passed through, String keys with searched collisions, NEAR String keys — proper prefixes and extensions, last byte, case, bit 7 — searched so that '
                  'the two keys of a pair share a probe path at the table sizes in use, Int keys 2^31 / 2^32 apart, probe ids equal modulo 2^8..2^32, a probe element type with its own hash), and the real Table is '
                  'checked directly against an independent map plus white-box invariants.')
    level_note = ('Trusted: Lean kernel; axioms propext/Quot.sound/Classical.choice at most; translate/g_table.py (regex extraction); the '
                  'harness/driver comparison (testing) as the link between src/Table.c and the model; memory layout of a slot, `assign`/`destruct` '
                  'of elements and hash()/eq() of Int/String are taken as functions (C09/C10/C05 cover them); strcmp itself (libc) is modelled by bytesCmp, the tie is the '
                  'pinned text of String_Cmp plus the near-key correspondence runs. hash() of a value object is a function of the value (C10). Not covered: Table_Cmp (slot-order dependent: KF-C10-table-cmp) and Table_Show (C14), Table_Del / the destruct calls (oracle only: live-element ledger of the probe types), Float keys (eq is not an equivalence), allocation failure.')
    rule = ('op files over 8 table variables: (a) Int keys from 1-3 residue classes modulo lcm(5,11,23,53,101)[*197*389...] (in a third of the cases: keys that in addition differ by multiples of 2^32) so that every class is '
            'one collision cluster at every table size passed through, phases grow / churn (new keys, updates biased to recently inserted = '
            'non-first cluster members, removals of present and absent keys, get/mem/len/iter/riter) / drain / refill; (b) probe element type with '
            'adversarial hash functions (constant, two values, home = last slots so clusters wrap, adjacent homes, 2^64-1); (c) String keys '
            'whose real hashes collide modulo 5*11*23 (hashes obtained from the library under test); (c\') near String keys: families item<n> / +s / +_x / last byte / '
            'case of one or all letters / bit 7 of the last or first byte (`~hh` escapes), pairs searched with the library\'s hash so that both keys have one home modulo 5, 11, 23, 53 or 101 '
            '(the table is steered to that slot count and every order of set/mem/get/rem/update of the two keys is run) or modulo 5*11*23 (carried through growth and shrinking), '
            'plus a control group whose homes never meet; probe ids equal modulo 2^8/2^16/2^32 under a two-valued hash; (d) resize(0) then use, reserve then '
            'fill, refused shrink, assign (one in five: assign(t, t)) and copy between tables of different kinds, new with 0-30 initial pairs (keys '
            'repeat, odd argument count), assign from a probe map type that is not a Table; in all phases 3% of the ops are gets whose key object lives '
            'in the table (getk: stored key object; getv: value object of any record) and 4% are seta/rema/mema/geta: set/rem/mem/get whose key argument (and for set the value argument) is '
            'the stored key object k=<key> or the value object v=<key> of a record of the same table (an object read as the other type: looked up for Int -> Int, ValueError elsewhere; not generated for '
            'String -> String), or an outside object; (d\') per kind a directed update-and-prune-while-walking case: fill to the last item count before a growth, set(t, newkey, v_of_present), '
            'set(t, p, v) for every stored key object, value objects as keys (Int -> Int), mem/rem with the stored key objects down through the shrinking sizes; table kinds I Int->Int, S String->Int, '
            'P PKey->PVal (24/16 bytes), V Int->String and W String->String (values that own memory), J Int->PVal (ksize < vsize), Q a 12-byte key type (Table_Size_Round); 30-40% of the tables '
            'are collector-managed (newm, copy) with forced collections (gc) between operations; (e) larger tables (window dumps + checksums); '
            '(f) Table_Ideal_Size on ranges; (g) mark / hash (Table_Mark through the public mark() with a recording callback, hash(t)): mixed into every churn phase and the resize(0) phase, '
            'plus per kind a directed case: the same bindings bound in two orders in two tables (different slot orders, one with an extra key removed again and updates in place), one table through every size (last count before each growth, '
            'right after it, down through the shrinking sizes to one record and none), after resize(t, 0), after a reserve, after new with pairs / assign from another map / assign, a managed copy around a forced collection; the harness '
            'prints branch counters (calls on zero-slot tables, records skipped / reported, wrapped clusters, hashes of empty tables, bindings folded). non-trivial observation = the dump shows an entry away from its home slot, or the op raised '
            'KeyError/FormatError, or it rehashed; distinct = distinct text of (op, observation line).')
    trusted_base = ('translate/g_table.py generator Table (regex over src/Table.c)',
                    'harness/h_table.c + lean/Driver/Table.lean (correspondence is testing)',
                    'hash(), eq(), assign(), destruct() of the element types are functions of the value (C05/C09/C10)',
                    'flat address space: the address test of Table_Get (relational comparison of unrelated pointers, NULL + 0 on a cleared table) behaves as on integer addresses; '
                    'UBSan pointer-overflow check off for the harness')
    assumptions = ('one hash value per key (hash is a function of the key, eq keys hash equally: C10)',
                   'key equality is decided by eq() over the comparison the key type registers and IS equality of the value: proved from the translated eq/Int_Cmp for Int; '
                   'for String it is the explicit assumption StringCmpIsStrcmp (String_Cmp = strcmp of the two buffers), checked against the source text on every run',
                   'fewer than 2^63 items; no pointer into the slot array is used after the call that mutates the table returns (argument objects of the call itself may live in the slot array: C02_refines_map_own_objects)',
                   'pointers are compared and offset as integer addresses (Table_Get address test: see trusted_base); String -> String tables: a value object is not passed as a key argument (the op file cannot carry its hash)',
                   'single thread; allocation does not fail')

    def _hexe(self):
        try:
            ok, exe, _ = core.build_harness(self.harness, flags=self.harness_flags, defines=self.harness_defines, libs=self.harness_libs)
            return exe if ok else None
        except Exception:
            return None

    def cases(self, rng, tier, boost=1):
        quick = tier == 'quick'
        cs = []
        reps = (3 if quick else 24) * boost
        sizes_q = [3, 8, 20, 45, 90, 170]
        # (a) Int keys, collision classes
        for rep in range(reps):
            for target in (sizes_q if quick else sizes_q + [350, 600]):
                g = Gen(rng)
                ncls = rng.choice([1, 1, 2, 3])
                classes = rng.sample([0, 1, 2, 3, 4, LCM - 1, LCM - 2, 100, -1 - LCM, -3], ncls)
                upto = 101 if target < 90 else (389 if target < 300 else 1259)
                pool = int_pool(rng, int(target * 1.6) + 4, upto, classes)
                if target <= 90 and rep % 3 == 1: pool = wide_int_pool(rng, int(target * 1.6) + 4, classes)
                t = rng.randrange(NT)
                if target <= 20: g.ends(t, 'I', pool)
                g.churn(t, pool, target * 4 + 30, target)
                g.emit(f'iter {t}'); g.emit(f'riter {t}')
                g.drain(t, rng.choice(['random', 'lifo', 'fifo']))
                g.emit(f'len {t}'); g.emit(f'iter {t}')
                g.churn(t, pool, target * 2 + 20, max(2, target // 2))
                cs.append(Case(f'int{rep}_{target}', g.lines))
        # (b) probe element type, adversarial hash functions
        for rep in range(reps):
            for mode in ['const', 'two', 'end', 'adjacent', 'maxu64', 'mult', 'nearid']:
                g = Gen(rng)
                target = rng.choice([4, 9, 18, 40, 80] if quick else [4, 9, 18, 40, 80, 160, 300])
                if mode == 'nearid': target = min(target, 80)
                pool = near_probe_pool(rng, int(target * 1.7) + 3) if mode == 'nearid' else probe_pool(rng, int(target * 1.7) + 3, mode, 101 if target < 90 else 389)
                t = rng.randrange(NT); g.new(t, 'P')
                if target <= 18: g.ends(t, 'P', pool)
                g.churn(t, pool, target * 4 + 20, target)
                g.drain(t, 'random'); g.emit(f'len {t}')
                g.churn(t, pool, target * 2, target // 2 + 1)
                if rng.random() < 0.5:
                    d = (t + 1) % NT; g.copy(d, t); g.churn(d, pool, 30, target // 2 + 1); g.emit(f'iter {d}')
                cs.append(Case(f'probe{rep}_{mode}', g.lines))
        # (c) String keys with searched collisions (hashes from the library under test)
        hexe = self._hexe()
        for rep in range(reps):
            pool = string_pool(rng, hexe)
            if not pool: break
            g = Gen(rng); t = rng.randrange(NT); g.new(t, 'S')
            target = rng.choice([6, 15, 40, 90])
            g.churn(t, pool, target * 5, target)
            g.drain(t, 'random'); g.churn(t, pool, target * 2, target // 2)
            cs.append(Case(f'string{rep}', g.lines))
        # (c') near String keys on one probe path: prefixes / extensions, last byte, case, bit 7 (pairs searched with the library's hash)
        nt = near_tables(hexe)
        if nt:
            for rep in range(reps):
                for p in ((5, 11, 23, 53) if quick else (5, 11, 23, 53, 101)):
                    if len(nt['by_mod'][p]) >= 4: cs.append(Case(f'near{rep}_{p}', near_case(rng, nt, p)))
                if len(nt['by_mod'][5 * 11 * 23]) >= 4: cs.append(Case(f'neargrow{rep}', near_growth_case(rng, nt)))
            if nt['control']: cs.append(Case('nearcontrol', near_control_case(rng, nt)))
        # (c'') argument objects of the table's own: update / prune while walking, every kind (values that own memory: V, W; ksize < vsize: J;
        #       a 12-byte key type: Q; collector-managed tables with a collection in between)
        for rep in range(reps):
            spool = string_pool(rng, hexe)
            for kind in 'IVJPQ' + ('SW' if spool else ''):
                pool = (int_pool(rng, 90, 101, rng.sample([0, 1, LCM - 1, -3], 2)) if kind in 'IVJ' else
                        probe_pool(rng, 90, rng.choice(['const', 'end', 'adjacent', 'mult'])) if kind == 'P' else
                        q_pool(rng, 90, rng.choice(['const', 'end', 'adjacent', 'mult'])) if kind == 'Q' else spool[:90])
                cs.append(Case(f'own{rep}_{kind}', own_case(rng, kind, pool, managed=rng.random() < 0.4)))
        # (c3) the collector's view and hash(t): Table_Mark / Table_Hash on the same bindings in different slot orders, at every size
        for rep in range(reps):
            spool = string_pool(rng, hexe)
            for kind in 'IPQVJ' + ('SW' if spool else ''):
                pool = (int_pool(rng, 70, 101, rng.sample([0, 1, LCM - 1, -3], rng.choice([1, 2]))) if kind in 'IVJ' else
                        probe_pool(rng, 70, rng.choice(['const', 'end', 'adjacent', 'mult'])) if kind == 'P' else
                        q_pool(rng, 70, rng.choice(['const', 'end', 'adjacent', 'mult'])) if kind == 'Q' else spool[:70])
                if len(set(pool)) < 30: continue
                cs.append(Case(f'markhash{rep}_{kind}', markhash_case(rng, kind, pool, managed=rng.random() < 0.4)))
        # (d) resize / assign / copy across tables
        for rep in range(reps * 2):
            g = Gen(rng)
            kinds = [rng.choice('IIPPVJQ') for _ in range(NT)]
            pools = {'I': int_pool(rng, 60, 101, [rng.choice([0, 1, LCM - 1])]), 'P': probe_pool(rng, 60, rng.choice(['const', 'end', 'adjacent'])),
                     'Q': q_pool(rng, 60, rng.choice(['const', 'end', 'adjacent']))}
            pools['V'] = pools['J'] = pools['I']
            spool = string_pool(rng, hexe)
            if spool:
                pools['S'] = pools['W'] = spool[:80]; kinds[rng.randrange(NT)] = 'S'; kinds[rng.randrange(NT)] = 'W'
            for t in range(NT): g.new(t, kinds[t], managed=rng.random() < 0.3)
            for _ in range(60 if quick else 200):
                t = rng.randrange(NT); r = rng.random(); n = len(g.bound[t])
                pool = pools[g.kind[t]]
                if r < 0.40: g.churn(t, pool, rng.randrange(1, 25), rng.choice([0, 3, 10, 30]))
                elif r < 0.48:
                    g.resize(t, 0)                                   # nslots = 0: every operation must still work (F03 territory)
                    for _ in range(rng.randrange(0, 5)):
                        k = rng.choice(pool)
                        g.emit(rng.choice([f'get {t} {k}', f'mem {t} {k}', f'rem {t} {k}', f'iter {t}', f'riter {t}', f'len {t}', f'resize {t} 0', f'check {t}', f'mark {t}', f'hash {t}']))
                elif r < 0.58: g.resize(t, n + rng.choice([0, 0, 1, 5, 40, 300]))          # reserve (or exactly len)
                elif r < 0.64 and n > 0: g.resize(t, rng.randrange(1, n + 1) if n > 1 else 1)   # below len: FormatError (== len is allowed)
                elif r < 0.74:
                    s = rng.randrange(NT) if rng.random() < 0.8 else t         # one in five: assign(t, t)
                    g.assign(t, s)
                elif r < 0.84:
                    s = rng.randrange(NT); g.copy(t, s)
                elif r < 0.89:
                    kd = rng.choice(list(pools.keys())); pl = pools[kd]
                    npairs = rng.choice([0, 1, 2, 3, 4, 5, 8, 9, 10, 20, 30])
                    keys = [rng.choice(pl[:max(4, npairs)]) for _ in range(npairs)]        # a small pool: keys repeat
                    g.newp(t, kd, keys, odd=rng.choice(pl) if rng.random() < 0.15 else None)
                elif r < 0.93:
                    kd = rng.choice(list(pools.keys())); pl = pools[kd]
                    n = rng.choice([0, 1, 3, 4, 5, 9, 10, 25, 30])
                    g.assignm(t, kd, rng.sample(pl, min(len(pl), n)) if rng.random() < 0.8 else [rng.choice(pl[:max(3, n // 2)]) for _ in range(n)])
                elif r < 0.95: g.new(t, rng.choice(list(pools.keys())), managed=rng.random() < 0.3)
                elif r < 0.97: g.emit('gc')
                else: g.emit(f'check {t}')
            cs.append(Case(f'multi{rep}', g.lines))
        # (e) larger tables: window dumps + checksums
        for rep in range((2 if quick else 10) * boost):
            g = Gen(rng); t = 0
            target = rng.choice([400, 900, 1500] if quick else [900, 1500, 4000, 9000])
            mode = rng.choice(['int', 'probe'])
            pool = int_pool(rng, int(target * 1.5), 2417, [0, 1, LCM - 1]) if mode == 'int' else probe_pool(rng, int(target * 1.5), rng.choice(['end', 'adjacent', 'mult']), 2417)
            if mode == 'probe': g.new(t, 'P')
            g.churn(t, pool, target * 3, target, w_iter=0.002)
            g.emit(f'check {t}'); g.emit(f'iter {t}')
            g.copy(1, t); g.emit('check 1')
            for k in list(g.bound[t].keys())[: target // 2]: g.rem(t, k)
            g.emit(f'check {t}'); g.churn(t, pool, target, target // 3, w_iter=0.002); g.emit(f'check {t}')
            cs.append(Case(f'large{rep}_{target}', g.lines))
        if not quick:
            for rep in range(3 * boost):
                g = Gen(rng); t = 0; target = [100000, 30000, 50000][rep % 3]
                if rep % 3 == 2:
                    pool = probe_pool(rng, int(target * 1.2), 'mult', 2417); g.new(t, 'P')   # (one giant cluster of this size would be quadratic)
                else:
                    pool = int_pool(rng, int(target * 1.2), 2417, [0, 1, 2, LCM - 1])
                for k in pool[:target]: g.set(t, k)
                g.emit(f'check {t}'); g.churn(t, pool, 60000, target, w_iter=0.0); g.emit(f'check {t}')
                g.copy(1, t); g.emit('check 1')
                for k in list(g.bound[t].keys())[: (target * 9) // 10]: g.rem(t, k)       # shrink back through the primes
                g.emit(f'check {t}'); g.churn(t, pool, 5000, target // 20, w_iter=0.0); g.emit(f'check {t}')
                cs.append(Case(f'huge{rep}', g.lines))
        # (f) Table_Ideal_Size
        lim = 200000 if quick else 10000000
        cs.append(Case('ideal', [f'ideal {a} {min(a + 1000000, lim)}' for a in range(0, lim, 1000000)] + ['ideal 8800000 8800100', 'ideal 17600000 17600100', 'ideal 7920000 7920100']))
        return cs

    @staticmethod
    def _away_from_home(oline):
        m = re.match(r'O \S+(?: \S+)? \| (\d+) \d+ \|(.*)', oline)
        if not m: return False
        n = int(m.group(1))
        for e in m.group(2).split(' | ')[0].split():
            p = e.split(':')
            if len(p) == 4 and p[0].isdigit() and int(p[0]) != (int(p[1]) - 1) % max(n, 1): return True
        return False

    def nontrivial_items(self, case, c_out, m_out):
        ops = [l for l in case.lines if l and not l.startswith('#')]
        obs = core.lines_with('O ', c_out)
        items = set(); prev_n = None
        for op, o in zip(ops, obs):
            m = re.search(r'\| (\d+) \d+ \|', o)
            n = m.group(1) if m else prev_n
            if 'Error' in o or (m and prev_n is not None and n != prev_n) or self._away_from_home(o):
                items.add(hash(op + '\n' + o))
            if m: prev_n = n
        return items

    def stats(self, case, c_out, m_out, acc):
        if case.name.startswith('near') or case.name == 'corpus_table_near_keys':
            # near-key cases: how often a lookup of the unset member of a pair ran into its partner's cluster and was (rightly) refused
            acc['near_cases'] = acc.get('near_cases', 0) + 1
            acc['near_refusals'] = acc.get('near_refusals', 0) + sum(1 for l in core.lines_with('O ', c_out) if l.startswith(('O mem 0', 'O get KeyError', 'O rem KeyError')))
        for l in core.lines_with('O ', c_out):
            w = l.split()
            if len(w) > 1: acc['op_' + w[1]] = acc.get('op_' + w[1], 0) + 1
            if 'KeyError' in l: acc['KeyError'] = acc.get('KeyError', 0) + 1
            if 'FormatError' in l: acc['FormatError'] = acc.get('FormatError', 0) + 1
            m = re.search(r'\| (\d+) (\d+) \|', l)
            if m:
                acc['max_nslots'] = max(acc.get('max_nslots', 0), int(m.group(1)))
                acc['max_nitems'] = max(acc.get('max_nitems', 0), int(m.group(2)))
                if self._away_from_home(l): acc['dumps_with_displaced_entries'] = acc.get('dumps_with_displaced_entries', 0) + 1
        for l in core.lines_with('S ', m_out):
            for k, v in re.findall(r'(\w[\w-]*)=(\d+)', l):
                if k in ('rehashes', 'replaces', 'keyerrors', 'model-mismatches'): acc['model_' + k] = acc.get('model_' + k, 0) + int(v)
        for l in core.lines_with('I ', c_out):
            m = re.search(r'full-verifications=(\d+)', l)
            if m: acc['oracle_full_verifications'] = acc.get('oracle_full_verifications', 0) + int(m.group(1))
            for k, v in re.findall(r'((?:mark|hash)-[\w-]+)=(\d+)', l): acc[k.replace('-', '_')] = acc.get(k.replace('-', '_'), 0) + int(v)

    def model_selfcheck(self, case, m_out):
        ms = core.lines_with('M ', m_out)
        return ms[0] if ms else None

SPEC = C02()
