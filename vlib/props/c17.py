"""C17 — the collector's registry is exactly the set of live managed objects (engine reg)."""
import hashlib
from ..runner import Spec, Case
from .. import core

PRIMES = [5, 11, 23, 53, 101, 197, 389]
def L(k):
    r = 1
    for p in PRIMES[:k]: r *= p
    return r
UMAX = 2 ** 43

class IdxSet:
    """set with O(1) add / remove / random choice (deterministic order)"""
    def __init__(self): self.items = []; self.pos = {}
    def add(self, x):
        if x not in self.pos: self.pos[x] = len(self.items); self.items.append(x)
    def remove(self, x):
        i = self.pos.pop(x, None)
        if i is None: return
        last = self.items.pop()
        if i < len(self.items): self.items[i] = last; self.pos[last] = i
    def choice(self, rng): return self.items[rng.randrange(len(self.items))]
    def __len__(self): return len(self.items)
    def __iter__(self): return iter(list(self.items))

class Shadow:
    """what the generator believes (only used to produce mostly meaningful ops; never compared with anything)"""
    def __init__(self):
        self.st = {}; self.root = {}; self.kills = {}; self.running = True
        self.by = {'N': IdxSet(), 'M': IdxSet(), 'U': IdxSet(), 'D': IdxSet()}
    def set(self, i, s):
        old = self.st.get(i, 'N')
        self.by[old].remove(i); self.by[s].add(i); self.st[i] = s
    def pick(self, rng, *states):
        tot = sum(len(self.by[s]) for s in states)
        if not tot: return None
        k = rng.randrange(tot)
        for s in states:
            if k < len(self.by[s]): return self.by[s].items[k]
            k -= len(self.by[s])
    def ids(self, *states): return [i for s in states for i in self.by[s]]
    def closure(self, start, running):
        work = list(start)
        while work:
            p = work.pop()
            for y in self.kills.get(p, []):
                if running and self.st.get(y) == 'M':
                    self.set(y, 'D'); work.append(y)

class Builder:
    def __init__(self, rng, fam_k, n_ids, tmax=None, offset=None):
        self.rng = rng; self.sh = Shadow(); self.lines = []
        pool = []
        k = fam_k; step = L(k)
        tm = min(tmax or 10 ** 9, UMAX // step - 1)
        c = offset if offset is not None else rng.randrange(0, min(step, 1000))
        used = set()
        ts = rng.sample(range(tm), min(n_ids, tm))
        for t in ts:
            u = c + t * step
            if any((u + d) in used for d in range(-3, 4)): continue
            used.add(u); pool.append(u)
        # a few strays from other residue classes, so that clusters of different homes interleave
        for _ in range(max(2, n_ids // 4)):
            u = rng.randrange(0, 4000) if rng.random() < 0.5 else c + rng.randrange(tm) * step + rng.choice([1, 2, 4, 5, 7, 11]) * rng.choice([1, 5, 11, 23])
            if u >= UMAX or any((u + d) in used for d in range(-3, 4)): continue
            used.add(u); pool.append(u)
        rng.shuffle(pool)
        self.all = dict(enumerate(pool))
        for i in self.all: self.sh.by['N'].add(i)
    def emit(self, s): self.lines.append(s)
    def new(self, kind=None):
        sh = self.sh; rng = self.rng
        i = sh.pick(rng, 'N', 'D')      # a dead id re-uses its address
        if i is None: return False
        kind = kind or rng.choices(['new', 'newroot', 'newraw', 'tnew', 'tnewx'], [74, 12, 5, 4, 5])[0]
        if kind == 'tnewx':
            # exact threshold path: the allocation collects; survivors = roots + the listed objects + the new one
            man = sh.ids('M')
            keep = [j for j in man if rng.random() < rng.choice([0.0, 0.3, 0.7, 1.0])][:30]
            if rng.random() < 0.2:
                o = sh.pick(rng, 'U', 'D')
                if o is not None and o != i: keep.append(o)
            rng.shuffle(keep)
            self.emit(f'tnewx {i} {self.all[i]}' + ''.join(f' {j}' for j in keep))
            if sh.running:
                ks = set(keep)
                dead = [j for j in man if not sh.root[j] and j not in ks]
                sh.set(i, 'M'); sh.root[i] = False      # registered before the collection: a destructor may delete it
                for j in dead: sh.set(j, 'D')
                sh.closure(dead, True)
            else: sh.set(i, 'U'); sh.root[i] = False
            return True
        # allocator dimension: the same entry kind through new_with & co. on a type WITHOUT an Alloc instance (calloc path of alloc_by)
        pk = 'p' + kind if kind in ('new', 'newroot', 'newraw') and rng.random() < 0.4 else kind
        self.emit(f'{pk} {i} {self.all[i]}')
        if kind == 'newraw' or not sh.running: sh.set(i, 'U'); sh.root[i] = False
        else: sh.set(i, 'M'); sh.root[i] = kind == 'newroot'
        return True
    def delete(self):
        sh = self.sh; rng = self.rng
        i = sh.pick(rng, 'M') if rng.random() < 0.9 else sh.pick(rng, 'U', 'D')
        if i is None: i = sh.pick(rng, 'M')
        if i is None: return False
        self.emit(f"{'delroot' if sh.root.get(i) and rng.random() < 0.7 else 'del'} {i}")
        if sh.running and sh.st[i] == 'M':
            sh.set(i, 'D'); sh.closure([i], True)
        return True
    def delnull(self):
        """del(NULL): at top level, from the destructor of an object that is deleted explicitly right away, or armed on an object
        and left for whatever releases it — a later del, or a collection (GC_Rem_Ptr(NULL) during GC_Sweep's finalisation: the
        territory of the repaired KF-C17-null-del-sweep, fix d3e4e44)"""
        sh = self.sh; rng = self.rng
        r = rng.random()
        if r < 0.25: self.emit('delnull'); return True
        i = sh.pick(rng, 'M', 'U')
        if i is None: self.emit('delnull'); return True
        self.emit(f'killnull {i}')
        if r < 0.65: return True          # left armed
        if sh.st[i] == 'U':
            self.emit(f'delraw {i}'); sh.set(i, 'D'); sh.closure([i], sh.running)
        else:
            self.emit(f"{'delroot' if sh.root.get(i) else 'del'} {i}")
            if sh.running: sh.set(i, 'D'); sh.closure([i], True)
        self.emit(f'unkill {i}'); sh.kills[i] = []
        return True
    def delraise(self):
        """a destructor that raises under an EXPLICIT deletion, outside a collection (in contract: the exception unwinds through
        GC_Rem_Ptr / GC_Rem, the registry stays exact: theorem C17_rem_raising).  The raise is armed on the deleted object or on one
        its destructor deletes, and disarmed right after the deletion: a raising destructor is never left for a collection
        (known finding KF-C17-dtor-raise)."""
        sh = self.sh; rng = self.rng
        i = sh.pick(rng, 'M', 'U')
        if i is None: return False
        j = i
        cand = [y for y in sh.kills.get(i, []) if sh.st.get(y) == 'M']
        if cand and rng.random() < 0.5: j = rng.choice(cand)
        self.emit(f'killraise {j}')
        if sh.st[i] == 'U':
            self.emit(f'delraw {i}'); sh.set(i, 'D'); sh.closure([i], sh.running)
        else:
            self.emit(f"{'delroot' if sh.root.get(i) and rng.random() < 0.5 else 'del'} {i}")
            if sh.running: sh.set(i, 'D'); sh.closure([i], True)
        self.emit(f'unkill {j}'); sh.kills[j] = []
        return True
    def delraw(self):
        sh = self.sh
        i = sh.pick(self.rng, 'U')
        if i is None: return False
        self.emit(f'delraw {i}'); sh.set(i, 'D'); sh.closure([i], sh.running)
        return True
    def mem(self):
        i = self.sh.pick(self.rng, 'M', 'U', 'D')
        if i is None: return False
        self.emit(f'mem {i}'); return True
    def sweep(self, p=None, collect=False):
        sh = self.sh; rng = self.rng
        p = rng.choice([0.0, 0.2, 0.5, 0.5, 0.8, 0.95, 1.0]) if p is None else p
        man = sh.ids('M')
        marked = [i for i in man if rng.random() < p]
        # now and then list objects that are not registered (GC_Mark_Item must ignore them)
        if rng.random() < 0.3:
            for _ in range(2):
                o = sh.pick(rng, 'U', 'D')
                if o is not None and o not in marked: marked.append(o)
        if collect: marked = marked[:40]
        rng.shuffle(marked)
        self.emit(('collect ' if collect else 'sweep ') + ' '.join(map(str, marked)))
        ms = set(marked)
        dead = [i for i in man if not sh.root[i] and i not in ms]
        for i in dead: sh.set(i, 'D')
        sh.closure(dead, sh.running)
        return True
    def sweepmod(self, m, r):
        sh = self.sh
        self.emit(f'sweepmod {m} {r}')
        dead = [i for i in sh.ids('M') if not sh.root[i] and i % m == r]
        for i in dead: sh.set(i, 'D')
        sh.closure(dead, sh.running)
    def stalemark(self):
        """a mark phase left by an exception (mark bits stay), then — usually at once — a collection through the real GC_Mark, which
        must start from clear bits (fix d8f0c4f).  Only with a registered root: the harness looks at the bits from GC_Mark's root loop."""
        sh = self.sh; rng = self.rng
        man = sh.ids('M')
        if not sh.running or not any(sh.root.get(j) for j in man): return False
        cand = [j for j in man if not sh.root[j]]
        if not cand: return False
        st = rng.sample(cand, min(len(cand), rng.choice([1, 1, 2, 3, 6])))
        if rng.random() < 0.2:
            o = sh.pick(rng, 'U', 'D')
            if o is not None: st.append(o)
        self.emit('stalemark ' + ' '.join(map(str, st)))
        r = rng.random()
        if r < 0.55: self.sweep(p=rng.choice([0.0, 0.3, 0.7]), collect=True)
        elif r < 0.85: self.new(kind='tnewx')
        elif r < 0.93:
            # GC_Sweep on the bits as they are: the stale-marked objects survive this one
            keep = set(j for j in st if sh.st.get(j) == 'M')
            marked = [j for j in man if rng.random() < 0.3]
            self.emit('sweep ' + ' '.join(map(str, marked)))
            ms = set(marked) | keep
            dead = [j for j in man if not sh.root[j] and j not in ms]
            for j in dead: sh.set(j, 'D')
            sh.closure(dead, sh.running)
        # else: left pending (later dels, rehashes, plain allocations see the bits)
        return True
    def kill(self):
        sh = self.sh; rng = self.rng
        a, b = sh.pick(rng, 'M', 'U', 'D'), sh.pick(rng, 'M', 'U', 'D')
        if a is None or b is None: return False
        if len(sh.kills.get(a, [])) >= 4: self.emit(f'unkill {a}'); sh.kills[a] = []; return True
        self.emit(f'kill {a} {b}'); sh.kills.setdefault(a, []).append(b); return True
    def step(self, p_new):
        rng = self.rng; sh = self.sh
        r = rng.random()
        if not sh.running and rng.random() < 0.4: self.emit('start'); sh.running = True; return
        if r < p_new: self.new() or self.delete()
        elif r < p_new + 0.22: self.delete() or self.new()
        elif r < p_new + 0.285: self.mem()
        elif r < p_new + 0.30: self.delraise() or self.mem()
        elif r < p_new + 0.40: self.sweep()
        elif r < p_new + 0.42: self.sweep(collect=True)
        elif r < p_new + 0.47: self.kill()
        elif r < p_new + 0.485: self.emit('stop'); sh.running = False
        elif r < p_new + 0.495: self.delraw()
        elif r < p_new + 0.510: self.delnull()
        elif r < p_new + 0.535: self.stalemark() or self.mem()
        elif r < p_new + 0.565: self.emit('show')
        elif r < p_new + 0.575: self.emit('teardown')
        else: self.new() or self.mem()

def mixed_case(rng, name, fam_k, n_ids, n_ops, waves=3):
    b = Builder(rng, fam_k, n_ids)
    for w in range(waves):
        for i in range(n_ops // (2 * waves)): b.step(0.50)
        for i in range(n_ops // (2 * waves)): b.step(0.18)
    if not b.sh.running: b.emit('start')
    b.sweep(p=0.0)
    return Case(name, b.lines)

def grow_case(rng, name, fam_k, n_ids, every=1, kills=True):
    """up through the primes, then down again by deletions and by collections, twice"""
    b = Builder(rng, fam_k, n_ids)
    small = len(b.all) <= 600     # `teardown` forks the harness: the cost grows with the number of arena pages mapped (one per object)
    if every > 1: b.emit(f'dumpevery {every}')
    for rnd in range(2):
        while b.new(kind=rng.choices(['new', 'newroot'], [9, 1])[0]):
            if rng.random() < 0.03: b.mem()
            if small and rng.random() < 0.004: b.emit('show')
            if small and rng.random() < 0.002: b.emit('teardown')
            if kills and rng.random() < 0.02: b.kill()
            if kills and rng.random() < 0.004: b.delnull()
            if kills and rng.random() < 0.004: b.delraise()
        if rnd == 0:
            while len(b.sh.by['M']):
                b.delete()
                if rng.random() < 0.02: b.mem()
        else:
            for m in (7, 5, 3, 2, 2, 2, 2, 1):
                b.sweepmod(m, 0) if m > 1 else b.sweep(p=0.0)
                if small or m in (7, 1): b.emit('show')      # GC_Show builds its text with one print_to per slot: seconds for a 10^4-slot table under ASan
                if small and m in (5, 2): b.emit('teardown')
                for _ in range(5): b.mem()
            for i in b.sh.ids('M'): b.emit(f'delroot {i}'); b.sh.set(i, 'D'); b.sh.closure([i], True)
    return Case(name, b.lines)

def ideal_cases(hi, chunk=50000):
    return [Case(f'ideal{lo//chunk}', [f'ideal {lo} {min(hi, lo + chunk)}']) for lo in range(0, hi, chunk)]

def _entries(o):
    e = o.rsplit(' e=', 1)[1].split(' pend=')[0] if ' e=' in o else '-'
    if e in ('-', '') or e.startswith('#'): return None
    out = []
    for it in e.split(','):
        f = it.split(':')
        if len(f) == 5: out.append((int(f[0]), int(f[1])))
    return out

class C17(Spec):
    id = 'C17'; engine = 'reg'; harness = 'h_reg'; driver = 'drv_reg'
    generators = ('Reg',)
    harness_timeout = 600
    technique = ('Lean 4 proof: refinement of an executable model of the registry (robin-hood table with backward-shift deletion, in-place sweep '
                 'compaction, rehashing) to a ledger of live managed addresses, by invariant preservation over every history; prime table, load '
                 'factor, hash shift, probe formula, tie rule and threshold formula regenerated from src/GC.c each run; white-box differential '
                 'check of the whole entry array against the real collector after every operation')
    level_text = ('Theorem C17_registry_exact: for every history of new / new_root / raw allocation / del / del_raw / collection with an arbitrary mark set '
                  '(explicit, or triggered by an allocation reaching the threshold) / stop / start in which a new address is non-NULL, 8-aligned and differs from '
                  'the live managed ones, at every reachable state the model of GC.c has mem(p) exactly for the live managed addresses, each '
                  'recorded once with its allocation-time root flag, nitems equal to their number, every address inside [minptr,maxptr], all '
                  'marks clear, the pending list empty, and the local robin-hood invariant with an empty slot; C17_progress: the model never divides '
                  'by zero or spins on such a history. Supporting theorems, for every hash function, table size and address pattern: lookup = '
                  'membership under the invariant (C17_lookup_correct), insertion (both tie rules), backward-shift erase (invariant + exactly the '
                  'erased entry gone), GC_Rehash, the in-place sweep loop keeps exactly the marked-or-root entries and lists every other entry once '
                  '(wrap-around included), GC_Sweep as a whole against a ledger; C17_rem_nested / C17_nested_simulation: GC_Rem with destructors that '
                  'delete other objects, in any well-formed state including mid-sweep with objects on the pending list, refines the same recursion on '
                  '(ledger, pending addresses) and terminates within the fuel; C17_sweep_destructors / C17_registry_exact_destructors / '
                  'C17_progress_destructors / C17_progress_all_destructors: the same history theorem when destructors delete any pointers, NULL included '
                  '(GC_Rem_Ptr returns at once for NULL: gcRemPtr_tests_null, read from the source), during a sweep or a removal, by '
                  'induction over the history for every ledger the abstract transitions allow (ReachK has no well-formedness premise); '
                  'C17_ledger_choice_irrelevant: the ledger after a collection does not depend on the order in which the sweep lists the reclaimed '
                  'objects (the nested finalisation is a depth-first traversal of the destructor graph). Excluded regions, each with a refutation on a '
                  'concrete witness that the C code reproduces: C17_stopped_window_refuted with C17_registry_exact_ideal_partial '
                  '(ledger of the property text, a function of the history: exact outside the stop..start window, violated inside it: F23), '
                  'C17_dealloc_refuted / C17_dealloc_reuse_refuted / C17_dealloc_twice_refuted (dealloc / dealloc_root leave a stale entry; the address '
                  'allocated again is counted twice, keeps the old root flag or is recorded twice). Repaired regions, with the refutation kept about an '
                  'explicit OLD variant of the model: C17_null_del_in_sweep_fixed vs C17_null_del_in_sweep_old_refuted / '
                  'C17_progress_all_destructors_old_refuted / C17_progress_destructors_old_partial (gcCfgOldRem: a destructor calling del(NULL) was fine '
                  'under del, ValueError inside GC_Sweep; fix d3e4e44); C17_collection_ignores_stale_marks / C17_teardown_ignores_stale_marks vs '
                  'C17_stale_marks_old_refuted (gcCfgOldMark: a mark bit left by an interrupted mark phase kept a dead object registered; GC_Mark and '
                  'GC_Del call GC_Unmark first: gcMark_unmarks_first, fix d8f0c4f). Destructors that raise (execR / gcRemR / gcSweepR / gcSetR, the functions '
                  'the driver runs; C17_model_without_raise: with no raising destructor they are exec / gcRem / gcSweep / gcSet): C17_rem_raising — an explicit '
                  'del whose destructors raise, for every K and every set R of raising destructors, from every reachable state leaves an exact registry; '
                  'C17_rem_raising_any_state (any well-formed state, also with a stale pending list); C17_sweep_raising_partial — GC_Sweep with raising '
                  'destructors keeps table, mem, count, bounds exact for a sub-ledger of the survivors, what is still listed is reclaimed and '
                  'unregistered, Exact when no exception left the loop; C17_dtor_raise_refuted (known finding KF-C17-dtor-raise: the exception leaves '
                  'the release loop, the pending list stays set outside a collection, the objects still listed are neither registered nor finalised). '
                  'Public entrances (extension round; Cello/RegistryApi.lean, tables read from src/Alloc.c by g_reg.py): C17_alloc_routes_current_source / '
                  'C17_del_routes_current_source — alloc, new_with and the default copy register a managed object, alloc_root / new_root_with a root, '
                  'alloc_raw / new_raw_with nothing; del and del_root go through GC_Rem only, del_raw past the collector — computed by an interpreter over the '
                  'extracted `switch (method)` rows, wrapper rows and allocator branches, for a type with and without its own Alloc instance; '
                  'C17_alloc_branches_only_allocate, C17_registration_ignores_allocator (every entry name); C17_registry_exact_api / C17_progress_api: the history '
                  'theorem over histories of public calls routed by those tables; C17_show_lists_registry: after every such history GC_Show prints one row per '
                  'slot, the occupied rows are exactly the live managed objects with their allocation-time root flag and a blank mark column, no address twice; '
                  'C17_init_current_source: the state built from the statements of GC_New is the model\'s initial state. '
                  'C17_invB_sound: the executable '
                  'invariant the driver evaluates implies the propositional one. Source-derived: GC_Ideal_Size(n) > n over the generated prime table '
                  'and load factor, GC_Probe = cyclic distance, GC_Hash = p/8. The model is tied to the real GC.c by comparing the complete entry '
                  'array, counters, bounds and deallocation order after every operation on histories whose addresses collide modulo every registry size.')
    level_note = ('Trusted: Lean kernel; axioms propext/Quot.sound/Classical.choice at most; translate/g_reg.py (regex extraction from src/GC.c); the '
                  'harness/driver comparison (testing, not proof); the double division in GC_Ideal_Size is modelled as exact rational arithmetic '
                  '(compared exhaustively with the C function on a range); malloc returning distinct live blocks is the distinctness assumption. '
                  'With destructors that delete other objects the ledger transition of a collection is a relation (it depends on the order in which '
                  'the sweep lists the reclaimed objects), not a function of the history. '
                  'alloc_by / del_by are read as tables (allocator branches, switch rows, wrappers): a source outside that fragment is a broken tie, not a modelled behaviour. '
                  'Not covered: the mark phase itself (C01), finalisation accounting (C06), other threads (C13), allocation inside destructors.')
    rule = ('histories of new/newroot/newraw (alloc / alloc_root / alloc_raw of a type WITH its own Alloc instance) / pnew/pnewroot/pnewraw (new / new_root / '
            'new_raw of a type WITHOUT one: calloc path of alloc_by, free path of dealloc, both served from the arena by macros in h_reg.c) / show (GC_Show text, '
            'rows against the ledger) / teardown (GC_Del in a forked child, observed at its free(gc->entries)) / tnew/tnewx(threshold path of GC_Set, exact: marks reduced to roots+listed+new between the real GC_Mark and '
            'GC_Sweep)/del/delroot/delraw/delnull/killnull(destructor calls del(NULL); also left armed for collections)/killraise(destructor leaves by an exception; armed for one explicit deletion)/mem/sweep(marked set)/collect(real '
            'GC_Mark)/stalemark(mark bits left by an interrupted mark phase, then collect/tnewx/sweep)/kill/stop/start over probe objects whose '
            'addresses are chosen in one residue class modulo the product of the first k registry sizes 5,11,23,53,101,197,389 (k = 3..7) plus strays; '
            '(a) mixed histories over small pools (tables of 1..101 slots, constant wrap-around, grow and shrink), (b) growth through the primes to '
            'the pool size and back down by deletions and by collections, (c) GC_Ideal_Size change points on a range, (d) corpus. Every op is run on the '
            'real collector and on the Lean model; the full entry array is compared. non-trivial item = an observation after new/del/sweep/collect in '
            'which an entry sits away from its home slot, or objects were finalised, or the table was rehashed; distinct = distinct observation text.')
    trusted_base = ('translate/g_reg.py generator Reg (regex over src/GC.c)',
                    'harness/h_reg.c + lean/Driver/Reg.lean (correspondence is testing)',
                    'IEEE double division in GC_Ideal_Size modelled as floor((n+1)*10/9): compared with the C function on 0..2*10^5 (quick) / 0..10^7 (thorough); '
                    'the two agree for every n < 3*10^8 and first differ above 2^53 (53-bit mantissa)',
                    'harness hook between GC_Mark and GC_Sweep (op tnewx): a `realloc` macro in h_reg.c routes the library\'s realloc calls through a callback',
                    'harness probe inside GC_Mark (stale mark bits): the Mark instance of the probe type, called by the root loop of GC_Mark',
                    '`calloc` / `free` macros in h_reg.c: the block of a Plain object (type without an Alloc instance) is served from the arena, its free is recorded as the '
                    'deallocation; the free hook takes the teardown observation at GC_Del\'s `free(gc->entries)`',
                    'print_to / show_to, type_of and the Type name behind GC_Show\'s `%15s %p %s %s` row (C14\'s formatting; the harness rewrites %p as u<k>)',
                    'mmap at a fixed address, fork (libc) in the harness')
    assumptions = ('a new object\'s address is non-NULL, 8-byte aligned and differs from the live managed ones (malloc); counts < 2^53',
                   'registered objects are released through del / del_root or the collector, unregistered ones through del_raw; never through '
                   'dealloc / dealloc_root / del_raw while registered (del_raw is dealloc(destruct(self)) without GC_Rem: one more entrance to '
                   'known finding KF-C17-dealloc-stale; witness corpus/kf_c17_dealloc.ops, never generated)',
                   'a destructor that raises is generated under explicit del / del_root / del_raw outside a collection only (killraise; in contract: '
                   'C17_rem_raising); one that raises inside the release loop of GC_Sweep is known finding KF-C17-dtor-raise (witness '
                   'corpus/kf_c17_dtor_raise.ops, never generated)',
                   'generated histories follow the code in the stop..start window (allocation not recorded, del ignored: the ledger of theorem '
                   'C17_registry_exact); against the ledger of the property text this window is known finding KF-C17-stopped (op `strict`, witness '
                   'corpus/kf_c17_stopped.ops, never generated)',
                   'stalemark (stale mark bits) is generated only while a managed root is registered: the harness checks GC_Mark\'s prologue from '
                   'the root loop; without a root the bits are only compared with the model after the collection',
                   'destructors delete (and may raise) but do not allocate managed objects during a sweep — the nested GC_Set -> GC_Mark; GC_Sweep '
                   'replaces the pending list under the running release loop: C06\'s known finding KF-C06-dtor-alloc, theorem '
                   'C06_dtor_alloc_collect_refuted; `K` (what a destructor deletes) has no allocation —; the mark phase does not call del',
                   'single thread (each thread has its own registry)')
    def cases(self, rng, tier, boost=1):
        quick = tier == 'quick'
        cs = []
        if quick:
            for i in range(10 * boost):
                k = [3, 4, 5, 6, 7, 7, 6, 5, 4, 3][i % 10]
                cs.append(mixed_case(rng, f'mixed{i}', k, rng.choice([8, 14, 30, 60]), 500))
            cs.append(grow_case(rng, 'grow0', 6, 450))
            cs.append(grow_case(rng, 'grow1', 5, 1400, every=7))
            cs.append(mixed_case(rng, 'mixedbig', 6, 700, 3000, waves=2))
            if boost == 1: cs += ideal_cases(200000)
        else:
            for i in range(120 * boost):
                k = 3 + i % 5
                cs.append(mixed_case(rng, f'mixed{i}', k, rng.choice([6, 8, 14, 30, 60, 120, 250]), 2500, waves=4))
            for i in range(8 * boost):
                nid = rng.choice([500, 1500, 3000, 6000])
                cs.append(grow_case(rng, f'grow{i}', 3 + i % 4, nid, every=max(rng.choice([1, 3, 17]), nid // 150)))
            cs.append(grow_case(rng, 'growbig0', 6, 6500, every=97))
            cs.append(grow_case(rng, 'growbig1', 4, 20000, every=499, kills=False))
            cs.append(grow_case(rng, 'growbig2', 5, 30000, every=2999, kills=False))
            if boost == 1: cs += ideal_cases(10 ** 7, chunk=10 ** 6)
        return cs
    def nontrivial_items(self, case, c_out, m_out):
        items = set(); prev_n = None
        for o in core.lines_with('O ', c_out):
            w = o.split()
            if len(w) >= 5 and w[1] == 'show':
                if any(('Probe' in x or 'Plain' in x) for x in w) or '#' in w[4]: items.add(hashlib.md5(o.encode()).hexdigest())
                continue
            if len(w) >= 4 and w[1] == 'teardown':
                if ' fin= |' not in o: items.add(hashlib.md5(o.encode()).hexdigest())
                continue
            if len(w) < 4 or w[1] not in ('new', 'newroot', 'pnew', 'pnewroot', 'tnew', 'tnewx', 'del', 'delroot', 'delraw', 'delrawm', 'delnull', 'sweep', 'sweepmod', 'collect', 'stalemark'): continue
            if w[2] == 'raised': items.add(hashlib.md5(o.encode()).hexdigest())
            n = o.split(' n=')[1].split()[0] if ' n=' in o else None
            fin = o.split(' fin=')[1].split(' |')[0] if ' fin=' in o else ''
            es = _entries(o)
            displaced = (es is None and ' e=#' in o) or (es is not None and any(i != h for i, h in es))
            if fin or displaced or (prev_n is not None and n != prev_n):
                items.add(hashlib.md5(o.encode()).hexdigest())
            prev_n = n
        return items
    def stats(self, case, c_out, m_out, acc):
        prev_n = None
        for o in core.lines_with('O ', c_out):
            w = o.split()
            if len(w) < 2: continue
            acc['op_' + w[1]] = acc.get('op_' + w[1], 0) + 1
            if w[1] == 'show' and len(w) >= 5:
                acc['show_rows_listed'] = acc.get('show_rows_listed', 0) + sum(1 for x in o.split(',') if 'Probe' in x or 'Plain' in x)
                if w[4].startswith('#'): acc['show_digests'] = acc.get('show_digests', 0) + 1
            if ' n=' not in o: continue
            if w[1] == 'teardown':
                if ' fin= |' not in o: acc['teardowns_that_freed'] = acc.get('teardowns_that_freed', 0) + 1
                if ' e= ' not in o + ' ' and not o.endswith(' e='): acc['teardowns_with_roots_left'] = acc.get('teardowns_with_roots_left', 0) + 1
                continue
            n = int(o.split(' n=')[1].split()[0])
            acc['max_nslots'] = max(acc.get('max_nslots', 0), n)
            if prev_n is not None and n > prev_n: acc['rehash_grow'] = acc.get('rehash_grow', 0) + 1
            if prev_n is not None and n < prev_n: acc['rehash_shrink'] = acc.get('rehash_shrink', 0) + 1
            prev_n = n
            if w[2] == 'raised': acc['ops_left_by_destructor_exception'] = acc.get('ops_left_by_destructor_exception', 0) + 1
            fin = o.split(' fin=')[1].split(' |')[0]
            nf = int(fin[1:].split(':')[0]) if fin.startswith('#') else (len(fin.split(',')) if fin else 0)
            if w[1] in ('sweep', 'sweepmod', 'collect') and nf: acc['collections_that_freed'] = acc.get('collections_that_freed', 0) + 1
            if w[1] == 'tnewx' and nf: acc['threshold_collections_that_freed'] = acc.get('threshold_collections_that_freed', 0) + 1
            if w[1] in ('del', 'delroot', 'delraw') and nf > 1: acc['deletions_with_destructor_removals'] = acc.get('deletions_with_destructor_removals', 0) + 1
            acc['finalised'] = acc.get('finalised', 0) + nf
            es = _entries(o)
            if es:
                acc['dumps_listed'] = acc.get('dumps_listed', 0) + 1
                d = max(((i - h) % n for i, h in es), default=0)
                acc['max_probe_distance'] = max(acc.get('max_probe_distance', 0), d)
                if any(i < h for i, h in es): acc['dumps_with_wrapped_cluster'] = acc.get('dumps_with_wrapped_cluster', 0) + 1
            elif ' e=#' in o: acc['dumps_digest'] = acc.get('dumps_digest', 0) + 1
        for l in core.lines_with('R bad', m_out): acc['model_selfcheck_failures'] = acc.get('model_selfcheck_failures', 0) + 1
        for l in core.lines_with('I ', c_out):
            for k in ('del_null_during_sweep', 'gc_mark_probes_clear', 'gc_mark_probes_stale', 'destructor_raises', 'destructor_raises_in_release_loop',
                      'alloc_own_standard', 'alloc_own_raw', 'alloc_own_root', 'alloc_default_standard', 'alloc_default_raw', 'alloc_default_root',
                      'del_own_standard', 'del_own_raw', 'del_own_root', 'del_default_standard', 'del_default_raw', 'del_default_root',
                      'arena_calloc', 'arena_free'):
                if f' {k}=' in l: acc[k] = acc.get(k, 0) + int(l.split(f' {k}=')[1].split()[0])
    def model_selfcheck(self, case, m_out):
        bad = core.lines_with('R bad', m_out)
        return bad[0] if bad else None

SPEC = C17()
