"""Generic decision procedure of a property check (DESIGN.md §2).

A property module (vlib/props/cXX.py) provides a `Spec`; `run_check(spec, tier, seed)` does:
  1. link (A): regenerate CelloGen from REPO; build the driver and the property's theorem modules; audit axioms
  2. link (B): build the harness from REPO's working tree; run generated + corpus op files on harness and driver; diff
  3. link (C): collect the harness's direct-oracle failures (X lines)
  4. decide: exit 0 | VIOLATION with failing input | VIOLATION ... no-failing-input-found
"""
import os, sys, time, json, random, re, glob
from concurrent.futures import ThreadPoolExecutor
from . import core

class Case:
    def __init__(self, name, lines, meta=None, nontrivial_hint=None):
        self.name = name; self.lines = lines; self.meta = meta or {}

class Spec:
    id = 'C00'
    engine = 'none'
    harness = None            # harness/<harness>.c
    driver = None             # lean_exe name
    prop_modules = None       # default: CelloProofs.Props.<id>
    generators = ()           # CelloGen generators this property's theorems depend on
    harness_flags = ()
    harness_defines = ()
    harness_libs = ('-lpthread', '-lm')
    harness_timeout = 120
    trusted_base = ()
    assumptions = ()
    rule = ''                 # how cases are generated and what makes one non-trivial
    def cases(self, rng, tier, boost=1): return []      # generated op files
    def nontrivial(self, case, c_out, m_out): return True
    def nontrivial_items(self, case, c_out, m_out):
        """distinct non-trivial items of this case (hashable); default: the whole case if nontrivial()"""
        return {hash('\n'.join(case.lines))} if self.nontrivial(case, c_out, m_out) else set()
    def compare(self, case, c_out, m_out): return core.first_divergence(c_out, m_out)
    def model_selfcheck(self, case, m_out): return None  # model ≠ its own reference on this input (used when a proof broke)
    def extra_checks(self, ctx): return []               # additional engine-specific checks -> list of failure dicts
    def stats(self, case, c_out, m_out, acc): pass

def _run_case(spec, hexe, case, keep=False):
    path = os.path.join(core.CACHE, f'case_{spec.id}_{os.getpid()}_{case.name}.ops')
    with open(path, 'w') as f: f.write('\n'.join(case.lines) + '\n')
    rc_c, out_c, err_c = core.run_harness(hexe, path, timeout=spec.harness_timeout)
    rc_m, out_m, err_m = core.run_driver(spec.driver, path) if spec.driver else (0, '', '')
    if not keep:
        try: os.unlink(path)
        except OSError: pass
    return dict(case=case, rc_c=rc_c, out_c=out_c, err_c=err_c, rc_m=rc_m, out_m=out_m, err_m=err_m, path=path)

def _classify(spec, r, kfs):
    """-> (oracle_failures [(sig, line)], known [(kf, line)], divergence or None, crash or None)"""
    fails, known = [], []
    for x in core.lines_with('X ', r['out_c']):
        m = re.search(r'sig=(\S+)', x)
        sig = m.group(1) if m else 'unknown'
        kf = next((k for k in kfs if k['kind'] == 'finding' and k['fields'].get('sig') == sig), None)
        (known if kf else fails).append((kf or sig, x))
    crash = None
    if r['rc_c'] != 0:
        crash = f"harness exit status {r['rc_c']}: " + (r['err_c'][-1500:] or r['out_c'][-300:])
    div = None
    if spec.driver:
        if r['rc_m'] != 0:
            div = (-1, '<driver failed>', (r['err_m'] or r['out_m'])[-500:])
        else:
            div = spec.compare(r['case'], r['out_c'], r['out_m'])
    return fails, known, div, crash

def run_check(spec, tier='quick', seed=0, replay=None):
    t0 = time.time()
    prop = spec.id
    mods = spec.prop_modules or [f'CelloProofs.Props.{prop}']
    kfs = core.known_findings(prop)
    problems = []          # (kind, detail) with kind in proof|translator|harness-build|correspondence|audit
    notes = []
    # ---- 1. translator + Lean
    lake_lock = core.Lock('lake'); lake_lock.__enter__()   # regenerate + build + audit are atomic w.r.t. other checks
    try:
        gen_res = core.regenerate()
        for g in spec.generators:
            st, msg = gen_res.get(g, ('error', 'generator missing'))
            if st == 'error': problems.append(('translator', f'CelloGen.{g}: {msg}'))
        targets = ([spec.driver] if spec.driver else []) + mods
        b = core.lake_build(targets)
        driver_ok = (not spec.driver) or b[spec.driver][0]
        if spec.driver and driver_ok:
            core.snapshot_driver(spec.driver)
        if not driver_ok:
            f, ln, msg = core.first_lean_error(b[spec.driver][1])
            problems.append(('proof', f'model/driver {spec.driver} does not build: {f}:{ln}: {msg}'))
        obligations = []
        for m in mods:
            try: obligations += core.theorems_of(m)
            except OSError: pass
        discharged = list(obligations)
        for m in mods:
            ok, lg = b[m]
            if not ok:
                f, ln, msg = core.first_lean_error(lg)
                decl = core.enclosing_decl(f, ln) if f else None
                problems.append(('proof', f'theorem module {m} no longer checks: {f}:{ln} in `{decl}`: {msg}'))
                discharged = [t for t in discharged if not t.endswith('.' + (decl or '\0'))] if decl else []
                if f and not f.endswith(m.replace('.', '/') + '.lean'): discharged = []
        audit_rep = {}
        if all(b[m][0] for m in mods):
            ok, audit_rep = core.audit(mods)
            if not ok:
                bad = {k: v for k, v in audit_rep['theorems'].items() if v is None or any(a not in core.ALLOWED_AXIOMS for a in v)}
                problems.append(('audit', f'axiom/sorry audit failed: {bad} {audit_rep["forbidden"]} {audit_rep["imports_mathlib"]} {audit_rep.get("raw_tail","")[-400:]}'))
                discharged = [t for t in discharged if t not in bad]
        lc = {}
        if tier == 'thorough' and all(b[m][0] for m in mods):
            lc = core.leanchecker(mods)
            for m, (ok, lg) in lc.items():
                if not ok: problems.append(('audit', f'leanchecker rejected {m}: {lg}'))

    finally:
        lake_lock.__exit__()
    # ---- 2. harness
    hexe = None
    if spec.harness:
        ok, hexe, lg = core.build_harness(spec.harness, flags=spec.harness_flags, defines=spec.harness_defines, libs=spec.harness_libs)
        if not ok:
            problems.append(('harness-build', f'harness {spec.harness} does not compile against the current tree: {lg[-1500:]}'))
    # ---- replay mode
    if replay:
        lines = [l.rstrip('\n') for l in open(replay)]
        r = _run_case(spec, hexe, Case('replay', lines))
        fails, known, div, crash = _classify(spec, r, kfs)
        print('--- harness'); print(r['out_c'][-4000:]); print(r['err_c'][-2000:])
        print('--- model'); print(r['out_m'][-4000:])
        print('--- oracle failures:', fails, 'known:', [k[0]['fields'].get('id') for k in known], 'divergence:', div, 'crash:', crash)
        return 1 if (fails or div or crash) else 0
    # ---- 3. run cases
    rng = random.Random(int(seed) * 1000003 + 17)
    stats = {}
    results = []
    violations = []     # dicts: kind=oracle|crash, case, detail
    divergences = []
    known_hit = {}
    n_eval = 0
    nontriv = set()
    samples = []
    def consume(rs):
        nonlocal n_eval
        for r in rs:
            fails, known, div, crash = _classify(spec, r, kfs)
            n_eval += len(core.lines_with('O ', r['out_c']))
            for kf, line in known: known_hit.setdefault(kf['fields'].get('id', kf['text'][:40]), (kf, r['case'], line))
            for sig, line in fails: violations.append(dict(kind='oracle', case=r['case'], detail=line, sig=sig))
            if crash and not fails: violations.append(dict(kind='crash', case=r['case'], detail=crash, sig='crash'))
            if div: divergences.append(dict(case=r['case'], div=div))
            try:
                nontriv.update(spec.nontrivial_items(r['case'], r['out_c'], r['out_m']))
                spec.stats(r['case'], r['out_c'], r['out_m'], stats)
            except Exception as e:
                notes.append(f'stats error: {e}')
            if len(samples) < 3 and r['case'].lines:
                samples.append({'case': r['case'].name, 'ops': r['case'].lines[:6], 'harness': core.lines_with('O ', r['out_c'])[:3]})
    def run_cases(cases):
        if not hexe or not driver_ok: return
        jobs = int(os.environ.get('VERIF_JOBS', '8'))
        with ThreadPoolExecutor(max_workers=jobs) as ex:
            # in chunks, so that a tree on which the implementation already fails (or hangs, every case then costing its
            # time-out) is reported as soon as a failing input is in hand instead of after the whole campaign
            for i in range(0, len(cases), 2 * jobs):
                consume(list(ex.map(lambda c: _run_case(spec, hexe, c), cases[i:i + 2 * jobs])))
                if violations and os.environ.get('VERIF_KEEP_GOING') != '1':
                    notes.append(f'stopped after {i + 2 * jobs} of {len(cases)} cases of this batch: a failing input was found')
                    break
    corpus = []
    for p in sorted(glob.glob(os.path.join(core.CORPUS, f'{spec.engine}_*.ops'))) + sorted(glob.glob(os.path.join(core.CORPUS, f'{prop}_*.ops'))):
        corpus.append(Case('corpus_' + os.path.basename(p)[:-4], [l.rstrip('\n') for l in open(p)]))
    kf_cases = []
    for k in kfs:
        w = k['fields'].get('witness')
        if k['kind'] == 'finding' and w and os.path.exists(os.path.join(core.ROOT, w)):
            kf_cases.append(Case('kf_' + k['fields'].get('id', 'x'), [l.rstrip('\n') for l in open(os.path.join(core.ROOT, w))]))
    run_cases(corpus + kf_cases)
    gen_cases = spec.cases(rng, tier)
    if not violations or os.environ.get('VERIF_KEEP_GOING') == '1':
        run_cases(gen_cases)
    extra = []
    try:
        extra = spec.extra_checks(dict(hexe=hexe, tier=tier, seed=seed, rng=rng, problems=problems, stats=stats)) or []
    except Exception as e:
        problems.append(('correspondence', f'extra check crashed: {type(e).__name__}: {e}'))
    for e in extra: violations.append(e)
    # ---- 4. decide
    if divergences:
        d = divergences[0]
        problems.append(('correspondence', f"model and implementation differ on case {d['case'].name} at observation #{d['div'][0]}: impl `{d['div'][1]}` model `{d['div'][2]}`"))
    searched = 0
    if problems and not violations and hexe and driver_ok:
        # intensified search for a failing input (rule 6): more cases, larger, other seeds
        deadline = time.time() + (300 if tier == 'quick' else 1200)
        boost = 1
        while time.time() < deadline and not violations and boost <= 10:
            boost += 3
            more = spec.cases(random.Random(rng.random()), tier, boost=boost)
            searched += len(more)
            run_cases(more)
    # model self-check: when a proof broke, look for an input on which the model itself departs from its reference
    model_cex = None
    if any(k in ('proof', 'translator') for k, _ in problems) and driver_ok and spec.driver and not violations:
        for c in (gen_cases + corpus)[:500]:
            rr = core.run_driver(spec.driver, _write_tmp(spec, c))
            cex = spec.model_selfcheck(c, rr[1])
            if cex: model_cex = (c, cex); break
    rc = 0
    out_lines = []
    for kid, (kf, case, line) in sorted(known_hit.items()):
        out_lines.append(f"KNOWN-FINDING: property={prop} {kf['fields'].get('id','')} {kf['fields'].get('what', kf['text'])}")
    replay_path = None
    if violations:
        v = violations[0]
        lines = v['case'].lines if v.get('case') else []
        if v.get('case') and hexe and v['kind'] in ('oracle', 'crash'):
            sig = v['sig']
            def still_fails(ls):
                r = _run_case(spec, hexe, Case('shrink', ls))
                f, k, d, c = _classify(spec, r, kfs)
                return any(s == sig for s, _ in f) or (sig == 'crash' and c is not None)
            try:
                lines = core.ddmin([l for l in lines], still_fails, budget=60 if tier == 'quick' else 200)
            except Exception as e:
                notes.append(f'shrink failed: {e}')
        replay_path = core.write_replay(prop, 'violation', {
            'property': prop, 'engine': spec.engine, 'seed': seed, 'tier': tier, 'reason': v['kind'],
            'detail': v['detail'][:1500], 'repo': core.repo_head(),
            'broken-ties': '; '.join(f'{k}: {d[:300]}' for k, d in problems) or 'none',
            'replay-with': f'./check {prop} --replay <this file>'}, lines)
        out_lines.append(f'VIOLATION property={prop} replay={replay_path}')
        rc = 1
    elif problems:
        k, d = problems[0]
        body = []
        hdr = {'property': prop, 'engine': spec.engine, 'seed': seed, 'tier': tier, 'reason': k,
               'no-longer-checks': d[:3000], 'all-problems': '\n'.join(f'{a}: {b_[:600]}' for a, b_ in problems),
               'search': f'{len(gen_cases)}+{searched} generated cases and {len(corpus)} corpus cases were run on the implementation under the direct oracle without finding a failing input',
               'repo': core.repo_head()}
        if divergences:
            body = divergences[0]['case'].lines
            hdr['first-divergence'] = f"observation #{divergences[0]['div'][0]}: impl `{divergences[0]['div'][1]}` model `{divergences[0]['div'][2]}`"
        if model_cex:
            body = model_cex[0].lines
            hdr['model-counterexample'] = f'on this input the model itself departs from its reference semantics: {model_cex[1]}'
        replay_path = core.write_replay(prop, 'unproved', hdr, body)
        out_lines.append(f'VIOLATION property={prop} replay={replay_path} no-failing-input-found')
        rc = 1
    # ---- evidence
    cov = {
        'obligations': max(len(obligations), 1), 'discharged': len(discharged) if not any(k in ('proof', 'audit') for k, _ in problems) else len(discharged),
        'checker_cmd': f"cd {core.LEAN} && python3 ../translate/gen.py && lake build {' '.join(mods)} && #print axioms on every theorem" + (' && lake env leanchecker ' + ' '.join(mods) if tier == 'thorough' else ''),
        'trusted_base': ['Lean 4.33.0 kernel', 'axioms: ' + ', '.join(sorted({a for v in audit_rep.get('theorems', {}).values() if v for a in v}) or ['none'])] + list(spec.trusted_base),
        'theorems': obligations, 'axioms_per_theorem': audit_rep.get('theorems', {}),
        'leanchecker': {m: ok for m, (ok, _) in lc.items()},
        'evaluations': max(n_eval, 1), 'distinct_nontrivial': len(nontriv), 'rule': spec.rule,
        'traces_validated_against_impl': len(gen_cases) + len(corpus) + len(kf_cases) + searched,
        'disagreements_checked': len(divergences), 'oracle_failures': len(violations),
        'known_findings_reproduced': sorted(known_hit.keys()),
        'generators': {g: gen_res.get(g, ('missing', ''))[0] for g in spec.generators},
        'samples': samples or [{'note': 'no case was run'}], 'distribution': stats, 'problems': [f'{k}: {d[:300]}' for k, d in problems],
        'notes': notes, 'repo': core.repo_head(),
    }
    core.write_evidence(prop, tier, seed, cov, list(spec.assumptions), time.time() - t0, len(violations) + (1 if problems and not violations else 0))
    for l in out_lines: print(l)
    print(f"[{prop}] tier={tier} seed={seed} theorems={len(discharged)}/{len(obligations)} cases={len(gen_cases)+len(corpus)+len(kf_cases)+searched} "
          f"observations={n_eval} nontrivial={len(nontriv)} divergences={len(divergences)} oracle-failures={len(violations)} "
          f"known={len(known_hit)} wall={time.time()-t0:.1f}s -> {'FAIL' if rc else 'ok'}")
    for k, d in problems: print(f'  problem[{k}]: {d[:600]}')
    return rc

def _write_tmp(spec, case):
    path = os.path.join(core.CACHE, f'self_{spec.id}_{os.getpid()}.ops')
    with open(path, 'w') as f: f.write('\n'.join(case.lines) + '\n')
    return path
