"""setup / baseline / manifest"""
import os, sys, json, glob, importlib, shutil, re, tempfile
from . import core

def claimed_ids():
    """properties whose check is registered in MANIFEST.json: listed in /verif/CLAIMED (maintained by hand)"""
    p = os.path.join(core.ROOT, 'CLAIMED')
    return [l.strip() for l in open(p) if l.strip() and not l.startswith('#')] if os.path.exists(p) else []

def all_specs():
    specs = []
    ids = claimed_ids()
    for f in sorted(glob.glob(os.path.join(core.ROOT, 'vlib', 'props', 'c[0-9]*.py'))):
        if os.path.basename(f)[:-3].upper() not in ids: continue
        m = importlib.import_module('vlib.props.' + os.path.basename(f)[:-3])
        specs.append(m.SPEC)
    return specs

def setup():
    res = core.regenerate()
    bad = [f'{k}: {v[1]}' for k, v in res.items() if v[0] == 'error']
    for b in bad: print('translator:', b)
    specs = [s for s in all_specs() if getattr(s, 'claimed', True)]
    # what the registered checks need: every claimed property's theorem modules and driver
    needed = []
    for s in specs:
        needed += (s.prop_modules or [f'CelloProofs.Props.{s.id}']) + ([s.driver] if s.driver else [])
    needed = sorted(set(needed))
    with core.Lock('lake'):
        rc, out, err = core.sh(['lake', 'build'] + needed, cwd=core.LEAN, timeout=7200)
        print((out + err)[-3000:])
        # the rest of the libraries (lemma files not yet used by a property theorem, stubs): built too, but a failure
        # there does not concern any registered check
        rc2, out2, err2 = core.sh(['lake', 'build', 'Cello', 'CelloGen', 'Driver', 'CelloProofs'], cwd=core.LEAN, timeout=7200)
        if rc2 != 0: print('note: full library build reported errors outside the registered checks:', (out2 + err2)[-1500:])
    ok = rc == 0
    print('setup', 'ok' if ok else 'FAILED')
    return 0 if ok else 1

def baseline():
    """the repository's own suite with the hook guard off, on a scratch copy (removed afterwards)"""
    d = tempfile.mkdtemp(prefix='cello_baseline_', dir=os.environ.get('VERIF_SCRATCH', '/var/tmp'))
    try:
        for sub in ('src', 'include', 'tests', 'Makefile'):
            s = os.path.join(core.REPO, sub)
            (shutil.copytree if os.path.isdir(s) else shutil.copy)(s, os.path.join(d, sub))
        rc, out, err = core.sh('make check 2>&1', cwd=d, timeout=1800)
        txt = re.sub(r'\x1b\[[0-9;]*m', '', out + err)
        passed = re.findall(r'\| (Test .*?) \.\.\. Passed!', txt)
        failed = re.findall(r'\| (Test .*?) \.\.\. Failed!', txt)
        for t in passed: print('PASS |', t)
        for t in failed: print('FAIL |', t)
        print(f'baseline: {len(passed)} passed, {len(failed)} failed, make rc={rc}')
        return 0 if rc == 0 and not failed else 1
    finally:
        shutil.rmtree(d, ignore_errors=True)

def manifest():
    specs = all_specs()
    props = [json.loads(l) for l in open(os.path.join(core.ROOT, 'properties.jsonl'))]
    claimed = {s.id: s for s in specs if getattr(s, 'claimed', True)}
    checks = []
    for p in props:
        s = claimed.get(p['id'])
        if not s: continue
        checks.append({
            'property_id': s.id,
            'quick_cmd': f'./check {s.id} --tier quick',
            'thorough_cmd': f'./check {s.id} --tier thorough',
            'evidence_file': f'/verif/evidence/{s.id}.json',
            'replay_cmd_template': f'./check {s.id} --replay {{path}}',
            'engine': s.engine,
            'level_claimed': {'category': 'proof', 'text': getattr(s, 'level_text', ''), 'design_ref': f'DESIGN.md §6 {s.id}'},
            'level_note': getattr(s, 'level_note', ''),
            'technique': getattr(s, 'technique', 'Lean 4 theorem over an executable model + differential correspondence with the C code'),
        })
    na_path = os.path.join(core.ROOT, 'NOT_APPLICABLE.json')
    na = json.load(open(na_path)) if os.path.exists(na_path) else []
    na = [x for x in na if x['property_id'] not in claimed]
    for p in props:
        if p['id'] not in claimed and not any(x['property_id'] == p['id'] for x in na):
            na.append({'property_id': p['id'], 'reason': 'check not built yet (work in progress); see DESIGN.md'})
    hooks = json.load(open(os.path.join(core.ROOT, 'HOOKS.json')))
    man = {
        'version': 1,
        'setup_cmd': './check --setup',
        'hooks': hooks,
        'engines': [{'name': s.engine, 'path': f'harness/{s.harness}.c + lean/Driver + lean/Cello', 'serves_properties': [s.id],
                     'kind_free_text': 'C unity-build harness (clang ASan/UBSan) + Lean model driver (lean_exe) + Lean theorems'} for s in claimed.values()],
        'checks': checks,
        'not_applicable': na,
        'notes': 'Every check: regenerate lean/CelloGen from /repo, lake build the property theorems, #print axioms audit, build the unity harness from /repo working tree, run op files on harness and Lean driver, diff, direct oracle. See DESIGN.md.',
    }
    with open(os.path.join(core.ROOT, 'MANIFEST.json'), 'w') as f: json.dump(man, f, indent=1)
    print('MANIFEST.json:', len(checks), 'checks,', len(na), 'not_applicable')
    return 0
