"""Shared machinery of every check: build (translator, Lean, harness), audit, run, compare, search, shrink,
known findings, evidence.  See DESIGN.md §2 (decision rule) and §4."""
import os, sys, re, json, time, glob, hashlib, subprocess, fcntl, random, shutil, tempfile

ROOT = os.path.dirname(os.path.dirname(os.path.abspath(__file__)))
REPO = os.environ.get('CELLO_REPO', '/repo')
LEAN = os.path.join(ROOT, 'lean')
CACHE = os.path.join(ROOT, '.cache')
REPLAYS = os.path.join(ROOT, 'replays')
EVIDENCE = os.path.join(ROOT, 'evidence')
CORPUS = os.path.join(ROOT, 'corpus')
CC = os.environ.get('VERIF_CC', 'clang-14')
ALLOWED_AXIOMS = {'propext', 'Classical.choice', 'Quot.sound'}
FORBIDDEN = [r'\bsorry\b', r'\badmit\b', r'^\s*axiom\s', r'\bnative_decide\b', r'\bbv_decide\b', r'\bimplemented_by\b',
             r'\bunsafe\s', r'maxHeartbeats\s+0\b', r'\bofReduceBool\b']

os.makedirs(CACHE, exist_ok=True)
os.makedirs(REPLAYS, exist_ok=True)
os.makedirs(EVIDENCE, exist_ok=True)

def sh(cmd, timeout=None, cwd=None, env=None, input=None):
    """run; returns (rc, stdout, stderr); rc = -9 on timeout (the whole process group is killed)"""
    import signal
    p = subprocess.Popen(cmd, shell=isinstance(cmd, str), cwd=cwd, env=env, stdin=subprocess.PIPE if input is not None else subprocess.DEVNULL,
                         stdout=subprocess.PIPE, stderr=subprocess.PIPE, text=True, errors='replace', start_new_session=True)
    try:
        out, err = p.communicate(input=input, timeout=timeout)
        return p.returncode, out, err
    except subprocess.TimeoutExpired:
        try: os.killpg(p.pid, signal.SIGKILL)
        except ProcessLookupError: pass
        try: out, err = p.communicate(timeout=10)
        except Exception: out, err = '', ''
        return -9, out or '', err or ''

def log(*a):
    print(*a, file=sys.stderr, flush=True)

# ------------------------------------------------------------------------------------------------ repo state
def repo_files():
    return sorted(glob.glob(os.path.join(REPO, 'src', '*.c'))) + sorted(glob.glob(os.path.join(REPO, 'include', '*.h')))

def repo_hash(extra=()):
    h = hashlib.sha256()
    for f in repo_files():
        h.update(f.encode()); h.update(open(f, 'rb').read())
    for e in extra:
        h.update(str(e).encode())
    return h.hexdigest()[:20]

def repo_head():
    rc, out, _ = sh(['git', '-C', REPO, 'rev-parse', '--short', 'HEAD'])
    rc2, st, _ = sh(['git', '-C', REPO, 'status', '--porcelain', '--', 'src', 'include'])
    return out.strip() + ('+dirty' if st.strip() else '')

# ------------------------------------------------------------------------------------------------ locking
_held = {}
class Lock:
    """inter-process lock (flock), re-entrant within one process"""
    def __init__(self, name): self.name = name; self.path = os.path.join(CACHE, name + '.lock')
    def __enter__(self):
        h = _held.get(self.name)
        if h: h[1] += 1; return self
        f = open(self.path, 'w'); fcntl.flock(f, fcntl.LOCK_EX); _held[self.name] = [f, 1]; return self
    def __exit__(self, *a):
        h = _held[self.name]; h[1] -= 1
        if h[1] == 0:
            fcntl.flock(h[0], fcntl.LOCK_UN); h[0].close(); del _held[self.name]

# ------------------------------------------------------------------------------------------------ link (A): translator
def regenerate(only=None):
    """returns dict name -> (status, msg)"""
    sys.path.insert(0, os.path.join(ROOT, 'translate'))
    import importlib, gen
    importlib.reload(gen)
    return gen.run(REPO, os.path.join(LEAN, 'CelloGen'), only)

# ------------------------------------------------------------------------------------------------ Lean
def lake_build(targets, timeout=3000):
    """build targets one by one (so that a failing proof module does not hide a driver that builds).
    returns dict target -> (ok, log)"""
    res = {}
    with Lock('lake'):
        for t in targets:
            rc, out, err = sh(['lake', 'build', t], cwd=LEAN, timeout=timeout)
            res[t] = (rc == 0, out + err)
    return res

def first_lean_error(buildlog):
    """(file, line, message) of the first error in a lake/lean log"""
    m = re.search(r'error: ([^\s:]+\.lean):(\d+):(\d+): (.*)', buildlog)
    if m: return m.group(1), int(m.group(2)), m.group(4)
    m = re.search(r'error: (.*)', buildlog)
    return (None, 0, m.group(1) if m else 'unknown build error')

def enclosing_decl(path, line):
    """name of the theorem/def enclosing `line` in a Lean file"""
    try:
        src = open(os.path.join(LEAN, path) if not os.path.isabs(path) else path).read().split('\n')
    except OSError:
        return None
    for i in range(min(line, len(src)) - 1, -1, -1):
        m = re.match(r'\s*(?:private\s+|protected\s+)?(?:theorem|lemma|def|example|instance|abbrev)\s+([^\s:({\[]+)?', src[i])
        if m: return m.group(1) or 'example'
    return None

def strip_lean_comments(s):
    s = re.sub(r'/-.*?-/', lambda m: '\n' * m.group(0).count('\n'), s, flags=re.S)
    s = re.sub(r'--[^\n]*', '', s)
    # string literals are not code either
    s = re.sub(r'"(?:\\.|[^"\\])*"', '""', s)
    return s

def lean_closure(mods):
    """source files (relative to LEAN) imported transitively by the given modules, within this package"""
    seen, todo = set(), list(mods)
    while todo:
        m = todo.pop()
        if m in seen: continue
        p = os.path.join(LEAN, m.replace('.', '/') + '.lean')
        if not os.path.exists(p): continue
        seen.add(m)
        for im in re.findall(r'^\s*import\s+([\w.]+)', open(p).read(), flags=re.M):
            if im.split('.')[0] in ('Cello', 'CelloGen', 'CelloProofs', 'Driver'): todo.append(im)
    return sorted(seen)

def theorems_of(module):
    p = os.path.join(LEAN, module.replace('.', '/') + '.lean')
    src = strip_lean_comments(open(p).read())
    ns = []
    names = []
    for line in src.split('\n'):
        m = re.match(r'\s*namespace\s+([\w.]+)', line)
        if m: ns.append(m.group(1)); continue
        m = re.match(r'\s*end\s+([\w.]+)', line)
        if m and ns and ns[-1] == m.group(1): ns.pop(); continue
        m = re.match(r'\s*(?:protected\s+)?theorem\s+([\w.\']+)', line)
        if m: names.append('.'.join(ns + [m.group(1)]))
    return names

def audit(prop_modules):
    """#print axioms for every theorem of the property modules + forbidden-token scan of their import closure.
    returns (ok, report dict)"""
    rep = {'theorems': {}, 'forbidden': [], 'imports_mathlib': []}
    closure = lean_closure(prop_modules)
    for m in closure:
        p = os.path.join(LEAN, m.replace('.', '/') + '.lean')
        raw = open(p).read()
        src = strip_lean_comments(raw)
        for pat in FORBIDDEN:
            for mm in re.finditer(pat, src, flags=re.M):
                rep['forbidden'].append(f'{m}: /{pat}/ at offset {mm.start()}')
        if (m.startswith('Cello.') or m.startswith('Driver.') or m.startswith('CelloGen.')) and re.search(r'^\s*import\s+Mathlib', raw, flags=re.M):
            rep['imports_mathlib'].append(m)
    names = []
    for m in prop_modules: names += theorems_of(m)
    tmp = os.path.join(CACHE, 'audit_' + '_'.join(x.split('.')[-1] for x in prop_modules) + f'_{os.getpid()}.lean')
    with open(tmp, 'w') as f:
        for m in prop_modules: f.write(f'import {m}\n')
        for n in names: f.write(f'#print axioms {n}\n')
    with Lock('lake'):
        rc, out, err = sh(['lake', 'env', 'lean', tmp], cwd=LEAN, timeout=900)
    os.unlink(tmp)
    ok = rc == 0
    # output: "'name' depends on axioms: [a, b]" or "'name' does not depend on any axioms"
    txt = out + err
    for n in names:
        m = re.search(r"'" + re.escape(n) + r"' (does not depend on any axioms|depends on axioms: \[([^\]]*)\])", txt, flags=re.S)
        if not m:
            rep['theorems'][n] = None; ok = False; continue
        ax = [a.strip() for a in (m.group(2) or '').replace('\n', ' ').split(',') if a.strip()]
        rep['theorems'][n] = ax
        if any(a not in ALLOWED_AXIOMS for a in ax): ok = False
    if rep['forbidden'] or rep['imports_mathlib']: ok = False
    rep['raw_tail'] = txt[-2000:] if not ok else ''
    return ok, rep

def leanchecker(modules):
    """independent re-check of compiled .olean files (thorough tier)"""
    res = {}
    for m in modules:
        with Lock('lake'):
            rc, out, err = sh(['lake', 'env', 'leanchecker', m], cwd=LEAN, timeout=1800)
        res[m] = (rc == 0, (out + err)[-500:])
    return res

# ------------------------------------------------------------------------------------------------ harness
SAN = ['-fsanitize=address,undefined', '-fno-sanitize-recover=undefined', '-fno-omit-frame-pointer']
def build_harness(name, flags=(), defines=(), sanitize=True, opt='-O1', libs=('-lpthread', '-lm'), tag=''):
    """compile harness/<name>.c as a unity build over REPO's working tree; cached by content hash.
    returns (ok, exe_path, log)"""
    hsrc = os.path.join(ROOT, 'harness', name + '.c')
    deps = [hsrc] + sorted(glob.glob(os.path.join(ROOT, 'harness', '*.h')))
    key = repo_hash([open(d, 'rb').read() for d in deps] + list(flags) + list(defines) + [sanitize, opt, tag, CC])
    d = os.path.join(CACHE, 'h', f'{name}{tag}-{key}')
    exe = os.path.join(d, name)
    with Lock('harness-' + name + tag):
        if os.path.exists(exe): return True, exe, 'cached'
        os.makedirs(d, exist_ok=True)
        with open(os.path.join(d, 'unity.inc'), 'w') as f:
            f.write('/* generated: every source file of the repository under test, as one translation unit */\n')
            f.write('#include "Cello.h"\n')
            for c in sorted(glob.glob(os.path.join(REPO, 'src', '*.c'))):
                f.write(f'#include "{c}"\n')
        cmd = [CC, '-std=gnu99', '-g', opt, '-w'] + (SAN if sanitize else []) + \
              [f'-I{REPO}/include', f'-I{REPO}/src', f'-I{d}', f'-I{ROOT}/harness', '-DCELLO_NSTRACE'] + \
              [f'-D{x}' for x in defines] + list(flags) + [hsrc, '-o', exe + '.tmp'] + list(libs)
        rc, out, err = sh(cmd, timeout=600)
        if rc != 0:
            return False, None, (out + err)[-4000:]
        os.rename(exe + '.tmp', exe)
        # keep the cache small: drop other builds of the same harness
        # (only stale ones: a concurrent run against another CELLO_REPO may be using a different key right now)
        for old in glob.glob(os.path.join(CACHE, 'h', f'{name}{tag}-*')):
            try:
                if old != d and time.time() - os.path.getmtime(old) > 6 * 3600: shutil.rmtree(old, ignore_errors=True)
            except OSError: pass
        return True, exe, ' '.join(cmd)

DRIVER_SNAPSHOT = {}
def driver_path(exe):
    return DRIVER_SNAPSHOT.get(exe) or os.path.join(LEAN, '.lake', 'build', 'bin', exe)

def snapshot_driver(exe):
    """copy the freshly built driver aside (call while holding the lake lock): a concurrent check against another tree
    (CELLO_REPO=…, tools/seed_eval.py) regenerates CelloGen and relinks the same lean_exe while this run is still using it"""
    src = os.path.join(LEAN, '.lake', 'build', 'bin', exe)
    d = os.path.join(CACHE, 'drv'); os.makedirs(d, exist_ok=True)
    dst = os.path.join(d, f'{exe}.{os.getpid()}')
    shutil.copy2(src, dst); DRIVER_SNAPSHOT[exe] = dst
    import atexit
    atexit.register(lambda: os.path.exists(dst) and os.unlink(dst))
    return dst

HENV = dict(os.environ, LC_ALL='C', ASAN_OPTIONS='detect_leaks=0:abort_on_error=0:exitcode=97:allocator_may_return_null=1',
            UBSAN_OPTIONS='print_stacktrace=1:halt_on_error=1:exitcode=98')

def run_harness(exe, opfile, timeout=120, env=None, args=()):
    return sh([exe, opfile] + list(args), timeout=timeout, env=env or HENV, cwd=CACHE)

def run_driver(exe, opfile, timeout=300):
    return sh([driver_path(exe), opfile], timeout=timeout)

def lines_with(prefix, text):
    return [l for l in text.split('\n') if l.startswith(prefix)]

def first_divergence(c_out, m_out):
    """compare the O-lines of harness and driver; returns None or (index, c_line, m_line)"""
    a, b = lines_with('O ', c_out), lines_with('O ', m_out)
    for i in range(max(len(a), len(b))):
        x = a[i] if i < len(a) else '<missing>'
        y = b[i] if i < len(b) else '<missing>'
        if x != y: return i, x, y
    return None

# ------------------------------------------------------------------------------------------------ known findings
def known_findings(prop):
    """entries of KNOWN_FINDINGS.txt for this property: list of dict(kind, fields, text)"""
    out = []
    p = os.path.join(ROOT, 'KNOWN_FINDINGS.txt')
    if not os.path.exists(p): return out
    for line in open(p):
        line = line.strip()
        if not line or line.startswith('#'): continue
        m = re.match(r'(finding|fixed):\s+(.*)', line)
        if not m: continue
        kind, rest = m.groups()
        fields = dict(re.findall(r'(\w+)=("(?:[^"]*)"|\S+)', rest))
        fields = {k: v.strip('"') for k, v in fields.items()}
        if fields.get('property') != prop: continue
        out.append({'kind': kind, 'fields': fields, 'text': rest})
    return out

# ------------------------------------------------------------------------------------------------ shrinking
def ddmin(lines, fails, budget=150, max_s=240):
    """delta debugging on a list of op lines; `fails(lines) -> bool`. Keeps header/comment lines.
    Stops after `budget` trials or `max_s` seconds of wall clock (a changed tree on which every trial hangs until the
    harness timeout must not turn one check into an hour of shrinking); whatever was reached by then is the replay."""
    n = 2
    calls = 0
    cur = list(lines)
    t_end = time.time() + max_s
    while len(cur) >= 2 and calls < budget and time.time() < t_end:
        chunk = max(1, len(cur) // n)
        reduced = False
        for i in range(0, len(cur), chunk):
            cand = cur[:i] + cur[i+chunk:]
            calls += 1
            if cand and fails(cand):
                cur = cand; n = max(n - 1, 2); reduced = True; break
            if calls >= budget or time.time() >= t_end: break
        if not reduced:
            if chunk == 1: break
            n = min(n * 2, len(cur))
    return cur

# ------------------------------------------------------------------------------------------------ evidence
def write_evidence(prop, tier, seed, coverage, assumptions, wall, violations, level='proof'):
    ev = {'property_id': prop, 'tier': tier, 'seed': int(seed), 'level': level, 'coverage': coverage,
          'assumptions': assumptions, 'wall_s': round(wall, 2), 'violations': int(violations)}
    # evidence/ describes runs against /repo itself; a run against another tree (CELLO_REPO=…, used by tools/seed_eval.py
    # and the engines' mutation self-tests) must not overwrite it
    edir = EVIDENCE if os.path.realpath(REPO) == '/repo' else os.path.join(CACHE, 'evidence_other_tree')
    os.makedirs(edir, exist_ok=True)
    p = os.path.join(edir, prop + '.json')
    tmp = p + f'.{os.getpid()}.tmp'
    with open(tmp, 'w') as f: json.dump(ev, f, indent=1)
    os.replace(tmp, p)
    return p

def write_replay(prop, name, header, body_lines):
    tag = '' if os.path.realpath(REPO) == '/repo' else '_' + os.path.basename(os.path.realpath(REPO))
    p = os.path.join(REPLAYS, f'{prop}_{name}{tag}.ops')
    with open(p, 'w') as f:
        for k, v in header.items():
            for ln in str(v).split('\n'): f.write(f'# {k}: {ln}\n')
        for l in body_lines: f.write(l.rstrip('\n') + '\n')
    return p
